import RlibModel.Model.Common
/-
Model of `rlib/tensor/src/lib.rs` (`Tensor<T, const D: usize>`), core Lean only, arbitrary rank.

`dims : [usize; D]` and an index `[usize; D]` are lists of naturals; that both have length `D`
is enforced by the Rust type checker, here it is an explicit hypothesis of the theorems (the
model answers `panic:index` on a length mismatch, which no well-typed caller can produce).

Panics: `assert!` / `assert_eq!` ⇒ `panic:assert`; `self.data[k]` out of range ⇒ `panic:index`.
`usize` overflow inside `get_index` is modelled by `getIndexU`; overflow of
`dims.iter().product()` in the constructors is not modelled (DESIGN §6 C19, residue).
-/
namespace Rlib.Tensor

structure Tensor (α : Type) where
  dims : List Nat
  data : List α
  deriving Repr

/-- `dims.iter().product::<usize>()` -/
def prod : List Nat → Nat
  | [] => 1
  | d :: ds => d * prod ds

/-- `dims.iter().product::<usize>()` as the checked build executes it: a left fold with every
    multiplication checked against 64 bits (`panic:overflow`). -/
def prodUFrom : Nat → List Nat → Except Panic Nat
  | acc, [] => .ok acc
  | acc, d :: ds => if acc * d < 2 ^ 64 then prodUFrom (acc * d) ds else .error .overflow

def prodU (dims : List Nat) : Except Panic Nat := prodUFrom 1 dims

/-! ### constructors

The plain versions (`fromVec`, …) compute the product over ℕ; the `…U` versions are what the
checked build executes (product through `prodU`).  `Lemmas/Tensor.lean` proves that they agree
whenever `Π dims < 2^64`, and that the `…U` versions still reject every bad shape otherwise. -/

def fromVecU {α} (dims : List Nat) (data : List α) : Except Panic (Tensor α) :=
  if dims.contains 0 then .error .assert
  else match prodU dims with
    | .error e => .error e
    | .ok p => if p ≠ data.length then .error .assert else .ok ⟨dims, data⟩

def fromSliceU {α} (dims : List Nat) (data : List α) : Except Panic (Tensor α) :=
  if dims.contains 0 then .error .assert
  else match prodU dims with
    | .error e => .error e
    | .ok p => if p ≠ data.length then .error .assert else .ok ⟨dims, data⟩

def newU {α} (dims : List Nat) (value : α) : Except Panic (Tensor α) :=
  if dims.contains 0 then .error .assert
  else match prodU dims with
    | .error e => .error e
    | .ok p => .ok ⟨dims, List.replicate p value⟩

/-- `from_vec`: `assert!(!dims.contains(&0)); assert_eq!(product, data.len())`. -/
def fromVec {α} (dims : List Nat) (data : List α) : Except Panic (Tensor α) :=
  if dims.contains 0 then .error .assert
  else if prod dims ≠ data.length then .error .assert
  else .ok ⟨dims, data⟩

/-- `from_slice`: the same two assertions, then `data.to_vec()`. -/
def fromSlice {α} (dims : List Nat) (data : List α) : Except Panic (Tensor α) :=
  if dims.contains 0 then .error .assert
  else if prod dims ≠ data.length then .error .assert
  else .ok ⟨dims, data⟩

/-- `new`: `assert!(!dims.contains(&0)); vec![value; product]`. -/
def new {α} (dims : List Nat) (value : α) : Except Panic (Tensor α) :=
  if dims.contains 0 then .error .assert
  else .ok ⟨dims, List.replicate (prod dims) value⟩

/-- `reader.read_vec(n)`: `n` successive element reads on an abstract reader state. -/
def readVec {σ α} (rd : σ → α × σ) : Nat → σ → List α × σ
  | 0, s => ([], s)
  | n + 1, s =>
    let (a, s1) := rd s
    let (as, s2) := readVec rd n s1
    (a :: as, s2)

/-- `Tensor::read(dims, reader)`: `assert!(!dims.contains(&0)); data = reader.read_vec(product)`. -/
def read {σ α} (dims : List Nat) (rd : σ → α × σ) (s : σ) : Except Panic (Tensor α × σ) :=
  if dims.contains 0 then .error .assert
  else
    let (d, s') := readVec rd (prod dims) s
    .ok (⟨dims, d⟩, s')

def readU {σ α} (dims : List Nat) (rd : σ → α × σ) (s : σ) : Except Panic (Tensor α × σ) :=
  if dims.contains 0 then .error .assert
  else match prodU dims with
    | .error e => .error e
    | .ok p =>
      let (d, s') := readVec rd p s
      .ok (⟨dims, d⟩, s')

/-! ### indexing -/

/-- The loop of `get_index`, on the *reversed* lists (`for i in (0..D).rev()`):
    ```
    assert!(idx[i] < self.dims[i]);  result += sz * idx[i];  sz *= self.dims[i];
    ``` -/
def getIndexRev : List Nat → List Nat → Nat → Nat → Except Panic Nat
  | [], [], result, _ => .ok result
  | d :: ds, i :: is, result, sz =>
    if i < d then getIndexRev ds is (result + sz * i) (sz * d) else .error .assert
  | _, _, _, _ => .error .index

/-- `pub fn get_index(&self, idx: [usize; D]) -> usize` -/
def getIndex (dims idx : List Nat) : Except Panic Nat :=
  getIndexRev dims.reverse idx.reverse 0 1

/-- The same loop with every `usize` operation (`sz * idx[i]`, `result += …`, `sz *= dims[i]`)
    checked against 64 bits, as the harness build (`overflow-checks = true`) executes it.
    `Lemmas/Tensor.lean` (`getIndexU_eq`) proves that for positive extents with `Π dims < 2^64`
    no check fires, whatever the index. -/
def getIndexRevU : List Nat → List Nat → Nat → Nat → Except Panic Nat
  | [], [], result, _ => .ok result
  | d :: ds, i :: is, result, sz =>
    if i < d then
      if ¬ sz * i < 2 ^ 64 then .error .overflow
      else if ¬ result + sz * i < 2 ^ 64 then .error .overflow
      else if ¬ sz * d < 2 ^ 64 then .error .overflow
      else getIndexRevU ds is (result + sz * i) (sz * d)
    else .error .assert
  | _, _, _, _ => .error .index

def getIndexU (dims idx : List Nat) : Except Panic Nat :=
  getIndexRevU dims.reverse idx.reverse 0 1

/-- `Index::index`: `&self.data[self.get_index(idx)]` -/
def index {α} (t : Tensor α) (idx : List Nat) : Except Panic α :=
  match getIndex t.dims idx with
  | .error e => .error e
  | .ok k =>
    match t.data[k]? with
    | some a => .ok a
    | none => .error .index

/-- `IndexMut::index_mut` followed by an assignment: `t[idx] = v`. -/
def setAt {α} (t : Tensor α) (idx : List Nat) (v : α) : Except Panic (Tensor α) :=
  match getIndex t.dims idx with
  | .error e => .error e
  | .ok k => if k < t.data.length then .ok { t with data := t.data.set k v } else .error .index

/-- `iter()` / `into_iter()`: the backing vector in order. -/
def iter {α} (t : Tensor α) : List α := t.data

/-- `PartialEq` (after fix 40d6c9a): `self.dims == other.dims && self.data == other.data`. -/
def eq {α} [BEq α] (t u : Tensor α) : Bool := t.dims == u.dims && t.data == u.data

/-- `PartialEq` before the fix compared `data` only (kept for the documented counter-example). -/
def eqDataOnly {α} [BEq α] (t u : Tensor α) : Bool := t.data == u.data

/-! ### `Writable`: the odometer walk -/

/-- `Iterator::rposition`: index (from the front) of the last element satisfying `p`. -/
def rposition {β} (p : β → Bool) : List β → Option Nat
  | [] => none
  | x :: xs =>
    match rposition p xs with
    | some k => some (k + 1)
    | none => if p x then some 0 else none

/-- `idx.iter().zip(self.dims.iter()).rposition(|(i1, i2)| i1 + 1 != *i2)` -/
def rpos (idx dims : List Nat) : Option Nat :=
  rposition (fun (p : Nat × Nat) => p.1 + 1 != p.2) (idx.zip dims)

/-- `idx[pos] += 1; idx[pos + 1..].fill(0);` -/
def bump : List Nat → Nat → List Nat
  | [], _ => []
  | i :: is, 0 => (i + 1) :: List.replicate is.length 0
  | i :: is, pos + 1 => i :: bump is pos

/-- What `write` emits: an element, or a separator — `sep 0` is one `' '`, `sep k` (`k ≥ 1`) is
    `k` times `'\n'`. -/
inductive Piece (α : Type) where
  | elem (a : α)
  | sep (newlines : Nat)
  deriving Repr, DecidableEq

/-- The `loop` of `Writable::write`; `fuel` bounds the number of rounds (`Lemmas/Tensor.lean`
    proves that `product` rounds suffice for a well-formed tensor):
    ```
    writer.write(&self[idx]);
    if let Some(pos) = rposition(..) {
        if pos + 1 == D { write_char(' ') } else { for _ in 0..(D - pos - 1) { write_char('\n') } }
        idx[pos] += 1; idx[pos + 1..].fill(0);
    } else { break }
    ``` -/
def writeLoop {α} (t : Tensor α) : Nat → List Nat → List (Piece α) → Except Panic (List (Piece α))
  | 0, _, _ => .error .fuel
  | fuel + 1, idx, acc =>
    match index t idx with
    | .error e => .error e
    | .ok a =>
      match rpos idx t.dims with
      | none => .ok (acc ++ [.elem a])
      | some pos =>
        let D := t.dims.length
        let s : Piece α := if pos + 1 = D then .sep 0 else .sep (D - pos - 1)
        writeLoop t fuel (bump idx pos) (acc ++ [.elem a, s])

/-- `Writable::write`: `idx = [0; D]`, then the loop. -/
def writePieces {α} (t : Tensor α) : Except Panic (List (Piece α)) :=
  writeLoop t (prod t.dims) (List.replicate t.dims.length 0) []

/-- The bytes of one piece, given the element's own `Writable` rendering. -/
def renderPiece {α} (render : α → List Char) : Piece α → List Char
  | .elem a => render a
  | .sep 0 => [' ']
  | .sep (k + 1) => List.replicate (k + 1) '\n'

def renderPieces {α} (render : α → List Char) (ps : List (Piece α)) : List Char :=
  (ps.map (renderPiece render)).flatten

/-- The text `write` produces. -/
def writeText {α} (render : α → List Char) (t : Tensor α) : Except Panic (List Char) :=
  match writePieces t with
  | .error e => .error e
  | .ok ps => .ok (renderPieces render ps)

/-! ### `Debug`: the same odometer, nested brackets

`impl Debug` repeats the loop of `write` with other separators: `", "` inside the last
dimension, otherwise `]`×k `", "` `[`×k with `k = D − pos − 1`; the whole output is wrapped in
`[`×D … `]`×D.  The model reuses the odometer (`writePieces`) and renders a separator piece
`sep k` that way (`sep 0` ↦ `", "`). -/

def renderPieceDbg {α} (render : α → List Char) : Piece α → List Char
  | .elem a => render a
  | .sep k => List.replicate k ']' ++ [',', ' '] ++ List.replicate k '['

def debugText {α} (render : α → List Char) (t : Tensor α) : Except Panic (List Char) :=
  match writePieces t with
  | .error e => .error e
  | .ok ps =>
    let D := t.dims.length
    .ok (List.replicate D '[' ++ (ps.map (renderPieceDbg render)).flatten ++ List.replicate D ']')

/-- What `{:?}` must print: nested lists, row-major (defined by recursion on the shape,
    independent of the odometer). -/
def nested {α} (render : α → List Char) : List Nat → List α → List Char
  | [], data => match data with
    | a :: _ => render a
    | [] => []
  | d :: ds, data =>
    let blocks := (List.range d).map (fun i => nested render ds (data.drop (i * prod ds)))
    ['['] ++ (blocks.intersperse [',', ' ']).flatten ++ [']']

/-! ### Executable specification -/

/-- Row-major offset: `flat idx = Σ idxᵢ · Π_{j>i} dimsⱼ` (Horner from the front — the code folds
    from the back). -/
def flat : List Nat → List Nat → Nat
  | _ :: ds, i :: is => i * prod ds + flat ds is
  | _, _ => 0

/-- `∀ i, idxᵢ < dimsᵢ` and equal lengths. -/
def InRange : List Nat → List Nat → Prop
  | [], [] => True
  | d :: ds, i :: is => i < d ∧ InRange ds is
  | _, _ => False

instance : (dims idx : List Nat) → Decidable (InRange dims idx)
  | [], [] => isTrue trivial
  | d :: ds, i :: is =>
    have := instDecidableInRange ds is
    inferInstanceAs (Decidable (i < d ∧ InRange ds is))
  | [], _ :: _ => isFalse (fun h => h)
  | _ :: _, [] => isFalse (fun h => h)

/-- Some index is out of range (equal lengths understood). -/
def SomeOob : List Nat → List Nat → Prop
  | d :: ds, i :: is => d ≤ i ∨ SomeOob ds is
  | _, _ => False

/-- The multi-index of a flat offset (mixed-radix digits, most significant first). -/
def unflat : List Nat → Nat → List Nat
  | [], _ => []
  | _ :: ds, n => (n / prod ds) :: unflat ds (n % prod ds)

/-- Strict lexicographic order on equal-length index lists. -/
def LexLt : List Nat → List Nat → Prop
  | i :: is, j :: js => i < j ∨ (i = j ∧ LexLt is js)
  | _, _ => False

/-- Number of `'\n'` written before the element at flat offset `n` (`0 < n < product`):
    one per nonempty trailing block of dimensions that is completed there, i.e. the number of
    nonempty suffixes `s` of `dims` with `Π s ∣ n`.  `0` means a single blank. -/
def sepCount : List Nat → Nat → Nat
  | [], _ => 0
  | d :: ds, n => (if n % prod (d :: ds) = 0 then 1 else 0) + sepCount ds n

/-- number of trailing zero coordinates of a multi-index -/
def trailingZeros : List Nat → Nat
  | [] => 0
  | i :: is => if is.all (· == 0) then (if i = 0 then 1 else 0) + is.length else trailingZeros is

/-- What `write` must emit: the elements in storage order, the `k`-th and `k+1`-th separated by
    `sep (sepCount dims (k+1))`. -/
def specPiecesFrom {α} (dims : List Nat) : Nat → List α → List (Piece α)
  | _, [] => []
  | _, [a] => [.elem a]
  | k, a :: b :: rest => .elem a :: .sep (sepCount dims (k + 1)) :: specPiecesFrom dims (k + 1) (b :: rest)

def specPieces {α} (dims : List Nat) (data : List α) : List (Piece α) := specPiecesFrom dims 0 data

/-- Split on ASCII whitespace, dropping empty tokens (the reader's notion of a token). -/
def isWs (c : Char) : Bool := c = ' ' || c = '\n' || c = '\t' || c = '\r' || c = '\x0C'

def splitWsGo : List Char → List Char → List (List Char)
  | cur, [] => if cur.isEmpty then [] else [cur.reverse]
  | cur, c :: cs =>
    if isWs c then
      (if cur.isEmpty then splitWsGo [] cs else cur.reverse :: splitWsGo [] cs)
    else splitWsGo (c :: cur) cs

def splitWs (s : List Char) : List (List Char) := splitWsGo [] s

/-- A token-list reader: pops the next token and parses it (`dflt` at end of input, as the
    release build of `rlib_io` returns an empty/zero value there). -/
def tokRd {α} (parse : List Char → α) (dflt : α) : List (List Char) → α × List (List Char)
  | [] => (dflt, [])
  | t :: ts => (parse t, ts)

/-- well-formed tensor: what the constructors establish -/
def WF {α} (t : Tensor α) : Prop := (∀ d ∈ t.dims, 0 < d) ∧ t.data.length = prod t.dims

/-! ### `Clone` (value semantics) and histories over several tensors

`#[derive(Clone)]` on `Tensor`: `clone` copies shape and storage; `clone_from` is the trait's
default method `*self = source.clone()` — whatever `self` was before (another shape, the same
number of elements or not), afterwards it is a copy of `source`. -/

/-- `Clone::clone` (derived): `Tensor { dims: self.dims.clone(), data: self.data.clone() }` -/
def clone {α} (t : Tensor α) : Tensor α := ⟨t.dims, t.data⟩

/-- `Clone::clone_from` (default method): `*self = source.clone()` -/
def cloneFrom {α} (_self source : Tensor α) : Tensor α := clone source

/-- `pub fn dim(&self, i: usize) -> usize { self.dims[i] }` (array index: `panic:index` for `i ≥ D`) -/
def dim {α} (t : Tensor α) (i : Nat) : Except Panic Nat :=
  match t.dims[i]? with
  | some d => .ok d
  | none => .error .index

/-- One step of a history over tensor slots (`Tensor<i64, D>` values held in numbered variables). -/
inductive HOp where
  /-- `slot s = from_vec(dims, start, start+1, …)` -/
  | mk (s : Nat) (dims : List Nat) (start : Int)
  /-- `slot s = slot r .clone()` -/
  | cl (s r : Nat)
  /-- `slot s .clone_from(&slot r)` -/
  | cf (s r : Nat)
  /-- `slot s == slot r` -/
  | eq (s r : Nat)
  /-- `slot s .dims()` -/
  | dims (s : Nat)
  /-- `slot s .dim(i)` -/
  | dim (s : Nat) (i : Nat)
  /-- `slot s .get_index(idx)` -/
  | get (s : Nat) (idx : List Nat)
  /-- `slot s [idx]` -/
  | rd (s : Nat) (idx : List Nat)
  /-- `slot s [idx] = v`, then all cells are observed -/
  | wr (s : Nat) (idx : List Nat) (v : Int)
  /-- `slot s .iter()` -/
  | it (s : Nat)
  /-- `Writable::write` of slot s -/
  | w (s : Nat)
  deriving Repr

/-- What one step shows.  `panic (some e)` is the model's raw panic, `panic none` "some panic" (the
    property's view); `invalid` = the step referred to a slot that holds nothing. -/
inductive Obs where
  | done
  | bool (b : Bool)
  | nat (n : Nat)
  | nats (l : List Nat)
  | int (i : Int)
  | ints (l : List Int)
  | pieces (ps : List (Piece Int))
  | panic (e : Option Panic)
  | invalid
  deriving Repr, DecidableEq

/-- the property's view of an observation: a panic is a panic -/
def Obs.view : Obs → Obs
  | .panic _ => .panic none
  | o => o

abbrev HState := Nat → Option (Tensor Int)

def HState.empty : HState := fun _ => none

def HState.set (st : HState) (s : Nat) (t : Tensor Int) : HState := fun k => if k = s then some t else st k

/-- `start, start+1, …` (`n` values) -/
def seqData (n : Nat) (start : Int) : List Int := (List.range n).map (fun (k : Nat) => start + Int.ofNat k)

def obsE {α} (f : α → Obs) : Except Panic α → Obs
  | .ok a => f a
  | .error e => .panic (some e)

/-- One step as the model executes it (`fromVec`, `clone`, `cloneFrom`, `eq`, `dim`, `getIndex`, `index`, `setAt`, `iter`,
    `writePieces`). -/
def stepModel (st : HState) : HOp → HState × Obs
  | .mk s dims start =>
    match fromVec dims (seqData (prod dims) start) with
    | .ok t => (st.set s t, .done)
    | .error e => (st, .panic (some e))
  | .cl s r =>
    match st r with
    | some t => (st.set s (clone t), .done)
    | none => (st, .invalid)
  | .cf s r =>
    match st s, st r with
    | some a, some b => (st.set s (cloneFrom a b), .done)
    | _, _ => (st, .invalid)
  | .eq s r =>
    match st s, st r with
    | some a, some b => (st, .bool (eq a b))
    | _, _ => (st, .invalid)
  | .dims s =>
    match st s with
    | some t => (st, .nats t.dims)
    | none => (st, .invalid)
  | .dim s i =>
    match st s with
    | some t => (st, obsE .nat (dim t i))
    | none => (st, .invalid)
  | .get s idx =>
    match st s with
    | some t => (st, obsE .nat (getIndex t.dims idx))
    | none => (st, .invalid)
  | .rd s idx =>
    match st s with
    | some t => (st, obsE .int (index t idx))
    | none => (st, .invalid)
  | .wr s idx v =>
    match st s with
    | some t =>
      match setAt t idx v with
      | .ok t' => (st.set s t', .ints (iter t'))
      | .error e => (st, .panic (some e))
    | none => (st, .invalid)
  | .it s =>
    match st s with
    | some t => (st, .ints (iter t))
    | none => (st, .invalid)
  | .w s =>
    match st s with
    | some t => (st, obsE .pieces (writePieces t))
    | none => (st, .invalid)

/-- One step as the property states it: a slot holds a shape and the elements in row-major order;
    `clone` / `clone_from` make the target hold **the source's shape and elements** (whatever it held);
    indexing goes through `InRange` / `flat`, output through `specPieces`. -/
def stepSpec (st : HState) : HOp → HState × Obs
  | .mk s dims start =>
    if 0 ∈ dims then (st, .panic none) else (st.set s ⟨dims, seqData (prod dims) start⟩, .done)
  | .cl s r =>
    match st r with
    | some t => (st.set s t, .done)
    | none => (st, .invalid)
  | .cf s r =>
    match st s, st r with
    | some _, some b => (st.set s b, .done)
    | _, _ => (st, .invalid)
  | .eq s r =>
    match st s, st r with
    | some a, some b => (st, .bool (decide (a.dims = b.dims ∧ a.data = b.data)))
    | _, _ => (st, .invalid)
  | .dims s =>
    match st s with
    | some t => (st, .nats t.dims)
    | none => (st, .invalid)
  | .dim s i =>
    match st s with
    | some t => (st, if h : i < t.dims.length then .nat t.dims[i] else .panic none)
    | none => (st, .invalid)
  | .get s idx =>
    match st s with
    | some t => (st, if InRange t.dims idx then .nat (flat t.dims idx) else .panic none)
    | none => (st, .invalid)
  | .rd s idx =>
    match st s with
    | some t =>
      (st, if InRange t.dims idx then
        (match t.data[flat t.dims idx]? with
         | some a => .int a
         | none => .panic none)
       else .panic none)
    | none => (st, .invalid)
  | .wr s idx v =>
    match st s with
    | some t =>
      if InRange t.dims idx then
        (st.set s ⟨t.dims, t.data.set (flat t.dims idx) v⟩, .ints (t.data.set (flat t.dims idx) v))
      else (st, .panic none)
    | none => (st, .invalid)
  | .it s =>
    match st s with
    | some t => (st, .ints t.data)
    | none => (st, .invalid)
  | .w s =>
    match st s with
    | some t => (st, .pieces (specPieces t.dims t.data))
    | none => (st, .invalid)

def runWith (step : HState → HOp → HState × Obs) : HState → List HOp → List Obs
  | _, [] => []
  | st, op :: ops =>
    let (st', o) := step st op
    o :: runWith step st' ops

/-- a whole history from empty slots: the model's observations / the specified ones -/
def runModel (ops : List HOp) : List Obs := runWith stepModel HState.empty ops
def runSpec (ops : List HOp) : List Obs := runWith stepSpec HState.empty ops

/-! ### Element-generic histories (wave 4, seeded C19_m13)

The same kind of history over `Tensor<T, D>` variables for an **arbitrary element type** `α` whose `==`
(`[BEq α]`) is *not* assumed to be lawful: `f64` (`NaN != NaN`, `+0.0 == -0.0`), zero-sized types (every
value equal), records compared by key, next to `i64` / `String`.  New steps: all four constructors,
`!=`, rebuilding from returned values, `{:?}`, and the std iterators of `iter` / `iter_mut` / `into_iter`
after partial consumption from both ends (`count`, `len`, `last`, `nth`, `nth_back`, `rev`, collecting). -/

/-- `PartialEq::ne` — the trait's provided method: `!(self == other)` -/
def ne {α} [BEq α] (t u : Tensor α) : Bool := !(eq t u)

/-- What `==` must answer for an arbitrary element `==`: same shape, same number of elements, and every
    pair of corresponding elements compares equal. -/
def specEq {α} [BEq α] (a b : Tensor α) : Bool :=
  decide (a.dims = b.dims) && (a.data.length == b.data.length) && (a.data.zip b.data).all (fun p => p.1 == p.2)

/-- a reader over a list of already parsed elements (`dflt` at end of input) -/
def popRd {α} (dflt : α) : List α → α × List α
  | [] => (dflt, [])
  | a :: as => (a, as)

/-! #### std iterators over the storage

`iter()` / `iter_mut()` / `into_iter()` yield the storage in order; the state of such an iterator is the
window of the storage not yet yielded.  Required methods: `next` (front), `next_back` (back); the provided
methods are modelled by their std definitions in terms of these two. -/

/-- `Iterator::next` -/
def itNext {α} : List α → Option α × List α
  | [] => (none, [])
  | a :: as => (some a, as)

/-- `DoubleEndedIterator::next_back` -/
def itNextBack {α} (l : List α) : Option α × List α :=
  match l.getLast? with
  | none => (none, [])
  | some a => (some a, l.dropLast)

/-- `k` calls of `next` -/
def itSkip {α} : Nat → List α → List α
  | 0, l => l
  | k + 1, l => itSkip k (itNext l).2

/-- `j` calls of `next_back` -/
def itSkipBack {α} : Nat → List α → List α
  | 0, l => l
  | j + 1, l => itSkipBack j (itNextBack l).2

/-- `Iterator::count`: call `next` until `None`, counting -/
def itCount {α} : List α → Nat
  | [] => 0
  | _ :: as => itCount as + 1

/-- `Iterator::last`: call `next` until `None`, keeping the last value -/
def itLast {α} : Option α → List α → Option α
  | acc, [] => acc
  | _, a :: as => itLast (some a) as

/-- collecting: call `next` until `None` -/
def itCollect {α} : List α → List α
  | [] => []
  | a :: as => a :: itCollect as

/-- `rev()` collected: call `next_back` until `None` (fuel = the `len()` of the iterator) -/
def itRevCollect {α} : Nat → List α → List α
  | 0, _ => []
  | f + 1, l =>
    match itNextBack l with
    | (none, _) => []
    | (some a, l') => a :: itRevCollect f l'

/-- what is asked of a partially consumed iterator -/
inductive IterQ where
  | count
  | len
  | last
  | nth (n : Nat)
  | nthBack (n : Nat)
  | rev
  | rest
  deriving Repr, DecidableEq

/-- One step of an element-generic history. -/
inductive GOp (α : Type) where
  /-- `slot s = from_vec(dims, data)` -/
  | vec (s : Nat) (dims : List Nat) (data : List α)
  /-- `slot s = from_slice(dims, &data)` -/
  | sl (s : Nat) (dims : List Nat) (data : List α)
  /-- `slot s = Tensor::new(dims, v)` -/
  | new (s : Nat) (dims : List Nat) (v : α)
  /-- `slot s = Tensor::read(dims, reader)` on a reader that holds `data` -/
  | rdv (s : Nat) (dims : List Nat) (data : List α) (dflt : α)
  /-- `slot s = Tensor::new(*slot r .dims(), v)` (a returned shape fed back) -/
  | like (s r : Nat) (v : α)
  /-- `slot s = from_vec(*slot r .dims(), slot r .clone().into_iter().collect())` (returned elements fed back) -/
  | coll (s r : Nat)
  | cl (s r : Nat)
  | cf (s r : Nat)
  | eq (s r : Nat)
  /-- `slot s != slot r` -/
  | ne (s r : Nat)
  | dims (s : Nat)
  | dim (s : Nat) (i : Nat)
  | get (s : Nat) (idx : List Nat)
  | rd (s : Nat) (idx : List Nat)
  | wr (s : Nat) (idx : List Nat) (v : α)
  | it (s : Nat)
  /-- `Writable::write` of slot s (text) -/
  | w (s : Nat)
  /-- `{:?}` of slot s (text) -/
  | dbg (s : Nat)
  /-- an iterator over slot s after `k` × `next` and `j` × `next_back`, asked `q` -/
  | itx (s : Nat) (k j : Nat) (q : IterQ)

inductive GObs (α : Type) where
  | done
  | bool (b : Bool)
  | nat (n : Nat)
  | nats (l : List Nat)
  | elem (a : α)
  | elems (l : List α)
  | opt (o : Option α)
  | text (cs : List Char)
  | panic (e : Option Panic)
  | invalid
  deriving DecidableEq

def GObs.view {α} : GObs α → GObs α
  | .panic _ => .panic none
  | o => o

def GObs.isInvalid {α} : GObs α → Bool
  | .invalid => true
  | _ => false

abbrev GState (α : Type) := Nat → Option (Tensor α)

def GState.empty {α} : GState α := fun _ => none

def GState.set {α} (st : GState α) (s : Nat) (t : Tensor α) : GState α := fun k => if k = s then some t else st k

def gobsE {α β} (f : β → GObs α) : Except Panic β → GObs α
  | .ok a => f a
  | .error e => .panic (some e)

/-- a constructor's result stored in slot `s` -/
def gStore {α} (st : GState α) (s : Nat) : Except Panic (Tensor α) → GState α × GObs α
  | .ok t => (st.set s t, .done)
  | .error e => (st, .panic (some e))

/-- the model's answer of a (partially consumed) iterator whose remaining window is `l` -/
def iterAnswer {α} (l : List α) : IterQ → GObs α
  | .count => .nat (itCount l)
  | .len => .nat l.length
  | .last => .opt (itLast none l)
  | .nth n => .opt (itNext (itSkip n l)).1
  | .nthBack n => .opt (itNextBack (itSkipBack n l)).1
  | .rev => .elems (itRevCollect l.length l)
  | .rest => .elems (itCollect l)

/-- One step as the model executes it; `rw` / `rd` are the element's `Writable` and `Debug` renderings. -/
def gStepModel {α} [BEq α] (rw rd : α → List Char) (st : GState α) : GOp α → GState α × GObs α
  | .vec s dims data => gStore st s (fromVec dims data)
  | .sl s dims data => gStore st s (fromSlice dims data)
  | .new s dims v => gStore st s (new dims v)
  | .rdv s dims data dflt =>
    if ¬ dims.contains 0 ∧ data.length < prod dims then (st, .invalid)
    else gStore st s (match read dims (popRd dflt) data with
      | .ok (t, _) => .ok t
      | .error e => .error e)
  | .like s r v =>
    match st r with
    | some t => gStore st s (new t.dims v)
    | none => (st, .invalid)
  | .coll s r =>
    match st r with
    | some t => gStore st s (fromVec t.dims (iter (clone t)))
    | none => (st, .invalid)
  | .cl s r =>
    match st r with
    | some t => (st.set s (clone t), .done)
    | none => (st, .invalid)
  | .cf s r =>
    match st s, st r with
    | some a, some b => (st.set s (cloneFrom a b), .done)
    | _, _ => (st, .invalid)
  | .eq s r =>
    match st s, st r with
    | some a, some b => (st, .bool (eq a b))
    | _, _ => (st, .invalid)
  | .ne s r =>
    match st s, st r with
    | some a, some b => (st, .bool (ne a b))
    | _, _ => (st, .invalid)
  | .dims s =>
    match st s with
    | some t => (st, .nats t.dims)
    | none => (st, .invalid)
  | .dim s i =>
    match st s with
    | some t => (st, gobsE .nat (dim t i))
    | none => (st, .invalid)
  | .get s idx =>
    match st s with
    | some t => (st, gobsE .nat (getIndex t.dims idx))
    | none => (st, .invalid)
  | .rd s idx =>
    match st s with
    | some t => (st, gobsE .elem (index t idx))
    | none => (st, .invalid)
  | .wr s idx v =>
    match st s with
    | some t =>
      match setAt t idx v with
      | .ok t' => (st.set s t', .elems (iter t'))
      | .error e => (st, .panic (some e))
    | none => (st, .invalid)
  | .it s =>
    match st s with
    | some t => (st, .elems (iter t))
    | none => (st, .invalid)
  | .w s =>
    match st s with
    | some t => (st, gobsE .text (writeText rw t))
    | none => (st, .invalid)
  | .dbg s =>
    match st s with
    | some t => (st, gobsE .text (debugText rd t))
    | none => (st, .invalid)
  | .itx s k j q =>
    match st s with
    | some t => (st, iterAnswer (itSkipBack j (itSkip k (iter t))) q)
    | none => (st, .invalid)

/-- the part of the storage an iterator still holds after `k` elements were taken from the front and `j`
    from the back: storage positions `k ≤ p < len − j` in row-major order -/
def specWindow {α} (data : List α) (k j : Nat) : List α := (data.drop k).take (data.length - k - j)

def specIterAnswer {α} (w : List α) : IterQ → GObs α
  | .count => .nat w.length
  | .len => .nat w.length
  | .last => .opt w.getLast?
  | .nth n => .opt w[n]?
  | .nthBack n => .opt w.reverse[n]?
  | .rev => .elems w.reverse
  | .rest => .elems w

/-- One step as the property states it (a slot holds a shape and the elements in row-major order). -/
def gStepSpec {α} [BEq α] (rw rd : α → List Char) (st : GState α) : GOp α → GState α × GObs α
  | .vec s dims data =>
    if 0 ∈ dims ∨ prod dims ≠ data.length then (st, .panic none) else (st.set s ⟨dims, data⟩, .done)
  | .sl s dims data =>
    if 0 ∈ dims ∨ prod dims ≠ data.length then (st, .panic none) else (st.set s ⟨dims, data⟩, .done)
  | .new s dims v =>
    if 0 ∈ dims then (st, .panic none) else (st.set s ⟨dims, List.replicate (prod dims) v⟩, .done)
  | .rdv s dims data _ =>
    if 0 ∈ dims then (st, .panic none)
    else if data.length < prod dims then (st, .invalid)
    else (st.set s ⟨dims, data.take (prod dims)⟩, .done)
  | .like s r v =>
    match st r with
    | some t => (st.set s ⟨t.dims, List.replicate (prod t.dims) v⟩, .done)
    | none => (st, .invalid)
  | .coll s r =>
    match st r with
    | some t => (st.set s t, .done)
    | none => (st, .invalid)
  | .cl s r =>
    match st r with
    | some t => (st.set s t, .done)
    | none => (st, .invalid)
  | .cf s r =>
    match st s, st r with
    | some _, some b => (st.set s b, .done)
    | _, _ => (st, .invalid)
  | .eq s r =>
    match st s, st r with
    | some a, some b => (st, .bool (specEq a b))
    | _, _ => (st, .invalid)
  | .ne s r =>
    match st s, st r with
    | some a, some b => (st, .bool (!specEq a b))
    | _, _ => (st, .invalid)
  | .dims s =>
    match st s with
    | some t => (st, .nats t.dims)
    | none => (st, .invalid)
  | .dim s i =>
    match st s with
    | some t => (st, if h : i < t.dims.length then .nat t.dims[i] else .panic none)
    | none => (st, .invalid)
  | .get s idx =>
    match st s with
    | some t => (st, if InRange t.dims idx then .nat (flat t.dims idx) else .panic none)
    | none => (st, .invalid)
  | .rd s idx =>
    match st s with
    | some t =>
      (st, if InRange t.dims idx then
        (match t.data[flat t.dims idx]? with
         | some a => .elem a
         | none => .panic none)
       else .panic none)
    | none => (st, .invalid)
  | .wr s idx v =>
    match st s with
    | some t =>
      if InRange t.dims idx then
        (st.set s ⟨t.dims, t.data.set (flat t.dims idx) v⟩, .elems (t.data.set (flat t.dims idx) v))
      else (st, .panic none)
    | none => (st, .invalid)
  | .it s =>
    match st s with
    | some t => (st, .elems t.data)
    | none => (st, .invalid)
  | .w s =>
    match st s with
    | some t => (st, .text (renderPieces rw (specPieces t.dims t.data)))
    | none => (st, .invalid)
  | .dbg s =>
    match st s with
    | some t =>
      (st, .text (List.replicate t.dims.length '[' ++ ((specPieces t.dims t.data).map (renderPieceDbg rd)).flatten ++
        List.replicate t.dims.length ']'))
    | none => (st, .invalid)
  | .itx s k j q =>
    match st s with
    | some t => (st, specIterAnswer (specWindow t.data k j) q)
    | none => (st, .invalid)

def gRunWith {α} (step : GState α → GOp α → GState α × GObs α) : GState α → List (GOp α) → List (GObs α)
  | _, [] => []
  | st, op :: ops =>
    let (st', o) := step st op
    o :: gRunWith step st' ops

def gRunModel {α} [BEq α] (rw rd : α → List Char) (ops : List (GOp α)) : List (GObs α) :=
  gRunWith (gStepModel rw rd) GState.empty ops
def gRunSpec {α} [BEq α] (rw rd : α → List Char) (ops : List (GOp α)) : List (GObs α) :=
  gRunWith (gStepSpec rw rd) GState.empty ops

end Rlib.Tensor
