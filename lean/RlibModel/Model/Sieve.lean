import RlibModel.Model.Common
/-
Model of `rlib/sieve/src/lib.rs` (linear sieve `Sieve::new`, accessors, `factorize`).

Values are `Nat` (the Rust code stores `i32`; the casts `i as i32`, `primes[j] as usize` are the
identity for `N < 2^31`, which is the residue named in DESIGN §6 C13).

* `Sieve::new(N)`  ↦ `sieve N`: the outer `for i in 2..n` is a fold over `List.range' 2 (n-2)`
  (`n = N+1`), the inner `for j in 0..primes.len()` with its `break` is `innerA` (index loop over
  the prime *array*, the form the driver executes).  `inner` is the same loop over a list; the
  two are proved equal in `Lemmas/Sieve.lean` (`innerA_eq`).
  Inside the constructor every index is in bounds by construction (`i < n`, `p*i < n` is tested
  before the write), so reads are `getD` and writes `setIfInBounds`; `sieve_sizes` proves that
  the arrays keep length `N+1`, and the *accessors*, where the caller chooses the index, are
  checked (`Except Panic`, out of range = `panic:index` exactly like the Rust slice index).
* `min_prime`, `is_prime`, `primes` ↦ `minPrime`, `isPrime`, `primesOf`.
* `factorize(n)` + `PrimeIter::next` ↦ `factorize`/`nextP` with fuel (`n < 2^fuel` is enough,
  `C13.factorize_spec`).
-/
namespace Rlib.Sieve

structure St where
  isp : Array Bool
  mnp : Array Nat
  primes : Array Nat

/-- inner loop over a prime *list* (reference form used by the proofs):
    `if primes[j] > mnp[i] || primes[j] * i >= n { break }; mnp[primes[j]*i] = primes[j]`. -/
def inner (n i : Nat) : List Nat → Array Nat → Array Nat
  | [], m => m
  | p :: ps, m =>
    if p > m.getD i 0 ∨ p * i ≥ n then m else inner n i ps (m.setIfInBounds (p * i) p)

/-- inner loop as the code has it: index `j` running over the prime array. -/
def innerA (n i : Nat) (ps : Array Nat) (j : Nat) (m : Array Nat) : Array Nat :=
  if h : j < ps.size then
    let p := ps[j]
    if p > m.getD i 0 ∨ p * i ≥ n then m else innerA n i ps (j + 1) (m.setIfInBounds (p * i) p)
  else m
termination_by ps.size - j

/-- body of `for i in 2..n`. -/
def stepI (n : Nat) (s : St) (i : Nat) : St :=
  match s with
  | ⟨isp, mnp, primes⟩ =>
    if mnp.getD i 0 = 0 then
      let primes := primes.push i
      ⟨isp.setIfInBounds i true, innerA n i primes 0 (mnp.setIfInBounds i i), primes⟩
    else
      ⟨isp, innerA n i primes 0 mnp, primes⟩

def init (n : Nat) : St :=
  { isp := Array.replicate n false, mnp := Array.replicate n 0, primes := #[] }

/-- `Sieve::new(N)` (`n = N + 1` table entries). -/
def sieve (N : Nat) : St := (List.range' 2 (N + 1 - 2)).foldl (stepI (N + 1)) (init (N + 1))

/-- `min_prime(n)` = `self.mnp[n]`. -/
def minPrime (s : St) (n : Nat) : Except Panic Nat :=
  if h : n < s.mnp.size then .ok s.mnp[n] else .error .index

/-- `is_prime(n)` = `self.isp[n]`. -/
def isPrime (s : St) (n : Nat) : Except Panic Bool :=
  if h : n < s.isp.size then .ok s.isp[n] else .error .index

/-- `primes()`. -/
def primesOf (s : St) : List Nat := s.primes.toList

/-- the `while self.sieve.min_prime(self.n) == p { cnt += 1; self.n /= p; }` loop of
    `PrimeIter::next`; returns the count and the remaining `n`. -/
def nextP (s : St) : Nat → Nat → Nat → Nat → Except Panic (Nat × Nat)
  | 0, _, _, _ => .error .fuel
  | f + 1, n, p, cnt =>
    match minPrime s n with
    | .error e => .error e
    | .ok q =>
      if q = p then
        if p = 0 then .error .divzero else nextP s f (n / p) p (cnt + 1)
      else .ok (cnt, n)

/-- `factorize(n).collect()`: repeated `PrimeIter::next` until it returns `None` (`n == 1`). -/
def factorize (s : St) : Nat → Nat → Except Panic (List (Nat × Nat))
  | 0, _ => .error .fuel
  | f + 1, n =>
    if n = 1 then .ok []
    else
      match minPrime s n with
      | .error e => .error e
      | .ok p =>
        match nextP s (f + 1) n p 0 with
        | .error e => .error e
        | .ok (cnt, n') =>
          match factorize s f n' with
          | .error e => .error e
          | .ok rest => .ok ((p, cnt) :: rest)

/-! ### Tables of a smaller limit read off a larger table

`Sieve::new(N)` for MANY limits `N` (the dense limit sweep of the driver) is answered from ONE table built for a limit
`M ≥ N`: the accessors at `n ≤ N` and the prime list cut at `N`.  `C13.primesUpTo_prefix`, `C13.minPrime_prefix`,
`C13.isPrime_prefix` prove that this is exactly what `sieve N` itself shows. -/

/-- the primes `≤ N` of an increasing prime list (that of a table built for a limit `M ≥ N`). -/
def primesUpToL (ps : List Nat) (N : Nat) : List Nat := ps.takeWhile (fun p => decide (p ≤ N))

def primesUpTo (s : St) (N : Nat) : List Nat := primesUpToL (primesOf s) N

/-- a fold over the primes `≤ N` of an increasing prime list that stops at the first prime above `N` (no intermediate list:
    what the driver runs for each of its ten thousand `new N` lines); `C13.foldUpTo_prefix`: it is the fold over
    `Sieve::new(N).primes()`. -/
@[specialize] def foldUpTo {β : Type} (f : β → Nat → β) (N : Nat) : List Nat → β → β
  | [], b => b
  | p :: ps, b => if p ≤ N then foldUpTo f N ps (f b p) else b

/-! ### Every way of consuming the iterator `factorize(n)`

`PrimeIter` implements `Iterator` by `next` alone; every other method of the trait is *provided* by std in terms of
`next`.  For an iterator whose `next` yields the items `L` one after the other and then `None` for ever, `modesOf L k`
is what std's definitions give after `k` initial calls of `next`: the result of those calls, then each provided method
applied to what is left (`L.drop k`).  An override of a provided method in the crate has to agree with this. -/

abbrev Item := Nat × Nat

/-- tuple order of `(i32, i32)` -/
def lexLe (a b : Item) : Bool := a.1 < b.1 || (a.1 == b.1 && a.2 ≤ b.2)

/-- `Iterator::max_by`: the LAST of the greatest elements (`reduce(|x, y| if x > y { x } else { y })`). -/
def maxBy (le : Item → Item → Bool) : List Item → Option Item
  | [] => none
  | x :: xs => some (xs.foldl (fun a y => if le a y then y else a) x)

/-- `Iterator::min_by`: the FIRST of the least elements (`reduce(|x, y| if x > y { y } else { x })`). -/
def minBy (le : Item → Item → Bool) : List Item → Option Item
  | [] => none
  | x :: xs => some (xs.foldl (fun a y => if le a y then a else y) x)

/-- an order-sensitive fold (the closure the harness passes to `fold` / `for_each`), in `u64` wrapping arithmetic -/
def foldStep (h : Nat) (pe : Item) : Nat := ((h * 31 + pe.1) * 31 + pe.2) % 2 ^ 64

/-- `step_by(2)`: the items at positions 0, 2, 4, … -/
def everyOther : List Item → List Item
  | [] => []
  | [x] => [x]
  | x :: _ :: r => x :: everyOther r

structure Modes where
  /-- results of the `k` initial `next()` calls -/
  pre : List (Option Item)
  /-- `collect::<Vec<_>>()` -/
  collect : List Item
  /-- `count()` -/
  count : Nat
  /-- `last()` -/
  last : Option Item
  /-- `fold(7, foldStep)`; `for_each` with the same accumulation gives the same number -/
  fold : Nat
  /-- `map(|(_, e)| e).sum()` -/
  sumExp : Nat
  /-- `map(|(_, e)| e + 1).product()` (the divisor-count idiom) -/
  prodExp1 : Nat
  max : Option Item
  min : Option Item
  /-- `max_by_key(|x| x.1)` / `min_by_key(|x| x.1)` (ties: last / first) -/
  maxByExp : Option Item
  minByExp : Option Item
  /-- `reduce(|a, b| (b.0, a.1 + b.1))` -/
  reduce : Option Item
  /-- `find(|x| x.1 >= 2)` -/
  find : Option Item
  /-- `position(|x| x.1 == 1)` -/
  position : Option Nat
  /-- `any(|x| x.0 > 1000)`, `all(|x| x.1 == 1)` -/
  any : Bool
  all : Bool
  /-- `partition(|x| x.1 % 2 == 1)` -/
  partition : List Item × List Item
  /-- `unzip()` -/
  unzip : List Nat × List Nat
  /-- `nth(0)` / `nth(1)`, then `collect()` of what is left -/
  nth0 : Option Item × List Item
  nth1 : Option Item × List Item
  /-- `skip(1).collect()`, `step_by(2).collect()` -/
  skip1 : List Item
  stepBy2 : List Item
  /-- `by_ref().take(1).collect()`, then `count()` of what is left -/
  take1 : List Item × Nat

def modesOf (L : List Item) (k : Nat) : Modes :=
  let r := L.drop k
  { pre := (List.range k).map (fun i => L[i]?)
    collect := r
    count := r.length
    last := r.getLast?
    fold := r.foldl foldStep 7
    sumExp := (r.map Prod.snd).sum
    prodExp1 := (r.map (fun pe => pe.2 + 1)).prod
    max := maxBy lexLe r
    min := minBy lexLe r
    maxByExp := maxBy (fun a b => decide (a.2 ≤ b.2)) r
    minByExp := minBy (fun a b => decide (a.2 ≤ b.2)) r
    reduce := match r with
      | [] => none
      | x :: xs => some (xs.foldl (fun a b => (b.1, a.2 + b.2)) x)
    find := r.find? (fun pe => decide (2 ≤ pe.2))
    position := r.findIdx? (fun pe => pe.2 == 1)
    any := r.any (fun pe => decide (1000 < pe.1))
    all := r.all (fun pe => pe.2 == 1)
    partition := (r.filter (fun pe => pe.2 % 2 == 1), r.filter (fun pe => !(pe.2 % 2 == 1)))
    unzip := (r.map Prod.fst, r.map Prod.snd)
    nth0 := (r[0]?, r.drop 1)
    nth1 := (r[1]?, r.drop 2)
    skip1 := r.drop 1
    stepBy2 := everyOther r
    take1 := (r.take 1, (r.drop 1).length) }

/-! ### Executable specification: the arithmetic definitions by trial division -/

/-- least `d ≥ k` dividing `n`, searching while `d*d ≤ n`; `n` itself if there is none. -/
def specMinFacFrom (n : Nat) : Nat → Nat → Nat
  | 0, _ => n
  | f + 1, d => if d * d > n then n else if n % d = 0 then d else specMinFacFrom n f (d + 1)

/-- the least divisor `≥ 2` of `n` (for `n ≥ 2`), by trial division. -/
def specMinFac (n : Nat) : Nat := specMinFacFrom n n 2

def specIsPrime (n : Nat) : Bool := 2 ≤ n && specMinFac n = n

def specPrimes (N : Nat) : List Nat := (List.range (N + 1)).filter specIsPrime

/-- exponent of `p` in `n` by repeated division, with the cofactor. -/
def specStrip : Nat → Nat → Nat → Nat → Nat × Nat
  | 0, n, _, e => (e, n)
  | f + 1, n, p, e => if p ≥ 2 ∧ n ≥ 1 ∧ n % p = 0 then specStrip f (n / p) p (e + 1) else (e, n)

/-- prime factorisation by trial division: increasing primes with exponents. -/
def specFactorize : Nat → Nat → List (Nat × Nat)
  | 0, _ => []
  | f + 1, n =>
    if n ≤ 1 then []
    else
      let p := specMinFac n
      let (e, n') := specStrip (f + 1) n p 0
      (p, e) :: specFactorize f n'

end Rlib.Sieve
