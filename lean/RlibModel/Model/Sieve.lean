import RlibModel.Model.Common
/-
Model of `rlib/sieve/src/lib.rs` (linear sieve `Sieve::new`, accessors, `factorize`).

Values are `Nat` (the Rust code stores `i32`; the casts `i as i32`, `primes[j] as usize` are the
identity for `N < 2^31`, which is the residue named in DESIGN §6 C13).

* `Sieve::new(N)`  ↦ `sieve N`: the outer `for i in 2..n` is a fold over `List.range' 2 (n-2)`
  (`n = N+1`), the inner `for j in 0..primes.len()` with its `break` is `innerA` (index loop over
  the prime *array*, the form the driver executes).  `inner` is the same loop over a list; the
  two are proved equal in `Lemmas/Sieve.lean` (`innerA_eq`).
  Inside the constructor every index is in bounds by construction (`i < n`, `p*i < n` is tested
  before the write), so reads are `getD` and writes `setIfInBounds`; `sieve_sizes` proves that
  the arrays keep length `N+1`, and the *accessors*, where the caller chooses the index, are
  checked (`Except Panic`, out of range = `panic:index` exactly like the Rust slice index).
* `min_prime`, `is_prime`, `primes` ↦ `minPrime`, `isPrime`, `primesOf`.
* `factorize(n)` + `PrimeIter::next` ↦ `factorize`/`nextP` with fuel (`n < 2^fuel` is enough,
  `C13.factorize_spec`).
-/
namespace Rlib.Sieve

structure St where
  isp : Array Bool
  mnp : Array Nat
  primes : Array Nat

/-- inner loop over a prime *list* (reference form used by the proofs):
    `if primes[j] > mnp[i] || primes[j] * i >= n { break }; mnp[primes[j]*i] = primes[j]`. -/
def inner (n i : Nat) : List Nat → Array Nat → Array Nat
  | [], m => m
  | p :: ps, m =>
    if p > m.getD i 0 ∨ p * i ≥ n then m else inner n i ps (m.setIfInBounds (p * i) p)

/-- inner loop as the code has it: index `j` running over the prime array. -/
def innerA (n i : Nat) (ps : Array Nat) (j : Nat) (m : Array Nat) : Array Nat :=
  if h : j < ps.size then
    let p := ps[j]
    if p > m.getD i 0 ∨ p * i ≥ n then m else innerA n i ps (j + 1) (m.setIfInBounds (p * i) p)
  else m
termination_by ps.size - j

/-- body of `for i in 2..n`. -/
def stepI (n : Nat) (s : St) (i : Nat) : St :=
  match s with
  | ⟨isp, mnp, primes⟩ =>
    if mnp.getD i 0 = 0 then
      let primes := primes.push i
      ⟨isp.setIfInBounds i true, innerA n i primes 0 (mnp.setIfInBounds i i), primes⟩
    else
      ⟨isp, innerA n i primes 0 mnp, primes⟩

def init (n : Nat) : St :=
  { isp := Array.replicate n false, mnp := Array.replicate n 0, primes := #[] }

/-- `Sieve::new(N)` (`n = N + 1` table entries). -/
def sieve (N : Nat) : St := (List.range' 2 (N + 1 - 2)).foldl (stepI (N + 1)) (init (N + 1))

/-- `min_prime(n)` = `self.mnp[n]`. -/
def minPrime (s : St) (n : Nat) : Except Panic Nat :=
  if h : n < s.mnp.size then .ok s.mnp[n] else .error .index

/-- `is_prime(n)` = `self.isp[n]`. -/
def isPrime (s : St) (n : Nat) : Except Panic Bool :=
  if h : n < s.isp.size then .ok s.isp[n] else .error .index

/-- `primes()`. -/
def primesOf (s : St) : List Nat := s.primes.toList

/-- the `while self.sieve.min_prime(self.n) == p { cnt += 1; self.n /= p; }` loop of
    `PrimeIter::next`; returns the count and the remaining `n`. -/
def nextP (s : St) : Nat → Nat → Nat → Nat → Except Panic (Nat × Nat)
  | 0, _, _, _ => .error .fuel
  | f + 1, n, p, cnt =>
    match minPrime s n with
    | .error e => .error e
    | .ok q =>
      if q = p then
        if p = 0 then .error .divzero else nextP s f (n / p) p (cnt + 1)
      else .ok (cnt, n)

/-- `factorize(n).collect()`: repeated `PrimeIter::next` until it returns `None` (`n == 1`). -/
def factorize (s : St) : Nat → Nat → Except Panic (List (Nat × Nat))
  | 0, _ => .error .fuel
  | f + 1, n =>
    if n = 1 then .ok []
    else
      match minPrime s n with
      | .error e => .error e
      | .ok p =>
        match nextP s (f + 1) n p 0 with
        | .error e => .error e
        | .ok (cnt, n') =>
          match factorize s f n' with
          | .error e => .error e
          | .ok rest => .ok ((p, cnt) :: rest)

/-! ### Executable specification: the arithmetic definitions by trial division -/

/-- least `d ≥ k` dividing `n`, searching while `d*d ≤ n`; `n` itself if there is none. -/
def specMinFacFrom (n : Nat) : Nat → Nat → Nat
  | 0, _ => n
  | f + 1, d => if d * d > n then n else if n % d = 0 then d else specMinFacFrom n f (d + 1)

/-- the least divisor `≥ 2` of `n` (for `n ≥ 2`), by trial division. -/
def specMinFac (n : Nat) : Nat := specMinFacFrom n n 2

def specIsPrime (n : Nat) : Bool := 2 ≤ n && specMinFac n = n

def specPrimes (N : Nat) : List Nat := (List.range (N + 1)).filter specIsPrime

/-- exponent of `p` in `n` by repeated division, with the cofactor. -/
def specStrip : Nat → Nat → Nat → Nat → Nat × Nat
  | 0, n, _, e => (e, n)
  | f + 1, n, p, e => if p ≥ 2 ∧ n ≥ 1 ∧ n % p = 0 then specStrip f (n / p) p (e + 1) else (e, n)

/-- prime factorisation by trial division: increasing primes with exponents. -/
def specFactorize : Nat → Nat → List (Nat × Nat)
  | 0, _ => []
  | f + 1, n =>
    if n ≤ 1 then []
    else
      let p := specMinFac n
      let (e, n') := specStrip (f + 1) n p 0
      (p, e) :: specFactorize f n'

end Rlib.Sieve
