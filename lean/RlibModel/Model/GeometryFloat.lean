import RlibModel.Model.Geometry
/-
The `Float` instance of the geometry arithmetic (what the native driver executes) and the
bit-pattern I/O used to compare the model's results with the Rust results exactly.

Lean `Float` is IEEE binary64; `+ - * / sqrt abs` and the comparisons are the same correctly
rounded operations Rust's `f64` uses, so `Model.intersectCL floatGeo …` performs the same operation
sequence as `rlib_geometry::util::intersect_cl`.
-/
namespace Rlib.Geometry

/-- `f64::max`: if one argument is NaN the other is returned. -/
def fmax (a b : Float) : Float :=
  if a.isNaN then b else if b.isNaN then a else if a < b then b else a

/-- `f64` arithmetic; `eps` is `util::EPS` as extracted from the source. -/
def floatGeo (eps : Float) : Geo Float where
  add := fun a b => a + b
  sub := fun a b => a - b
  mul := fun a b => a * b
  div := fun a b => a / b
  neg := fun a => -a
  sqrt := Float.sqrt
  abs := Float.abs
  max := fmax
  lt := fun a b => a < b
  ne := fun a b => a != b
  ofInt := Float.ofInt
  eps := eps

/-- number token of a case line: a decimal integer, or `h` + 16 hex digits (IEEE bit pattern) -/
def parseNum? (s : String) : Option Float :=
  if s.startsWith "h" then
    match parseHex? ((s.drop 1).toString) with
    | some n => if n < 2 ^ 64 then some (Float.ofBits (UInt64.ofNat n)) else none
    | none => none
  else
    (parseInt? s).map Float.ofInt

/-- result coordinate: 16 hex digits of the bit pattern, `nan` for every NaN -/
def showNum (f : Float) : String :=
  if f.isNaN then "nan" else toHex f.toBits.toNat 16

def showPoint (p : Point Float) : String := showNum p.x ++ " " ++ showNum p.y

def showCL (r : CL Float) : String :=
  " ".intercalate (r.kind :: r.points.map showPoint)

def showCC (r : CC Float) : String :=
  " ".intercalate (r.kind :: r.points.map showPoint)

end Rlib.Geometry
