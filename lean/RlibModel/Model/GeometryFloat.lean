import RlibModel.Model.Geometry
/-
The `Float` instance of the geometry arithmetic (what the native driver executes) and the
bit-pattern I/O used to compare the model's results with the Rust results exactly.

Lean `Float` is IEEE binary64; `+ - * / sqrt abs` and the comparisons are the same correctly
rounded operations Rust's `f64` uses, so `Model.intersectCL floatGeo …` performs the same operation
sequence as `rlib_geometry::util::intersect_cl`.
-/
namespace Rlib.Geometry

/-- `f64::max`: if one argument is NaN the other is returned. -/
def fmax (a b : Float) : Float :=
  if a.isNaN then b else if b.isNaN then a else if a < b then b else a

/-- `f64` arithmetic; `eps` is `util::EPS` as extracted from the source. -/
def floatGeo (eps : Float) : Geo Float where
  add := fun a b => a + b
  sub := fun a b => a - b
  mul := fun a b => a * b
  div := fun a b => a / b
  neg := fun a => -a
  sqrt := Float.sqrt
  abs := Float.abs
  max := fmax
  lt := fun a b => a < b
  ne := fun a b => a != b
  ofInt := Float.ofInt
  eps := eps

/-- number token of a case line: a decimal integer, or `h` + 16 hex digits (IEEE bit pattern) -/
def parseNum? (s : String) : Option Float :=
  if s.startsWith "h" then
    match parseHex? ((s.drop 1).toString) with
    | some n => if n < 2 ^ 64 then some (Float.ofBits (UInt64.ofNat n)) else none
    | none => none
  else
    (parseInt? s).map Float.ofInt

/-- coordinate as 16 hex digits of the bit pattern (`nan` for every NaN) — only used with the case prefix `bits`,
    i.e. for the logged diagnostics (bit-equality sample, largest |impl − model| coordinate difference). -/
def showNum (f : Float) : String :=
  if f.isNaN then "nan" else toHex f.toBits.toNat 16

def showPoint (p : Point Float) : String := showNum p.x ++ " " ++ showNum p.y

/-- raw result.  Verdict path (`full = false`): kind + number of points — coordinates are NOT compared between model and
    crate (a numerically harmless rewrite moves them by rounding noise); each side's own points are judged exactly by the
    point predicate of the view.  Diagnostic path (`full = true`): kind + bit patterns. -/
def showPts (full : Bool) (kind : String) (ps : List (Point Float)) : String :=
  if full then " ".intercalate (kind :: ps.map showPoint) else kind ++ " " ++ toString ps.length

def showCL (full : Bool) (r : CL Float) : String := showPts full r.kind r.points
def showCC (full : Bool) (r : CC Float) : String := showPts full r.kind r.points

end Rlib.Geometry
