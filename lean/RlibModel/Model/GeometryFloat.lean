import RlibModel.Model.Geometry
/-
The `Float` instance of the geometry arithmetic (what the native driver executes) and the
bit-pattern I/O used to compare the model's results with the Rust results exactly.

Lean `Float` is IEEE binary64; `+ - * / sqrt abs` and the comparisons are the same correctly
rounded operations Rust's `f64` uses, so `Model.intersectCL floatGeo …` performs the same operation
sequence as `rlib_geometry::util::intersect_cl`.
-/
namespace Rlib.Geometry

/-- `f64::max`: if one argument is NaN the other is returned. -/
def fmax (a b : Float) : Float :=
  if a.isNaN then b else if b.isNaN then a else if a < b then b else a

/-- `f64` arithmetic; `eps` is `util::EPS` as extracted from the source. -/
def floatGeo (eps : Float) : Geo Float where
  add := fun a b => a + b
  sub := fun a b => a - b
  mul := fun a b => a * b
  div := fun a b => a / b
  neg := fun a => -a
  sqrt := Float.sqrt
  abs := Float.abs
  max := fmax
  lt := fun a b => a < b
  ne := fun a b => a != b
  ofInt := Float.ofInt
  eps := eps

/-- number token of a case line: a decimal integer, or `h` + 16 hex digits (IEEE bit pattern) -/
def parseNum? (s : String) : Option Float :=
  if s.startsWith "h" then
    match parseHex? ((s.drop 1).toString) with
    | some n => if n < 2 ^ 64 then some (Float.ofBits (UInt64.ofNat n)) else none
    | none => none
  else
    (parseInt? s).map Float.ofInt

/-- result coordinate.  `full = false` (the verdict path): rounded to the grid `2^-30` (≈ 1e-9), so that numerically
    harmless rewrites of the crate do not show up as correspondence drift; `full = true` (case prefix `bits`, used only
    for the logged bit-equality sample): 16 hex digits of the bit pattern.  `nan` for every NaN. -/
def showNum (full : Bool) (f : Float) : String :=
  if f.isNaN then "nan"
  else if full then toHex f.toBits.toNat 16
  else
    let g := Float.round (f * Float.ofNat 1073741824)
    if g.abs < Float.ofNat 4000000000000000000 then toString g.toInt64
    else if Float.ofNat 0 < g then "big+" else "big-"

def showPoint (full : Bool) (p : Point Float) : String := showNum full p.x ++ " " ++ showNum full p.y

def showCL (full : Bool) (r : CL Float) : String :=
  " ".intercalate (r.kind :: r.points.map (showPoint full))

def showCC (full : Bool) (r : CC Float) : String :=
  " ".intercalate (r.kind :: r.points.map (showPoint full))

end Rlib.Geometry
