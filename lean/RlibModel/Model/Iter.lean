import RlibModel.Model.Common
/-
Model of `rlib/iter/src/{masks.rs, permutations.rs, neighbours.rs}`  (property C15).

* **masks.rs** — a mask of a `w`-bit integer type is its bit pattern, a `Nat < 2^w`; signed and unsigned
  types of one width share the patterns (`IterMasks` never looks at the sign), the driver only *prints*
  them in the type's own notation.  `wrapping_sub(1)` / `wrapping_add(1)` are `wrappingSub1` /
  `wrappingAdd1` (reduction mod `2^w`), `count_zeros()` is `countZeros` (bit-by-bit population count).  `std::iter::from_fn(next_…)` is the recursion `submasksFrom` /
  `supermasksFrom` (well-founded: Lean checks that the iterators terminate), `.chain([zero()])` /
  `.chain([ones()])` is the final `++ […]`.
* **permutations.rs** — `&mut [T]` is a `List Int` returned as the new content.  `nextPermutationIdx`
  follows the Rust loop index by index (every `data[k]` is `d[k]?` with `none ↦ panic:index`);
  `nextPermutation` is the structural formulation ("advance the deepest suffix that has an ascent")
  the proofs work on.  `Lemmas/IterPerm.lean` proves that the two agree, in particular that the index
  version never panics.  `PermutationIter` takes fuel; `iterPermutations_spec` proves that
  `(len)! + 1` steps are always enough.
* **neighbours.rs** — the three offset arrays, the `as isize` casts (`asIsize`, 64-bit), the filter
  and the map back with `as usize`.

The second half of the file is the executable *specification*.
-/
namespace Rlib.Iter

/-! ## masks.rs -/

/-- `2 ^ w`, with the widths of the Rust integer types as literals (so that the compiled driver does not
    call the big-number power routine at every iterator step). -/
def pow2 : Nat → Nat
  | 8 => 256
  | 16 => 65536
  | 32 => 4294967296
  | 64 => 18446744073709551616
  | 128 => 340282366920938463463374607431768211456
  | w => 2 ^ w

theorem pow2_eq (w : Nat) : pow2 w = 2 ^ w := by
  unfold pow2; split <;> rfl

/-- `T::ones()`: all `w` bits set. -/
def ones (w : Nat) : Nat := pow2 w - 1

/-- `self.wrapping_sub(1)` on a `w`-bit pattern. -/
def wrappingSub1 (w s : Nat) : Nat := if s = 0 then ones w else (s - 1) % pow2 w

/-- `self.wrapping_add(1)` on a `w`-bit pattern. -/
def wrappingAdd1 (w s : Nat) : Nat := (s + 1) % pow2 w

/-- `next_submask(&mut self, x)`: `None` when `*self == 0`, else yield `cur` and step to
    `self.wrapping_sub(1) & x`.  Result: (yielded value, new state). -/
def nextSubmask (w s x : Nat) : Option (Nat × Nat) :=
  if s = 0 then none else some (s, wrappingSub1 w s &&& x)

/-- Number of set bits among the low `w` bits (`count_ones` of a `w`-bit pattern), bit by bit. -/
def popcount : Nat → Nat → Nat
  | 0, _ => 0
  | w + 1, s => s % 2 + popcount w (s / 2)

/-- `self.count_zeros()` of a `w`-bit pattern. -/
def countZeros (w s : Nat) : Nat := w - popcount w s

/-- `next_supermask(&mut self, x)`: `None` when `self.count_zeros() == 0`, else yield `cur` and step to
    `self.wrapping_add(1) | x`. -/
def nextSupermask (w s x : Nat) : Option (Nat × Nat) :=
  if countZeros w s = 0 then none else some (s, wrappingAdd1 w s ||| x)

theorem popcount_le : ∀ w s, popcount w s ≤ w
  | 0, _ => Nat.le_refl _
  | w + 1, s => by
    have := popcount_le w (s / 2)
    simp only [popcount]
    omega

theorem mod_two_pow_succ (w s : Nat) : s % 2 ^ (w + 1) = s % 2 + 2 * (s / 2 % 2 ^ w) := by
  rw [Nat.pow_succ, Nat.mul_comm, Nat.mod_mul]

/-- All `w` low bits of `s` are set iff they form the all-ones pattern. -/
theorem popcount_eq_iff : ∀ w s, popcount w s = w ↔ s % 2 ^ w = 2 ^ w - 1
  | 0, s => by simp [popcount, Nat.mod_one]
  | w + 1, s => by
    have ih := popcount_eq_iff w (s / 2)
    have hle := popcount_le w (s / 2)
    have hpos : 0 < 2 ^ w := Nat.two_pow_pos w
    have hlt : s / 2 % 2 ^ w < 2 ^ w := Nat.mod_lt _ hpos
    have hp : 2 ^ (w + 1) = 2 * 2 ^ w := by rw [Nat.pow_succ, Nat.mul_comm]
    rw [mod_two_pow_succ, hp]
    simp only [popcount]
    constructor
    · intro h
      have h1 : popcount w (s / 2) = w := by omega
      have := ih.mp h1
      omega
    · intro h
      have h1 : s / 2 % 2 ^ w = 2 ^ w - 1 := by omega
      have := ih.mpr h1
      omega

/-- `count_zeros() == 0` says: the pattern is all-ones. -/
theorem countZeros_eq_zero_iff (w s : Nat) : countZeros w s = 0 ↔ s % 2 ^ w = ones w := by
  unfold countZeros ones
  rw [pow2_eq]
  rw [← popcount_eq_iff]
  have := popcount_le w s
  omega

theorem nextSubmask_lt {w s x cur s' : Nat} (h : nextSubmask w s x = some (cur, s')) : s' < s := by
  unfold nextSubmask at h
  split at h
  · cases h
  · rename_i hs
    simp only [Option.some.injEq, Prod.mk.injEq] at h
    rw [← h.2]
    have h1 : wrappingSub1 w s &&& x ≤ wrappingSub1 w s := Nat.and_le_left
    have h2 : wrappingSub1 w s ≤ s - 1 := by
      unfold wrappingSub1; rw [if_neg hs]; exact Nat.mod_le _ _
    omega

theorem nextSupermask_gt {w s x cur s' : Nat} (h : nextSupermask w s x = some (cur, s')) :
    s % 2 ^ w < s' % 2 ^ w ∧ s' % 2 ^ w < 2 ^ w := by
  unfold nextSupermask at h
  split at h
  · cases h
  · rename_i hs
    simp only [Option.some.injEq, Prod.mk.injEq] at h
    rw [← h.2]
    rw [countZeros_eq_zero_iff] at hs
    have hpos : 0 < 2 ^ w := Nat.two_pow_pos w
    have hlt : s % 2 ^ w < 2 ^ w := Nat.mod_lt _ hpos
    refine ⟨?_, Nat.mod_lt _ hpos⟩
    have h1 : wrappingAdd1 w s % 2 ^ w ≤ (wrappingAdd1 w s ||| x) % 2 ^ w := by
      rw [Nat.or_mod_two_pow]; exact Nat.left_le_or
    have h2 : wrappingAdd1 w s % 2 ^ w = s % 2 ^ w + 1 := by
      unfold wrappingAdd1 ones at *
      simp only [pow2_eq] at *
      rw [Nat.mod_mod, Nat.add_mod]
      have h1' : 1 % 2 ^ w = 1 := Nat.mod_eq_of_lt (by omega)
      rw [h1']
      exact Nat.mod_eq_of_lt (by omega)
    omega

set_option linter.unusedVariables false in
/-- `std::iter::from_fn(move || submask.next_submask(x))` collected, starting in state `s`. -/
def submasksFrom (w s x : Nat) : List Nat :=
  match h : nextSubmask w s x with
  | none => []
  | some (cur, s') => cur :: submasksFrom w s' x
termination_by s
decreasing_by exact nextSubmask_lt h

set_option linter.unusedVariables false in
/-- `std::iter::from_fn(move || supermask.next_supermask(x))` collected, starting in state `s`. -/
def supermasksFrom (w s x : Nat) : List Nat :=
  match h : nextSupermask w s x with
  | none => []
  | some (cur, s') => cur :: supermasksFrom w s' x
termination_by 2 ^ w - s % 2 ^ w
decreasing_by have := nextSupermask_gt h; omega

/-- `iter_submasks(x)` collected. -/
def iterSubmasks (w x : Nat) : List Nat := submasksFrom w x x ++ [0]

/-- `iter_supermasks(x)` collected. -/
def iterSupermasks (w x : Nat) : List Nat := supermasksFrom w x x ++ [ones w]

/-! ## permutations.rs -/

/-- Structural core of `next_permutation`: `rest` is non-increasing and starts with an element `> x`;
    put `x` in place of the rightmost element `> x`, reverse, and put that element in front. -/
def swapRev (x : Int) (rest : List Int) : List Int :=
  let bigger := rest.takeWhile (· > x)
  let others := rest.dropWhile (· > x)
  match bigger.getLast? with
  | none => x :: rest            -- unreachable when x < head rest
  | some y => y :: (others.reverse ++ x :: bigger.dropLast.reverse)

/-- Structural next permutation, `none` when the list is non-increasing. -/
def np : List Int → Option (List Int)
  | [] => none
  | x :: rest =>
    match np rest with
    | some r => some (x :: r)
    | none =>
      match rest with
      | [] => none
      | h :: _ => if x < h then some (swapRev x rest) else none

/-- `next_permutation` (structural formulation): the new content and the returned flag. -/
def nextPermutation (xs : List Int) : List Int × Bool :=
  match np xs with
  | some ys => (ys, true)
  | none => (xs.reverse, false)

/-- `for i in (1..data.len()).rev() { if data[i - 1] < data[i] { … return true } }`: the scan for the
    rightmost ascent, tried at `i = k, k-1, …, 1`; `some i` = the loop body is entered with this `i`. -/
def findAscent (d : List Int) : Nat → Except Panic (Option Nat)
  | 0 => .ok none
  | k + 1 =>
    match d[k]?, d[k + 1]? with
    | some a, some b => if a < b then .ok (some (k + 1)) else findAscent d k
    | _, _ => .error .index

/-- `while j + 1 < data.len() && data[j + 1] > data[i - 1] { j += 1 }`. -/
def findJ (d : List Int) (i j : Nat) : Except Panic Nat :=
  if j + 1 < d.length then
    match d[j + 1]?, d[i - 1]? with
    | some a, some p => if a > p then findJ d i (j + 1) else .ok j
    | _, _ => .error .index
  else .ok j
termination_by d.length - j

/-- `data.swap(a, b)` (panics when an index is out of bounds). -/
def swapAt (d : List Int) (a b : Nat) : Except Panic (List Int) :=
  match d[a]?, d[b]? with
  | some va, some vb => .ok ((d.set a vb).set b va)
  | _, _ => .error .index

/-- `data[i..].reverse()` (panics when `i > len`). -/
def reverseFrom (d : List Int) (i : Nat) : Except Panic (List Int) :=
  if i ≤ d.length then .ok (d.take i ++ (d.drop i).reverse) else .error .index

/-- `pub fn next_permutation(data: &mut [T]) -> bool`, index by index as in the Rust code. -/
def nextPermutationIdx (d : List Int) : Except Panic (List Int × Bool) :=
  match findAscent d (d.length - 1) with
  | .error e => .error e
  | .ok none => .ok (d.reverse, false)
  | .ok (some i) =>
    match findJ d i i with
    | .error e => .error e
    | .ok j =>
      match swapAt d (i - 1) j with
      | .error e => .error e
      | .ok d1 =>
        match reverseFrom d1 i with
        | .error e => .error e
        | .ok d2 => .ok (d2, true)

/-- `data.sort()`. -/
def sortInts (d : List Int) : List Int := d.mergeSort (fun a b => decide (a ≤ b))

/-- `PermutationIter::next` called until it returns `None`, after the first element has been
    yielded: every `true` step yields the new content. -/
def permIterRest : Nat → List Int → Except Panic (List (List Int))
  | 0, _ => .error .fuel
  | fuel + 1, d =>
    match nextPermutationIdx d with
    | .error e => .error e
    | .ok (_, false) => .ok []
    | .ok (d', true) =>
      match permIterRest fuel d' with
      | .error e => .error e
      | .ok r => .ok (d' :: r)

def factorial : Nat → Nat
  | 0 => 1
  | n + 1 => (n + 1) * factorial n

/-- `iter_permutations(data).collect()`: sort, yield the sorted content, then step. -/
def iterPermutations (d : List Int) : Except Panic (List (List Int)) :=
  let s := sortInts d
  match permIterRest (factorial d.length + 1) s with
  | .error e => .error e
  | .ok r => .ok (s :: r)

/-! ## neighbours.rs -/

def offsets4 : List (Int × Int) := [(0, 1), (-1, 0), (0, -1), (1, 0)]
def offsets4d : List (Int × Int) := [(-1, 1), (-1, -1), (1, -1), (1, 1)]
def offsets8 : List (Int × Int) := [(0, 1), (-1, 1), (-1, 0), (-1, -1), (0, -1), (1, -1), (1, 0), (1, 1)]

/-- `v as isize` for a `usize` value (64-bit target). -/
def asIsize (v : Nat) : Int := wrapS 64 (v : Int)

/-- `z as usize` for an `isize` value. -/
def asUsize (z : Int) : Nat := (wrapU 64 z).toNat

/-- The common body of `iter_neighbours_4 / _4d / _8`: cast, filter the offsets by the bounds test,
    map back.  (The additions `i + x` are not range-checked here; the theorems and the correspondence
    keep `n, m, i, j < 2^63 - 1`, where they cannot overflow.) -/
def neighbours (offs : List (Int × Int)) (n m i j : Nat) : List (Nat × Nat) :=
  let n' := asIsize n
  let m' := asIsize m
  let i' := asIsize i
  let j' := asIsize j
  (offs.filter (fun (p : Int × Int) =>
      decide (i' + p.1 ≥ 0) && decide (i' + p.1 < n') && decide (j' + p.2 ≥ 0) && decide (j' + p.2 < m'))).map
    (fun (p : Int × Int) => (asUsize (i' + p.1), asUsize (j' + p.2)))

def neighbours4 := neighbours offsets4
def neighbours4d := neighbours offsets4d
def neighbours8 := neighbours offsets8

/-! ## Executable specifications -/

/-- `s` is a submask of `x`. -/
def isSubmask (s x : Nat) : Bool := s &&& x == s

/-- Every submask of `x`, once, in decreasing order (so the last one is 0): by definition. -/
def specSubmasks (x : Nat) : List Nat := (List.range (x + 1)).reverse.filter (fun s => isSubmask s x)

/-- Every `w`-bit supermask of `x`, once, in increasing order (so the last one is `ones w`): by definition. -/
def specSupermasks (w x : Nat) : List Nat := (List.range (2 ^ w)).filter (fun s => isSubmask x s)

/-- The submasks of `x` in increasing order, bit by bit (fast; `Props/C15` proves it equal to the
    reverse of `specSubmasks`; the driver uses it for masks too large for the filter). -/
def subsAsc (x : Nat) : List Nat :=
  if h : x = 0 then [0]
  else
    let r := subsAsc (x / 2)
    if x % 2 = 1 then r.flatMap (fun s => [2 * s, 2 * s + 1]) else r.map (fun s => 2 * s)
termination_by x
decreasing_by omega

/-- The `w`-bit supermasks of `x` in increasing order, bit by bit. -/
def supsAsc : Nat → Nat → List Nat
  | 0, _ => [0]
  | w + 1, x =>
    let r := supsAsc w (x / 2)
    if x % 2 = 1 then r.map (fun s => 2 * s + 1) else r.flatMap (fun s => [2 * s, 2 * s + 1])

/-- All arrangements of a list (with repetitions when elements repeat): insert the head everywhere. -/
def insertAll (x : Int) : List Int → List (List Int)
  | [] => [[x]]
  | y :: ys => (x :: y :: ys) :: (insertAll x ys).map (y :: ·)

def allPerms : List Int → List (List Int)
  | [] => [[]]
  | x :: xs => (allPerms xs).flatMap (insertAll x)

/-- Lexicographic `<` on lists of integers as a `Bool`. -/
def lexLtB : List Int → List Int → Bool
  | [], [] => false
  | [], _ :: _ => true
  | _ :: _, [] => false
  | a :: as, b :: bs => decide (a < b) || (a == b && lexLtB as bs)

def lexLeB (a b : List Int) : Bool := !lexLtB b a

/-- Remove adjacent duplicates (on a sorted list: all duplicates). -/
def dedupAdj : List (List Int) → List (List Int)
  | [] => []
  | [a] => [a]
  | a :: b :: t => if a == b then dedupAdj (b :: t) else a :: dedupAdj (b :: t)

/-- Every distinct arrangement of `xs`, once, in lexicographic order: by definition. -/
def specPermutations (xs : List Int) : List (List Int) :=
  dedupAdj ((allPerms xs).mergeSort lexLeB)

/-- Lexicographic successor by definition: the least arrangement above `xs`; when there is none,
    the least arrangement of all and `false`. -/
def specNextPermutation (xs : List Int) : List Int × Bool :=
  match (specPermutations xs).filter (fun zs => lexLtB xs zs) with
  | ys :: _ => (ys, true)
  | [] => (sortInts xs, false)

/-- Neighbours by definition, over the mathematical integers: the offsets in their fixed order,
    each kept iff the target cell lies in the `n × m` grid. -/
def specNeighbours (offs : List (Int × Int)) (n m i j : Nat) : List (Nat × Nat) :=
  offs.filterMap (fun (p : Int × Int) =>
    let a : Int := (i : Int) + p.1
    let b : Int := (j : Int) + p.2
    if 0 ≤ a ∧ a < (n : Int) ∧ 0 ≤ b ∧ b < (m : Int) then some (a.toNat, b.toNat) else none)

/-! ## Rendering shared by the driver (the harness prints the same) -/

def hashStep (h v : UInt64) : UInt64 := (h ^^^ v) * 0x100000001b3

def hashInit : UInt64 := 0xcbf29ce484222325

/-- Feed a value of up to 128 bits as two 64-bit words. -/
def hashNat (h : UInt64) (v : Nat) : UInt64 :=
  hashStep (hashStep h v.toUInt64) (v >>> 64).toUInt64   -- `toUInt64` reduces mod 2^64

/-- A mask in the notation of its type (`-1` for the all-ones pattern of a signed type). -/
def showMask (t : IntTy) (v : Nat) : String := toString (t.wrap (v : Int))

/-- A collected mask iterator: the whole list when short, else length, ends and a 64-bit digest. -/
def showMasks (t : IntTy) (l : List Nat) : String :=
  if l.length ≤ 32 then showListWith (showMask t) l
  else
    let h := l.foldl hashNat hashInit
    s!"n={l.length} first={showMask t (l.headD 0)} last={showMask t (l.getLastD 0)} h={toHex h.toNat 16}"

def hashInt (h : UInt64) (z : Int) : UInt64 := hashStep h (wrapU 64 z).toNat.toUInt64

def hashList (h : UInt64) (l : List Int) : UInt64 := hashStep (l.foldl hashInt h) 0xffffffffffffffff

def showPerms (ls : List (List Int)) : String :=
  if ls.length ≤ 24 then showListWith showInts ls
  else
    let h := ls.foldl hashList hashInit
    s!"n={ls.length} first={showInts (ls.headD [])} last={showInts (ls.getLastD [])} h={toHex h.toNat 16}"

def showCells (l : List (Nat × Nat)) : String :=
  showListWith (fun (p : Nat × Nat) => s!"({p.1},{p.2})") l

end Rlib.Iter
