import RlibModel.Model.Common
/-
Model of `impl Randomable<f64> for Range<f64>` (randomable.rs) — float part of property C14.

The code is written once over an abstract arithmetic `FloatOps α` (DESIGN §5, floating point):
* the driver instantiates it with Lean's `Float` (`floatOps` in `Driver/Rand.lean`): the same IEEE-754
  binary64 operations in the same order as the Rust code, so results are compared bit for bit;
* the theorems instantiate it with exact rationals followed by an abstract rounding function
  (`roundedOps` in `Lemmas/RandFloat.lean`) and, for the upper bound, with *any* `FloatOps`.

```
assert!(!self.is_empty());                       // is_empty = !(start < end)
let len = self.end - self.start;
let unit = (rng >> SHIFT) as f64 / (1u64 << BITS) as f64;
let x = unit * len + self.start;
if x < self.end { x } else { self.start }
```
`SHIFT = 11`, `BITS = 53` are extracted from the source by `checks/C14.py`.
-/
namespace Rlib.Rand

/-- The arithmetic the float draw uses. -/
structure FloatOps (α : Type) where
  ofU64 : Nat → α          -- `x as f64` for a `u64` value
  add : α → α → α
  sub : α → α → α
  mul : α → α → α
  div : α → α → α
  lt : α → α → Bool

/-- `Range<f64>::gen_from_u64` -/
def genF {α} (o : FloatOps α) (shift bits : Nat) (start end_ : α) (raw : Nat) : Except Panic α :=
  if ¬ o.lt start end_ then .error .assert
  else
    let len := o.sub end_ start
    let unit := o.div (o.ofU64 (raw >>> shift)) (o.ofU64 (1 <<< bits))
    let x := o.add (o.mul unit len) start
    if o.lt x end_ then .ok x else .ok start

end Rlib.Rand
