import RlibModel.Model.F80
import RlibModel.Model.F80Exact
/-
Programs over four live `f80` objects (property C18, wave 3): the results of operations are stored in registers
and fed back into later operations (arithmetic by value and `op=`, `neg abs min max`, the `f64` round trip,
comparisons - also with the SAME object on both sides -, clones, constants, a repeated `f80_init()`).

One state is kept (the model's bytes).  For every step
  * `raw`  = the model's result bytes,
  * `view` = what the property fixes of it (`min max abs` as VALUES; hidden when an operand is `loose`),
  * `stepS` = the specification of that step applied to the same operands: exact fraction arithmetic rounded once
    (`specAdd …`), IEEE relations on the classes, `specMin specMax specAbs`, `specToF64 / specOfF64`.
A register is `loose` when the property does not fix its bytes: `abs` of a zero (sign of the zero), `min`/`max` of two
zeros or with a NaN operand (which operand is returned), and everything computed from a loose register.  Steps that read a
loose register are hidden in view and spec (`*`) - their raw bytes are still compared with the model.
`Props/C18.lean`: `prog_step_view` (view = spec for every step), `prog_step_wf`, `prog_run_view`.  Core Lean only.
-/
namespace Rlib.F80

inductive BinOp where
  | add | sub | mul | div
  deriving Repr, DecidableEq

def BinOp.model : BinOp → F80 → F80 → F80
  | .add => Rlib.F80.add
  | .sub => Rlib.F80.sub
  | .mul => Rlib.F80.mul
  | .div => Rlib.F80.div

def BinOp.spec : BinOp → F80 → F80 → F80
  | .add => specAdd
  | .sub => specSub
  | .mul => specMul
  | .div => specDiv

/-- one live `f80` object: its bytes, and whether the property leaves them open -/
structure Cell where
  v : F80
  loose : Bool
  deriving Repr, DecidableEq, Inhabited

/-- four live objects -/
abbrev Regs := Fin 4 → Cell

def Regs.set (R : Regs) (i : Fin 4) (c : Cell) : Regs := fun j => if j = i then c else R j

def Regs.ofList (a b c d : F80) : Regs := fun j =>
  match j with
  | 0 => ⟨a, false⟩
  | 1 => ⟨b, false⟩
  | 2 => ⟨c, false⟩
  | 3 => ⟨d, false⟩

inductive Op where
  /-- `r[d] = r[a] o r[b]` (operator by value; `a = b` allowed) -/
  | bin (o : BinOp) (d a b : Fin 4)
  /-- `r[d] o= r[b]` (`d = b` allowed: `x += x`) -/
  | asg (o : BinOp) (d b : Fin 4)
  | neg (d a : Fin 4)
  | abs (d a : Fin 4)
  | min (d a b : Fin 4)
  | max (d a b : Fin 4)
  /-- `r[d] = f80::from(f64::from(r[a]))` -/
  | rt (d a : Fin 4)
  /-- the seven relations of `r[a]`, `r[b]` (same object when `a = b`) -/
  | cmp (a b : Fin 4)
  /-- `r[d] = r[a]` by `Copy`, `Clone::clone` or `Clone::clone_from` -/
  | copy (d a : Fin 4)
  /-- `r[d] = ZERO / Default::default()` (`false`) or `ONE` (`true`) -/
  | const (d : Fin 4) (one : Bool)
  /-- `f80_init()` once more -/
  | init
  deriving Repr, DecidableEq

inductive Obs where
  /-- the ten bytes -/
  | bits (x : F80)
  /-- a value (`canonBits`) -/
  | value (c : Option Nat)
  /-- `f64::from(x)` and `f80::from` of it -/
  | conv (f : F64) (x : F80)
  | rel (lt gt le ge eq ne : Bool) (pc : Option Ordering)
  /-- not fixed by the property -/
  | hidden
  | unit
  deriving Repr, DecidableEq

structure Step where
  regs : Regs
  raw : Obs
  view : Obs

def hide (l : Bool) (o : Obs) : Obs := if l then .hidden else o

def isZero80 (x : F80) : Bool := (classify x).isZero

/-- the model: what rlib_f80 does -/
def stepM (R : Regs) : Op → Step
  | .bin o d a b =>
    let r := o.model (R a).v (R b).v
    let l := (R a).loose || (R b).loose
    ⟨R.set d ⟨r, l⟩, .bits r, hide l (.bits r)⟩
  | .asg o d b =>
    let r := o.model (R d).v (R b).v
    let l := (R d).loose || (R b).loose
    ⟨R.set d ⟨r, l⟩, .bits r, hide l (.bits r)⟩
  | .neg d a =>
    let r := neg (R a).v
    ⟨R.set d ⟨r, (R a).loose⟩, .bits r, hide (R a).loose (.bits r)⟩
  | .abs d a =>
    let r := abs (R a).v
    ⟨R.set d ⟨r, (R a).loose || isZero80 (R a).v⟩, .bits r, hide (R a).loose (.value (canonBits r))⟩
  | .min d a b =>
    let r := min (R a).v (R b).v
    let l := (R a).loose || (R b).loose || isNaN (R a).v || isNaN (R b).v
    ⟨R.set d ⟨r, l || (isZero80 (R a).v && isZero80 (R b).v)⟩, .bits r, hide l (.value (canonBits r))⟩
  | .max d a b =>
    let r := max (R a).v (R b).v
    let l := (R a).loose || (R b).loose || isNaN (R a).v || isNaN (R b).v
    ⟨R.set d ⟨r, l || (isZero80 (R a).v && isZero80 (R b).v)⟩, .bits r, hide l (.value (canonBits r))⟩
  | .rt d a =>
    let f := toF64 (R a).v
    let r := ofF64 f
    ⟨R.set d ⟨r, (R a).loose⟩, .conv f r, hide (R a).loose (.conv f r)⟩
  | .cmp a b =>
    let x := (R a).v
    let y := (R b).v
    let o := Obs.rel (lt x y) (gt x y) (le x y) (ge x y) (beq x y) (bne x y) (partialCmp x y)
    ⟨R, o, hide ((R a).loose || (R b).loose) o⟩
  | .copy d a => ⟨R.set d (R a), .bits (R a).v, hide (R a).loose (.bits (R a).v)⟩
  | .const d o =>
    let r := if o then one else zero
    ⟨R.set d ⟨r, false⟩, .bits r, .bits r⟩
  | .init => ⟨R, .unit, .unit⟩

/-- the specification of one step, applied to the operands the registers hold -/
def stepS (R : Regs) : Op → Obs
  | .bin o _ a b => hide ((R a).loose || (R b).loose) (.bits (o.spec (R a).v (R b).v))
  | .asg o d b => hide ((R d).loose || (R b).loose) (.bits (o.spec (R d).v (R b).v))
  | .neg _ a => hide (R a).loose (.bits { (R a).v with sign := !(R a).v.sign })
  | .abs _ a => hide (R a).loose (.value (canonBits (specAbs (R a).v)))
  | .min _ a b =>
    hide ((R a).loose || (R b).loose || isNaN (R a).v || isNaN (R b).v) (.value (canonBits (specMin (R a).v (R b).v)))
  | .max _ a b =>
    hide ((R a).loose || (R b).loose || isNaN (R a).v || isNaN (R b).v) (.value (canonBits (specMax (R a).v (R b).v)))
  | .rt _ a => hide (R a).loose (.conv (specToF64 (R a).v) (specOfF64 (specToF64 (R a).v)))
  | .cmp a b =>
    let x := (R a).v
    let y := (R b).v
    hide ((R a).loose || (R b).loose)
      (.rel (specLt x y) (specGt x y) (specLe x y) (specGe x y) (specEq x y) (!specEq x y) (specPcmp x y))
  | .copy _ a => hide (R a).loose (.bits (R a).v)
  | .const _ o => .bits (if o then ⟨false, 0x3FFF, two63⟩ else ⟨false, 0, 0⟩)
  | .init => .unit

/-- run a program: raw and view observation of every step -/
def runM (R : Regs) : List Op → List (Obs × Obs)
  | [] => []
  | op :: rest => let s := stepM R op; (s.raw, s.view) :: runM s.regs rest

/-- the specification of every step of a program (the state is the one the model reaches) -/
def runS (R : Regs) : List Op → List Obs
  | [] => []
  | op :: rest => stepS R op :: runS (stepM R op).regs rest

def Regs.wf (R : Regs) : Prop := ∀ i, (R i).v.sig < 2 ^ 64

end Rlib.F80
