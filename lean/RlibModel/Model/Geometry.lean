import RlibModel.Model.Common
/-
Model of `rlib/geometry/src/{point.rs, line.rs, circle.rs, util.rs}` (property C10).

The Rust code computes in `f64`.  Lean's kernel knows nothing about `Float`, so every function is
written over an explicit record of arithmetic operations `Geo K`:

* the driver instantiates it with Lean `Float` (`Model/GeometryFloat.lean`): the same IEEE operations
  in the same order as the Rust source, so results can be compared bit for bit;
* the theorems instantiate it with ℝ (`Lemmas/Geometry.lean`, `Props/C10.lean`).

Every definition names the Rust function it mirrors; operation order and association follow the
source text (`a + b - c` is `(a + b) - c`, `-x * 2.0` is `(-x) * 2.0`, `p / d * r` is `(p / d) * r`).
`x.powi(2)` is `x * x` (what LLVM emits for a constant exponent 2; also what compiler-rt computes).
-/
namespace Rlib.Geometry

/-- The arithmetic the geometry code uses (`f64` in Rust). -/
structure Geo (K : Type) where
  add : K → K → K
  sub : K → K → K
  mul : K → K → K
  div : K → K → K
  neg : K → K
  sqrt : K → K
  abs : K → K
  /-- `f64::max` -/
  max : K → K → K
  /-- `<` (and, flipped, `>`) -/
  lt : K → K → Bool
  /-- `!=` -/
  ne : K → K → Bool
  /-- float literals `0.0`, `2.0`, `-1.0` -/
  ofInt : Int → K
  /-- `util::EPS` (extracted from the source on every run) -/
  eps : K

structure Point (K : Type) where
  x : K
  y : K

/-- `Line { a, b, c }` — the line `a x + b y + c = 0`. -/
structure Line (K : Type) where
  a : K
  b : K
  c : K

structure Circle (K : Type) where
  c : Point K
  r : K

/-- `circle::PointPosition` -/
inductive Position where
  | inside | border | outside
  deriving DecidableEq, Repr

/-- `util::CircleLineIntersection` -/
inductive CL (K : Type) where
  | none
  | touch (p : Point K)
  | intersect (p q : Point K)

/-- `util::CircleIntersection` -/
inductive CC (K : Type) where
  | none
  | same
  | touchInside (p : Point K)
  | touchOutside (p : Point K)
  | intersect (p q : Point K)

section
variable {K : Type} (G : Geo K)

/-! ### point.rs -/

/-- `Point::slen` : `x * x + y * y` -/
def slen (p : Point K) : K := G.add (G.mul p.x p.x) (G.mul p.y p.y)

/-- `Point::len` : `slen().sqrt()` -/
def len (p : Point K) : K := G.sqrt (slen G p)

/-- `Point::dp` -/
def dp (p q : Point K) : K := G.add (G.mul p.x q.x) (G.mul p.y q.y)

/-- `Point::cp` : `x * p.y - y * p.x` -/
def cp (p q : Point K) : K := G.sub (G.mul p.x q.y) (G.mul p.y q.x)

/-- `impl Add for Point` -/
def padd (p q : Point K) : Point K := ⟨G.add p.x q.x, G.add p.y q.y⟩

/-- `impl Sub for Point` -/
def psub (p q : Point K) : Point K := ⟨G.sub p.x q.x, G.sub p.y q.y⟩

/-- `impl Mul<f64> for Point` -/
def pmul (p : Point K) (k : K) : Point K := ⟨G.mul p.x k, G.mul p.y k⟩

/-- `impl Div<f64> for Point` -/
def pdiv (p : Point K) (k : K) : Point K := ⟨G.div p.x k, G.div p.y k⟩

/-! ### line.rs -/

/-- `Line::new` : divide all three coefficients by the length of `(a, b)`. -/
def lineNew (a b c : K) : Line K :=
  let d := len G ⟨a, b⟩
  ⟨G.div a d, G.div b d, G.div c d⟩

/-- `Line::between` -/
def lineBetween (u v : Point K) : Line K :=
  let a := G.sub u.y v.y
  let b := G.sub v.x u.x
  let c := G.neg (G.add (G.mul a u.x) (G.mul b u.y))
  lineNew G a b c

/-- the signed distance `a * p.x + b * p.y + c` (written out three times in the Rust source) -/
def lineEval (l : Line K) (p : Point K) : K :=
  G.add (G.add (G.mul l.a p.x) (G.mul l.b p.y)) l.c

/-- `Line::dist` -/
def lineDist (l : Line K) (p : Point K) : K := G.abs (lineEval G l p)

/-- `Line::contains` -/
def lineContains (l : Line K) (p : Point K) : Bool := G.lt (lineDist G l p) G.eps

/-- `Line::ort` -/
def lineOrt (l : Line K) : Point K := ⟨l.a, l.b⟩

/-! ### circle.rs -/

/-- `Circle::position` : relative tolerance `((c - p).len() - r) / r` against `∓EPS`. -/
def position (c : Circle K) (p : Point K) : Position :=
  let d := G.div (G.sub (len G (psub G c.c p)) c.r) c.r
  if G.lt d (G.neg G.eps) then .inside
  else if G.lt G.eps d then .outside
  else .border

/-! ### util.rs -/

/-- `util::dist` : `(a - b).len()` -/
def dist (a b : Point K) : K := len G (psub G a b)

/-- `util::parallel` -/
def parallel (u v : Line K) : Bool := G.lt (G.abs (cp G (lineOrt u) (lineOrt v))) G.eps

/-- `util::intersect_ll` : Cramer's rule unless `parallel`. -/
def intersectLL (u v : Line K) : Option (Point K) :=
  if parallel G u v then none
  else
    let x := G.div (G.neg (G.sub (G.mul u.c v.b) (G.mul u.b v.c))) (G.sub (G.mul u.a v.b) (G.mul u.b v.a))
    let y := G.div (G.neg (G.sub (G.mul u.c v.a) (G.mul u.a v.c))) (G.sub (G.mul u.b v.a) (G.mul u.a v.b))
    some ⟨x, y⟩

/-- `ort = ort * -1.0` when the centre is on the positive side of the line
    (`l.a * c.c.x + l.b * c.c.y + l.c > 0.0`): afterwards `ort` points from the centre to the line. -/
def flipToLine (l : Line K) (c : Point K) (ort : Point K) : Point K :=
  if G.lt (G.ofInt 0) (lineEval G l c) then pmul G ort (G.ofInt (-1)) else ort

/-- `util::intersect_cl` (after the fix 78c6804: the tangent branch returns the foot point). -/
def intersectCL (c : Circle K) (l : Line K) : CL K :=
  let d := lineDist G l c.c
  if G.lt (G.add c.r G.eps) d then .none
  else if G.lt (G.sub c.r G.eps) d then
    -- tangent branch
    let ort : Point K := ⟨l.a, l.b⟩
    let ort := pdiv G ort (len G ort)
    let ort := flipToLine G l c.c ort
    .touch (padd G c.c (pmul G ort d))
  else
    -- two-point branch
    let ort : Point K := ⟨l.a, l.b⟩
    let ort := if G.ne (len G ort) (G.ofInt 0) then pdiv G ort (len G ort) else ort
    let ort := flipToLine G l c.c ort
    let par : Point K := ⟨G.neg ort.y, ort.x⟩
    let ort := pmul G ort d
    let side := G.sqrt (G.max (G.sub (G.mul c.r c.r) (G.mul d d)) (G.ofInt 0))
    .intersect (padd G (padd G c.c ort) (pmul G par side)) (psub G (padd G c.c ort) (pmul G par side))

/-- `a.c + (b.c - a.c) / d * a.r` — the touch point of both tangent branches of `intersect_cc`. -/
def towards (a b : Circle K) (d : K) : Point K :=
  padd G a.c (pmul G (pdiv G (psub G b.c a.c) d) a.r)

/-- `intersect_cc` once `a` is the circle with the larger radius (`TouchInside` branch as of fix 542ea35, crossing branch as of fix 883c692:
    both points are built directly from `h = (d² + a.r² - b.r²) / (2 d)`, no detour through `intersect_cl`). -/
def intersectCCOrdered (a b : Circle K) : CC K :=
  let d := dist G a.c b.c
  if G.lt d G.eps && G.lt a.r (G.add b.r G.eps) then .same
  else if G.lt d (G.sub (G.sub a.r b.r) G.eps) then .none
  else if G.lt d (G.add (G.sub a.r b.r) G.eps) then
    -- fix 542ea35: `if d == 0.0 { return Same }` — concentric circles whose radii agree within EPS have no
    -- direction to a touch point (the formula divided 0 by 0)
    if G.ne d (G.ofInt 0) then .touchInside (towards G a b d) else .same
  else if G.lt d (G.sub (G.add a.r b.r) G.eps) then
    -- the circles cross properly (fix 883c692: both points are built directly; `h` is the distance from
    -- `a.c` to the radical line along the line of centres)
    let h := G.div (G.sub (G.add (G.mul d d) (G.mul a.r a.r)) (G.mul b.r b.r)) (G.mul (G.ofInt 2) d)
    let dir := pdiv G (psub G b.c a.c) d
    let par : Point K := ⟨G.neg dir.y, dir.x⟩
    let side := G.sqrt (G.max (G.sub (G.mul a.r a.r) (G.mul h h)) (G.ofInt 0))
    .intersect (padd G (padd G a.c (pmul G dir h)) (pmul G par side))
               (psub G (padd G a.c (pmul G dir h)) (pmul G par side))
  else if G.lt d (G.add (G.add a.r b.r) G.eps) then .touchOutside (towards G a b d)
  else .none

/-- `util::intersect_cc` : `if a.r < b.r { swap(&mut a, &mut b) }`, then classify. -/
def intersectCC (a b : Circle K) : CC K :=
  if G.lt a.r b.r then intersectCCOrdered G b a else intersectCCOrdered G a b

end

/-- points returned (the `IntoIterator` impls of the two result enums) -/
def CL.points {K : Type} : CL K → List (Point K)
  | .none => []
  | .touch p => [p]
  | .intersect p q => [p, q]

def CC.points {K : Type} : CC K → List (Point K)
  | .none => []
  | .same => []
  | .touchInside p => [p]
  | .touchOutside p => [p]
  | .intersect p q => [p, q]

def CL.kind {K : Type} : CL K → String
  | .none => "None"
  | .touch _ => "Touch"
  | .intersect _ _ => "Intersect"

def CC.kind {K : Type} : CC K → String
  | .none => "None"
  | .same => "Same"
  | .touchInside _ => "TouchInside"
  | .touchOutside _ => "TouchOutside"
  | .intersect _ _ => "Intersect"

/-- kind of an `intersect_ll` result -/
def llKind {K : Type} : Option (Point K) → String
  | none => "None"
  | some _ => "Some"

def Position.toString : Position → String
  | .inside => "Inside"
  | .border => "Border"
  | .outside => "Outside"

end Rlib.Geometry
