import RlibModel.Model.Common
/-
Model for property C17 (engine `treapconc`): the priority generator of
`rlib/treap/src/treap_node.rs` used from several threads.

* `Discipline`   — how the generator cell is declared and accessed (extracted from the source text
                   on every run into `Generated/RngDiscipline.lean`).
* `Gen`          — an abstract generator: state transition `next`, output `out` of the *new* state
                   (`next_raw`: `state = state*A + C; return mix(state)`, priority = low bits).
* `State`/`step`/`exec` — the transition system: `k` threads, thread `i` still has `todo` draws to
                   make; one *micro-step* of thread `i` is what the discipline makes indivisible:
                     racy (and unknown)  : `load` shared cell, later `store next(loaded)` — two steps
                                           (sequentially consistent, no tearing: the most favourable
                                           reading of the undefined behaviour);
                     atomicRmw / mutex   : the whole read-modify-write of the shared cell in one step;
                     threadLocal         : the whole read-modify-write of the thread's own cell.
                   A schedule is a list of thread ids; an entry naming a thread that has nothing
                   enabled is a stutter step, so *every* list is a schedule and every interleaving of
                   enabled micro-steps is some list.
* `stream`       — the sequential stream `out (next^1 s), out (next^2 s), …` (the specification).
* `lcgGen`       — the concrete generator of `rlib/rand/src/lcg.rs`, parametric in the constants
                   extracted from the source.

The log is ghost state (written, never read by `step`): it records every completed draw in
chronological order (newest first) tagged with the drawing thread.
-/
namespace Rlib.TreapConc

/-- Declaration/access form of the generator in `treap_node.rs`. -/
inductive Discipline where
  | racy         -- `static mut` mutated in an `unsafe` block without synchronisation
  | atomicRmw    -- `static … : AtomicU64` updated with `fetch_update`
  | mutex        -- `static … : Mutex<Rng>`, draw under the lock
  | threadLocal  -- `thread_local! { static … : Cell<Rng> }`, draw through `with`
  | unknown      -- the extractor did not recognise the source: nothing is assumed (steps as `racy`)
  deriving DecidableEq, Repr, Inhabited

/-- What one draw looks like to the scheduler. -/
inductive Mode where
  | sharedSplit   -- shared cell, load and store separately scheduled
  | sharedAtomic  -- shared cell, one indivisible read-modify-write
  | ownAtomic     -- the thread's own cell
  deriving DecidableEq, Repr

def Discipline.mode : Discipline → Mode
  | .racy => .sharedSplit
  | .unknown => .sharedSplit
  | .atomicRmw => .sharedAtomic
  | .mutex => .sharedAtomic
  | .threadLocal => .ownAtomic

/-- The disciplines for which the property is claimed. -/
def Discipline.isSafe : Discipline → Bool
  | .atomicRmw => true
  | .mutex => true
  | .threadLocal => true
  | .racy => false
  | .unknown => false

/-- All threads draw from one cell. -/
def Discipline.isShared : Discipline → Bool
  | .threadLocal => false
  | _ => true

def Discipline.name : Discipline → String
  | .racy => "racy" | .atomicRmw => "atomicRmw" | .mutex => "mutex"
  | .threadLocal => "threadLocal" | .unknown => "unknown"

def Discipline.parse? : String → Option Discipline
  | "racy" => some .racy | "atomicRmw" => some .atomicRmw | "mutex" => some .mutex
  | "threadLocal" => some .threadLocal | "unknown" => some .unknown
  | _ => none

/-- Number of micro-steps of one draw. -/
def Discipline.drawSteps (D : Discipline) : Nat :=
  match D.mode with
  | .sharedSplit => 2
  | _ => 1

/-- An abstract generator with state `σ` and results `ρ`. -/
structure Gen (σ ρ : Type) where
  next : σ → σ
  out : σ → ρ

/-- `next` applied `n` times. -/
def iter {σ ρ : Type} (g : Gen σ ρ) : Nat → σ → σ
  | 0, s => s
  | n + 1, s => iter g n (g.next s)

/-- The sequential result stream of `n` draws starting from state `s`. -/
def stream {σ ρ : Type} (g : Gen σ ρ) : σ → Nat → List ρ
  | _, 0 => []
  | s, n + 1 => g.out (g.next s) :: stream g (g.next s) n

/-- One thread: draws still to make, the value loaded by an unfinished racy draw, its own cell. -/
structure Thread (σ : Type) where
  todo : Nat
  pending : Option σ
  cell : σ
  deriving Repr

structure State (σ ρ : Type) where
  shared : σ
  threads : List (Thread σ)
  log : List (Nat × ρ)        -- ghost: completed draws, newest first, tagged with the thread id

/-- Initial state: every cell holds the seed, thread `i` has `progs[i]` draws to make. -/
def init {σ ρ : Type} (seed : σ) (progs : List Nat) : State σ ρ :=
  { shared := seed
    threads := progs.map (fun n => { todo := n, pending := none, cell := seed })
    log := [] }

/-- One micro-step of thread `i` (a stutter step when `i` has nothing enabled). -/
def step {σ ρ : Type} (D : Discipline) (g : Gen σ ρ) (st : State σ ρ) (i : Nat) : State σ ρ :=
  match st.threads[i]? with
  | none => st
  | some t =>
    match D.mode with
    | .sharedAtomic =>
      if t.todo = 0 then st
      else
        let s' := g.next st.shared
        { shared := s'
          threads := st.threads.set i { t with todo := t.todo - 1 }
          log := (i, g.out s') :: st.log }
    | .ownAtomic =>
      if t.todo = 0 then st
      else
        let s' := g.next t.cell
        { st with
          threads := st.threads.set i { t with todo := t.todo - 1, cell := s' }
          log := (i, g.out s') :: st.log }
    | .sharedSplit =>
      match t.pending with
      | none =>
        if t.todo = 0 then st
        else { st with threads := st.threads.set i { t with pending := some st.shared } }
      | some v =>
        let s' := g.next v
        { shared := s'
          threads := st.threads.set i { t with pending := none, todo := t.todo - 1 }
          log := (i, g.out s') :: st.log }

/-- Run a schedule. -/
def exec {σ ρ : Type} (D : Discipline) (g : Gen σ ρ) (st : State σ ρ) (sched : List Nat) : State σ ρ :=
  sched.foldl (step D g) st

/-- Results of all completed draws in chronological order. -/
def history {σ ρ : Type} (st : State σ ρ) : List ρ := st.log.reverse.map (·.2)

/-- The result stream observed by thread `i`. -/
def results {σ ρ : Type} (st : State σ ρ) (i : Nat) : List ρ :=
  (st.log.reverse.filter (fun e => e.1 == i)).map (·.2)

/-- Every thread has finished its program. -/
def finished {σ ρ : Type} (st : State σ ρ) : Bool :=
  st.threads.all (fun t => t.todo == 0)

/-- A serial schedule: a list of *whole draws* (`order[j]` = the thread making the `j`-th draw),
    each expanded to its micro-steps run back to back. -/
def expand (D : Discipline) (order : List Nat) : List Nat :=
  order.flatMap (fun i => List.replicate D.drawSteps i)

/-! ### What the property says about a discipline (statements; proofs in `Props/C17.lean`) -/

/-- Every schedule has a serial schedule (whole draws, one thread at a time) that gives every
    thread the same result stream. -/
def Serializable (D : Discipline) : Prop :=
  ∀ {σ ρ : Type} (g : Gen σ ρ) (seed : σ) (progs sched : List Nat),
    ∃ order : List Nat, ∀ i,
      results (exec D g (init seed progs) sched) i
        = results (exec D g (init seed progs) (expand D order)) i

/-- Shared cell: no draw is lost or duplicated.  After *any* schedule the results in chronological
    order are exactly the sequential stream from the seed; the threads' streams together are that
    stream as a multiset, each of them is a subsequence of it (increasing stream index), never longer
    than the thread's program and complete when the thread has finished. -/
def SharedExact (D : Discipline) : Prop :=
  ∀ {σ ρ : Type} (g : Gen σ ρ) (seed : σ) (progs sched : List Nat),
    history (exec D g (init seed progs) sched)
        = stream g seed (history (exec D g (init seed progs) sched)).length
    ∧ ((List.range progs.length).flatMap (results (exec D g (init seed progs) sched))).Perm
        (stream g seed (history (exec D g (init seed progs) sched)).length)
    ∧ (∀ i, (results (exec D g (init seed progs) sched) i).Sublist
        (stream g seed (history (exec D g (init seed progs) sched)).length))
    ∧ (∀ i, (results (exec D g (init seed progs) sched) i).length ≤ progs.getD i 0)
    ∧ (finished (exec D g (init seed progs) sched) = true →
        ∀ i, (results (exec D g (init seed progs) sched) i).length = progs.getD i 0)

/-- Own cell: after any schedule every thread has seen exactly the sequential stream from the seed,
    as far as it got, and all of its program when it has finished. -/
def OwnExact (D : Discipline) : Prop :=
  ∀ {σ ρ : Type} (g : Gen σ ρ) (seed : σ) (progs sched : List Nat) (i : Nat),
    results (exec D g (init seed progs) sched) i
        = stream g seed (results (exec D g (init seed progs) sched) i).length
    ∧ (results (exec D g (init seed progs) sched) i).length ≤ progs.getD i 0
    ∧ (finished (exec D g (init seed progs) sched) = true →
        (results (exec D g (init seed progs) sched) i).length = progs.getD i 0)

/-- The property for one discipline. -/
structure Safe (D : Discipline) : Prop where
  serializable : Serializable D
  shared_exact : D.isShared = true → SharedExact D
  own_exact : D.isShared = false → OwnExact D

/-! ### One level down: what the "one indivisible step" of the safe disciplines is made of

The fine-grained system splits every draw into the operations the source really performs
(still sequentially consistent; one schedule entry = one such operation of one thread):

* `threadLocal` : `cell.get()` … `cell.set(rng)` on the thread's own cell (two steps);
* `mutex`       : `lock` (enabled only while the mutex is free) · read state · write state · `unlock`;
* `atomicRmw`   : `fetch_update` = load, then compare-and-swap; a failed CAS returns the current value
                  and the closure is retried (a spurious failure of `compare_exchange_weak` is a step
                  that changes nothing, i.e. the schedule without that entry);
* `racy`/`unknown` : load, store.

`Props/C17.lean: fine_refines` proves that for the three safe disciplines every fine-grained schedule
is matched by a schedule of the one-step system above with the same log, cells and remaining
programs — so "one indivisible step" is a theorem about lock/CAS/ownership, not an assumption. -/

/-- Where a thread is inside its current draw. -/
inductive Pc (σ : Type) where
  | idle
  | locked            -- holds the mutex, has not read yet
  | loaded (v : σ)    -- has read `v`
  | stored            -- has written, still holds the mutex
  deriving Repr

structure FThread (σ : Type) where
  todo : Nat
  pc : Pc σ
  cell : σ

structure FState (σ ρ : Type) where
  shared : σ
  lock : Option Nat           -- the thread holding the mutex
  threads : List (FThread σ)
  log : List (Nat × ρ)

def finit {σ ρ : Type} (seed : σ) (progs : List Nat) : FState σ ρ :=
  { shared := seed, lock := none
    threads := progs.map (fun n => { todo := n, pc := .idle, cell := seed })
    log := [] }

/-- One fine-grained operation of thread `i` (a stutter step when nothing is enabled, e.g. the
    mutex is held by another thread). -/
def fstep {σ ρ : Type} [DecidableEq σ] (D : Discipline) (g : Gen σ ρ) (st : FState σ ρ) (i : Nat) : FState σ ρ :=
  match st.threads[i]? with
  | none => st
  | some t =>
    match D with
    | .threadLocal =>
      match t.pc with
      | .idle =>
        if t.todo = 0 then st
        else { st with threads := st.threads.set i { t with pc := .loaded t.cell } }
      | .loaded v =>
        { st with
          threads := st.threads.set i { t with pc := .idle, todo := t.todo - 1, cell := g.next v }
          log := (i, g.out (g.next v)) :: st.log }
      | _ => st
    | .mutex =>
      match t.pc with
      | .idle =>
        if t.todo = 0 then st
        else
          match st.lock with
          | some _ => st
          | none => { st with lock := some i, threads := st.threads.set i { t with pc := .locked } }
      | .locked => { st with threads := st.threads.set i { t with pc := .loaded st.shared } }
      | .loaded v =>
        { st with
          shared := g.next v
          threads := st.threads.set i { t with pc := .stored, todo := t.todo - 1 }
          log := (i, g.out (g.next v)) :: st.log }
      | .stored => { st with lock := none, threads := st.threads.set i { t with pc := .idle } }
    | .atomicRmw =>
      match t.pc with
      | .idle =>
        if t.todo = 0 then st
        else { st with threads := st.threads.set i { t with pc := .loaded st.shared } }
      | .loaded v =>
        if st.shared = v then
          { st with
            shared := g.next v
            threads := st.threads.set i { t with pc := .idle, todo := t.todo - 1 }
            log := (i, g.out (g.next v)) :: st.log }
        else { st with threads := st.threads.set i { t with pc := .loaded st.shared } }
      | _ => st
    | _ =>
      match t.pc with
      | .idle =>
        if t.todo = 0 then st
        else { st with threads := st.threads.set i { t with pc := .loaded st.shared } }
      | .loaded v =>
        { st with
          shared := g.next v
          threads := st.threads.set i { t with pc := .idle, todo := t.todo - 1 }
          log := (i, g.out (g.next v)) :: st.log }
      | _ => st

def fexec {σ ρ : Type} [DecidableEq σ] (D : Discipline) (g : Gen σ ρ) (st : FState σ ρ) (sched : List Nat) : FState σ ρ :=
  sched.foldl (fstep D g) st

def FThread.abs {σ : Type} (t : FThread σ) : Thread σ := { todo := t.todo, pending := none, cell := t.cell }

/-- Forget the position inside the draw and the lock: the state of the one-step system. -/
def FState.abs {σ ρ : Type} (st : FState σ ρ) : State σ ρ :=
  { shared := st.shared, threads := st.threads.map FThread.abs, log := st.log }

/-- Number of fine-grained operations of one uncontended draw. -/
def fineSteps (D : Discipline) : Nat :=
  match D with
  | .mutex => 4
  | _ => 2

/-- A serial schedule of the fine-grained system: whole draws, one thread at a time. -/
def fexpand (D : Discipline) (order : List Nat) : List Nat :=
  order.flatMap (fun i => List.replicate (fineSteps D) i)

/-- Every fine-grained schedule is matched by a schedule of the one-step system. -/
def Refines (D : Discipline) : Prop :=
  ∀ {σ ρ : Type} [DecidableEq σ] (g : Gen σ ρ) (seed : σ) (progs sched : List Nat),
    ∃ order : List Nat, (fexec D g (finit seed progs) sched).abs = exec D g (init seed progs) order

/-- Serialisability of the fine-grained system: every schedule of micro-operations has a serial
    schedule (whole draws back to back) giving every thread the same result stream. -/
def FineSerializable (D : Discipline) : Prop :=
  ∀ {σ ρ : Type} [DecidableEq σ] (g : Gen σ ρ) (seed : σ) (progs sched : List Nat),
    ∃ order : List Nat, ∀ i,
      results (fexec D g (finit seed progs) sched).abs i
        = results (fexec D g (finit seed progs) (fexpand D order)).abs i

/-! ### The generator of `rlib/rand/src/lcg.rs` + the cast in `gen_priority` -/

/-- Constants read from the source text on every run. `mixMul = 0` ⇔ `next_raw` returns the raw
    state (the form before commit 3822474). Machine words are `UInt64` (= Rust `u64`, wrapping
    `*`/`+`, logical `>>`), so the driver runs millions of draws natively. -/
structure LcgParams where
  a : UInt64          -- multiplier  (const parameter `A` of `Rng`)
  c : UInt64          -- increment   (const parameter `C`)
  mixMul : UInt64     -- multiplier of the output scramble
  mixShift : UInt64   -- shift of the output scramble (< 64)
  prioBits : Nat      -- width of `type Priority`
  deriving Repr, DecidableEq

/-- `self.state = self.state.wrapping_mul(A).wrapping_add(C)`. -/
def lcgNext (p : LcgParams) (s : UInt64) : UInt64 := s * p.a + p.c

/-- `z = (z ^ (z >> sh)).wrapping_mul(M); z ^ (z >> sh)`. -/
def lcgMix (p : LcgParams) (z : UInt64) : UInt64 :=
  if p.mixMul = 0 then z
  else
    let z1 := (z ^^^ (z >>> p.mixShift)) * p.mixMul
    z1 ^^^ (z1 >>> p.mixShift)

/-- `next_raw() as Priority` seen from the new state (a truncating cast keeps the low bits). -/
def lcgPriority (p : LcgParams) (s : UInt64) : UInt64 :=
  if p.prioBits ≥ 64 then lcgMix p s
  else lcgMix p s &&& (((1 : UInt64) <<< (UInt64.ofNat p.prioBits)) - 1)

def lcgGen (p : LcgParams) : Gen UInt64 UInt64 := { next := lcgNext p, out := lcgPriority p }

/-! ### Helpers of the driver (schedules, digests, verdicts) -/

/-- SplitMix64 (the driver's own source of pseudo-random schedules). -/
def splitmix (s : UInt64) : UInt64 × UInt64 :=
  let s1 := s + 0x9E3779B97F4A7C15
  let z1 := (s1 ^^^ (s1 >>> 30)) * 0xBF58476D1CE4E5B9
  let z2 := (z1 ^^^ (z1 >>> 27)) * 0x94D049BB133111EB
  (s1, z2 ^^^ (z2 >>> 31))

/-- First thread at or after `i` (cyclically, at most `n` probes) that still has draws left. -/
def nextLive (left : List Nat) : Nat → Nat → Option Nat
  | 0, _ => none
  | n + 1, i =>
    let j := if i < left.length then i else 0
    if left.getD j 0 > 0 then some j else nextLive left n (j + 1)

/-- A pseudo-random order of draws: at each position a pseudo-randomly chosen thread that still
    has draws left (`left` = remaining draws per thread); ends when all are done. -/
def randomOrder : Nat → UInt64 → List Nat → List Nat → List Nat
  | 0, _, _, acc => acc.reverse
  | fuel + 1, s, left, acc =>
    let (s', r) := splitmix s
    match nextLive left left.length (r.toNat % (left.length + 1)) with
    | none => acc.reverse
    | some i => randomOrder fuel s' (left.set i (left.getD i 0 - 1)) (i :: acc)

/-- FNV-1a (64 bit), each value fed as 8 little-endian bytes. -/
def fnv (xs : List UInt64) : UInt64 :=
  xs.foldl (fun h x =>
    (List.range 8).foldl (fun h j => (h ^^^ ((x >>> (8 * UInt64.ofNat j)) &&& 255)) * 0x100000001b3) h)
    0xcbf29ce484222325

/-- `<length>:<fnv hex>:<first up to four values>` — what both sides print for a long stream. -/
def summ (xs : List UInt64) : String :=
  s!"{xs.length}:{toHex (fnv xs).toNat 16}:" ++ ",".intercalate ((xs.take 4).map toString)

def sortWords (xs : List UInt64) : List UInt64 := (xs.toArray.qsort (· < ·)).toList

/-- `xs` is a subsequence of `ys` (greedy matching). -/
def isSubseq : List UInt64 → List UInt64 → Bool
  | [], _ => true
  | _ :: _, [] => false
  | x :: xs, y :: ys => if x = y then isSubseq xs ys else isSubseq (x :: xs) ys

end Rlib.TreapConc
