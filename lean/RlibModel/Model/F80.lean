import RlibModel.Model.F80Soft
/-
Model of the logic `rlib/f80/src/lib.rs` builds on top of the x87 compare instructions
(property C18), and the IEEE-754 order it is specified against.  Core Lean only.

Instruction level (modelled, see DESIGN §6 C18 "Residue"):
  `fcomi / fucomi st, st(i)` set ZF PF CF to  000 (st > st(i)), 001 (st < st(i)), 100 (equal),
  111 (unordered: an operand is a NaN or an unsupported encoding);
  `seta` = CF=0 ∧ ZF=0, `setp` = PF, `fcmovnbe` moves when CF=0 ∧ ZF=0, `fcmovbe` when CF=1 ∨ ZF=1.
In every asm block the two `fld`s leave `rhs` in st(0) and `self` in st(1).
-/
namespace Rlib.F80

/-! ### Order of exact dyadic numbers -/

/-- `x < y` for exact dyadics: compare the integers `x * 2^-k`, `y * 2^-k` with `k = min x.e y.e`. -/
def Dy.lt (x y : Dy) : Bool := decide (x.scaled (min x.e y.e) < y.scaled (min x.e y.e))
/-- equality of values (`-0 = +0`) -/
def Dy.veq (x y : Dy) : Bool := decide (x.scaled (min x.e y.e) = y.scaled (min x.e y.e))

/-! ### The IEEE-754 relations on operand classes (the specification) -/

/-- IEEE `<`: false when an operand is NaN; `-∞ <` every other non-NaN `< +∞`; exact order of the finite values. -/
def Class.lt : Class → Class → Bool
  | .nan, _ => false
  | _, .nan => false
  | .inf s, .inf t => s && !t
  | .inf s, .fin _ => s
  | .fin _, .inf t => !t
  | .fin x, .fin y => x.lt y

/-- IEEE `=`: false when an operand is NaN; `-0 = +0`. -/
def Class.eq : Class → Class → Bool
  | .nan, _ => false
  | _, .nan => false
  | .inf s, .inf t => s == t
  | .inf _, .fin _ => false
  | .fin _, .inf _ => false
  | .fin x, .fin y => x.veq y

def Class.isNaN : Class → Bool
  | .nan => true
  | _ => false

/-- IEEE `≤`. -/
def Class.le (a b : Class) : Bool := a.lt b || a.eq b

/-- IEEE `partial_cmp`. -/
def Class.pcmp (a b : Class) : Option Ordering :=
  if a.isNaN || b.isNaN then none
  else if a.lt b then some .lt
  else if b.lt a then some .gt
  else some .eq

def specLt (a b : F80) : Bool := (classify a).lt (classify b)
def specGt (a b : F80) : Bool := (classify b).lt (classify a)
def specLe (a b : F80) : Bool := (classify a).le (classify b)
def specGe (a b : F80) : Bool := (classify b).le (classify a)
def specEq (a b : F80) : Bool := (classify a).eq (classify b)
def specPcmp (a b : F80) : Option Ordering := (classify a).pcmp (classify b)

/-! ### The compare instructions -/

structure Flags where
  zf : Bool
  pf : Bool
  cf : Bool
  deriving Repr, DecidableEq

inductive Cmp4 where
  | unordered | less | equal | greater
  deriving Repr, DecidableEq

/-- extended-real rank used by the compare unit: -∞, finite, +∞ -/
def cmpClass : Class → Class → Cmp4
  | .nan, _ => .unordered
  | _, .nan => .unordered
  | .inf s, .inf t => if s = t then .equal else if s then .less else .greater
  | .inf s, .fin _ => if s then .less else .greater
  | .fin _, .inf t => if t then .greater else .less
  | .fin x, .fin y => if x.lt y then .less else if y.lt x then .greater else .equal

/-- `fcomi st, st(i)` / `fucomi st, st(i)` (they differ only in which NaNs raise the masked invalid
    exception): flags from comparing `st0` with `sti`. -/
def fcomi (st0 sti : F80) : Flags :=
  match cmpClass (classify st0) (classify sti) with
  | .greater => ⟨false, false, false⟩
  | .less => ⟨false, false, true⟩
  | .equal => ⟨true, false, false⟩
  | .unordered => ⟨true, true, true⟩

def seta (f : Flags) : Bool := !f.cf && !f.zf
def setp (f : Flags) : Bool := f.pf
/-- condition of `fcmovnbe` -/
def condNBE (f : Flags) : Bool := !f.cf && !f.zf
/-- condition of `fcmovbe` -/
def condBE (f : Flags) : Bool := f.cf || f.zf

/-! ### The Rust code -/

/-- `fn unordered(&self, rhs)`: `fld self; fld rhs; fucomip st, st(1); setp al`. -/
def unordered (self rhs : F80) : Bool := setp (fcomi rhs self)

/-- `fn lt(&self, rhs)`: `fld self; fld rhs; fcomip st, st(1); seta al` — st(0) = rhs, so "above" means `rhs > self`. -/
def lt (self rhs : F80) : Bool := seta (fcomi rhs self)

/-- `fn gt`: `rhs.lt(self)` -/
def gt (self rhs : F80) : Bool := lt rhs self

/-- `fn le`: `!self.unordered(rhs) && !self.gt(rhs)` -/
def le (self rhs : F80) : Bool := !unordered self rhs && !gt self rhs

/-- `fn ge`: `!self.unordered(rhs) && !self.lt(rhs)` -/
def ge (self rhs : F80) : Bool := !unordered self rhs && !lt self rhs

/-- `fn partial_cmp`: match on `(self <= rhs, self >= rhs)` -/
def partialCmp (self rhs : F80) : Option Ordering :=
  match le self rhs, ge self rhs with
  | false, false => none
  | false, true => some .gt
  | true, false => some .lt
  | true, true => some .eq

/-- `impl PartialEq`: `!self.unordered(rhs) && !self.lt(rhs) && !rhs.lt(self)` -/
def beq (self rhs : F80) : Bool := !unordered self rhs && !lt self rhs && !lt rhs self

/-- `!=` (provided method of `PartialEq`) -/
def bne (self rhs : F80) : Bool := !beq self rhs

/-- `f80::from(0.)` : the all-zero pattern (`ofF64_zero` in the lemma file shows it is what the conversion gives). -/
def zero : F80 := ⟨false, 0, 0⟩
/-- `ZeroOne::ONE` -/
def one : F80 := ⟨false, 0x3FFF, two63⟩

/-- `fn abs(self)`: `if self < f80::from(0.) { -self } else { self }` -/
def abs (self : F80) : F80 := if lt self (ofF64 ⟨false, 0, 0⟩) then neg self else self

/-- `fn min`: `fld self; fld rhs; fucomi st, st(1); fcmovnbe st, st(1); fstp st(1); fstp [res]`:
    st(0) = rhs is replaced by st(1) = self when `rhs > self`. -/
def min (self rhs : F80) : F80 := if condNBE (fcomi rhs self) then self else rhs

/-- `fn max`: the same with `fcmovbe`: self when `rhs ≤ self` or unordered. -/
def max (self rhs : F80) : F80 := if condBE (fcomi rhs self) then self else rhs

/-! ### Value-level rendering used for `min` / `max` / `abs` (the property speaks about values) -/

/-- both zeros are the same value; a (pseudo-)denormal is shown with exponent field 1 -/
def canonBits (x : F80) : Option Nat :=
  match classify x with
  | .nan => none
  | .inf _ => some x.toNat
  | .fin d => if d.m = 0 then some 0 else some ({ x with exp := if x.exp = 0 then 1 else x.exp } : F80).toNat

/-- executable specification of `min` as a value: the IEEE-smaller operand -/
def specMin (a b : F80) : F80 := if specLt b a then b else a
def specMax (a b : F80) : F80 := if specLt a b then b else a
/-- executable specification of `abs`: clear the sign -/
def specAbs (a : F80) : F80 := { a with sign := false }

end Rlib.F80
