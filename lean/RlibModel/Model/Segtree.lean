import RlibModel.Model.Common
/-
Model of `rlib/segtree/src/segtree.rs` (lazy segment tree) over an abstract item.

* `Item T M A`   — the operations of a `SegtreeItem<M>` implementation on `T` (`merge`, `modify`, `push`,
                   `Default::default()`), together with its *observable algebra*: a carrier `A` with a binary
                   operation `op`, the observable value `val : T → A`, the action `pa x` that the pending tag
                   of `x` still has to perform on everything below `x`, and the action `act m` of a modifier.
                   The laws relating them are the `Prop`-valued record `Lawful` in `Lemmas/Segtree.lean`.
* `Tree T`       — the recursion tree of the implicit array (`2i+1`, `2i+2`); the array layout itself is not
                   modelled (DESIGN §6 C01, residue).  A `leaf` is a node with `vl = vr`.
* `buildEmpty`/`build`/`setI`/`ask`/`modifyI`/`lb`/`lbr` mirror `rebuild_empty`/`rebuild`/`set_internal`/
  `ask_internal`/`modify_internal`/`lower_bound_internal`/`lower_bound_rev_internal` with the same absolute
  coordinates `(l, r, vl, vr)`, the same branch order, the same `push_at` / `merge_at` placement.
  `&mut self` becomes "return the new tree".  Queries push, so they return a tree as well.
* `Seg`          — `Segtree { n, data }` with the public API and its `assert!`s as `Except Panic`.
* `Spec`         — the plain-list specification (a `Vec<T>` with the same asserts).
-/
namespace Rlib.Segtree

/-- Operations of one `SegtreeItem<M>` implementation plus its observable algebra. -/
structure Item (T M A : Type) where
  /-- `SegtreeItem::merge(left, right)` -/
  merge  : T → T → T
  /-- `SegtreeItem::update(&mut self, left, right)`: new `self` (what `merge_at` / `rebuild_empty` call; the trait's
      default is `*self = merge(left, right)`, an item may override it) -/
  update : T → T → T → T
  /-- `SegtreeItem::modify(&mut self, m)` -/
  modify : T → M → T
  /-- `SegtreeItem::push(&mut self, left, right)`: new `(self, left, right)` -/
  push   : T → T → T → T × T × T
  /-- `Default::default()` (initial carry of the boundary searches) -/
  dflt   : T
  /-- the semigroup the aggregates live in -/
  op     : A → A → A
  /-- observable value of an item (`.v`; `(.v, .len)` for `SumAdd`) -/
  val    : T → A
  /-- what the pending tag stored in an item still has to do to every element below it -/
  pa     : T → A → A
  /-- what a modifier does to one observable value -/
  act    : M → A → A

inductive Tree (T : Type) where
  | leaf : T → Tree T
  | node : T → Tree T → Tree T → Tree T
  deriving Repr

variable {T M A : Type}

def Tree.root : Tree T → T
  | .leaf v => v
  | .node v _ _ => v

def Tree.setRoot : Tree T → T → Tree T
  | .leaf _, v => .leaf v
  | .node _ l r, v => .node v l r

/-- number of leaves -/
def Tree.size : Tree T → Nat
  | .leaf _ => 1
  | .node _ l r => l.size + r.size

theorem Tree.size_pos (t : Tree T) : 0 < t.size := by
  induction t with
  | leaf v => simp [Tree.size]
  | node v l r ihl ihr => simp [Tree.size]; omega

@[simp] theorem size_setRoot (t : Tree T) (x : T) : (t.setRoot x).size = t.size := by
  cases t <;> rfl

variable (I : Item T M A)

/-- `push_at(i)` -/
def pushAt : Tree T → Tree T
  | .leaf v => .leaf v
  | .node v l r =>
    let p := I.push v l.root r.root
    .node p.1 (l.setRoot p.2.1) (r.setRoot p.2.2)

/-- `merge_at(i)`: `data[i].update(&data[2i+1], &data[2i+2])` -/
def mergeAt : Tree T → Tree T
  | .leaf v => .leaf v
  | .node v l r => .node (I.update v l.root r.root) l r

/-- `rebuild_empty(i, l, r)` on an array pre-filled with `v` (constructor `new`). -/
def buildEmpty (v : T) (l r : Nat) : Tree T :=
  if _h : l < r then
    mergeAt I (.node v (buildEmpty v l ((l + r) / 2)) (buildEmpty v ((l + r) / 2 + 1) r))
  else .leaf v
termination_by r - l
decreasing_by all_goals omega

/-- `rebuild(i, l, r, iter)` (constructors `from_slice`, `from_iter`): consumes the iterator in order;
    `d` is the value `new_raw` pre-filled the array with (overwritten everywhere). Returns the rest of
    the iterator. -/
def build (d : T) (l r : Nat) (xs : List T) : Except Panic (Tree T × List T) :=
  if _h : l < r then
    match build d l ((l + r) / 2) xs with
    | .error e => .error e
    | .ok (lt, xs1) =>
      match build d ((l + r) / 2 + 1) r xs1 with
      | .error e => .error e
      | .ok (rt, xs2) => .ok (mergeAt I (.node d lt rt), xs2)
  else
    match xs with
    | [] => .error .unwrap          -- `data.next().unwrap()`
    | x :: rest => .ok (.leaf x, rest)
termination_by r - l
decreasing_by all_goals omega

/-- `set_internal(ind, value, i, vl, vr)` -/
def setI (t : Tree T) (ind : Nat) (x : T) (vl vr : Nat) : Tree T :=
  match t with
  | .leaf _ => .leaf x
  | .node v lt rt =>
    let p := I.push v lt.root rt.root
    let lt' := lt.setRoot p.2.1
    let rt' := rt.setRoot p.2.2
    let m := (vl + vr) / 2
    if ind ≤ m then
      mergeAt I (.node p.1 (setI lt' ind x vl m) rt')
    else
      mergeAt I (.node p.1 lt' (setI rt' ind x (m+1) vr))
termination_by t.size
decreasing_by all_goals (simp [Tree.size]; have := Tree.size_pos rt; have := Tree.size_pos lt; omega)

/-- `ask_internal(l, r, i, vl, vr)`: result and the tree after the pushes (no re-merge, as in the code). -/
def ask (t : Tree T) (l r vl vr : Nat) : T × Tree T :=
  match t with
  | .leaf v => (v, .leaf v)
  | .node v lt rt =>
    if l = vl ∧ r = vr then (v, .node v lt rt) else
    let p := I.push v lt.root rt.root
    let lt' := lt.setRoot p.2.1
    let rt' := rt.setRoot p.2.2
    let m := (vl + vr) / 2
    if r ≤ m then
      let q := ask lt' l r vl m
      (q.1, .node p.1 q.2 rt')
    else if l > m then
      let q := ask rt' l r (m+1) vr
      (q.1, .node p.1 lt' q.2)
    else
      let q1 := ask lt' l m vl m
      let q2 := ask rt' (m+1) r (m+1) vr
      (I.merge q1.1 q2.1, .node p.1 q1.2 q2.2)
termination_by t.size
decreasing_by all_goals (simp [Tree.size]; have := Tree.size_pos rt; have := Tree.size_pos lt; omega)

/-- `modify_internal(l, r, md, i, vl, vr)` -/
def modifyI (t : Tree T) (l r : Nat) (md : M) (vl vr : Nat) : Tree T :=
  match t with
  | .leaf v => .leaf (I.modify v md)
  | .node v lt rt =>
    if l = vl ∧ r = vr then .node (I.modify v md) lt rt else
    let p := I.push v lt.root rt.root
    let lt' := lt.setRoot p.2.1
    let rt' := rt.setRoot p.2.2
    let m := (vl + vr) / 2
    if r ≤ m then
      mergeAt I (.node p.1 (modifyI lt' l r md vl m) rt')
    else if l > m then
      mergeAt I (.node p.1 lt' (modifyI rt' l r md (m+1) vr))
    else
      mergeAt I (.node p.1 (modifyI lt' l m md vl m) (modifyI rt' (m+1) r md (m+1) vr))
termination_by t.size
decreasing_by all_goals (simp [Tree.size]; have := Tree.size_pos rt; have := Tree.size_pos lt; omega)

/-- Result of a boundary search: the carried aggregate, the answer, the tree after the pushes and the
    probe log: every value the predicate was applied to, in call order, each paired with the (ghost)
    end point of the node it was computed at (`vr` for `lower_bound`, `vl` for `lower_bound_rev`). -/
structure LbRes (T : Type) where
  carry : T
  res   : Option Nat
  tree  : Tree T
  log   : List (Nat × T)

/-- `lower_bound_internal(item, f, l, r, i, vl, vr)`; `r = vr` in every call, so it is not a parameter. -/
def lb (t : Tree T) (item : T) (f : T → Bool) (l vl vr : Nat) : LbRes T :=
  match t with
  | .leaf v =>
    let next := I.merge item v
    if f next then ⟨next, some vl, .leaf v, [(vr, next)]⟩ else ⟨next, none, .leaf v, [(vr, next)]⟩
  | .node v lt rt =>
    if l = vl ∧ ¬ f (I.merge item v) then ⟨I.merge item v, none, .node v lt rt, [(vr, I.merge item v)]⟩ else
    let pre : List (Nat × T) := if l = vl then [(vr, I.merge item v)] else []
    let p := I.push v lt.root rt.root
    let lt' := lt.setRoot p.2.1
    let rt' := rt.setRoot p.2.2
    let m := (vl + vr) / 2
    if l ≤ m then
      let q := lb lt' item f l vl m
      match q.res with
      | some i => ⟨q.carry, some i, .node p.1 q.tree rt', pre ++ q.log⟩
      | none =>
        let q2 := lb rt' q.carry f (max l (m+1)) (m+1) vr
        ⟨q2.carry, q2.res, .node p.1 q.tree q2.tree, pre ++ (q.log ++ q2.log)⟩
    else
      let q2 := lb rt' item f (max l (m+1)) (m+1) vr
      ⟨q2.carry, q2.res, .node p.1 lt' q2.tree, pre ++ q2.log⟩
termination_by t.size
decreasing_by all_goals (simp [Tree.size]; have := Tree.size_pos rt; have := Tree.size_pos lt; omega)

/-- `lower_bound_rev_internal(item, f, l, r, i, vl, vr)`; `l = vl` in every call, so it is not a parameter. -/
def lbr (t : Tree T) (item : T) (f : T → Bool) (r vl vr : Nat) : LbRes T :=
  match t with
  | .leaf v =>
    let next := I.merge v item
    if f next then ⟨next, some vl, .leaf v, [(vl, next)]⟩ else ⟨next, none, .leaf v, [(vl, next)]⟩
  | .node v lt rt =>
    if r = vr ∧ ¬ f (I.merge v item) then ⟨I.merge v item, none, .node v lt rt, [(vl, I.merge v item)]⟩ else
    let pre : List (Nat × T) := if r = vr then [(vl, I.merge v item)] else []
    let p := I.push v lt.root rt.root
    let lt' := lt.setRoot p.2.1
    let rt' := rt.setRoot p.2.2
    let m := (vl + vr) / 2
    if r > m then
      let q := lbr rt' item f r (m+1) vr
      match q.res with
      | some i => ⟨q.carry, some i, .node p.1 lt' q.tree, pre ++ q.log⟩
      | none =>
        let q2 := lbr lt' q.carry f (min r m) vl m
        ⟨q2.carry, q2.res, .node p.1 q2.tree q.tree, pre ++ (q.log ++ q2.log)⟩
    else
      let q2 := lbr lt' item f (min r m) vl m
      ⟨q2.carry, q2.res, .node p.1 q2.tree rt', pre ++ q2.log⟩
termination_by t.size
decreasing_by all_goals (simp [Tree.size]; have := Tree.size_pos rt; have := Tree.size_pos lt; omega)

/-! ### The public API: `Segtree { n, data }` -/

structure Seg (T : Type) where
  n : Nat
  t : Tree T

/-- `Segtree::new(n, value)`: `new_raw` asserts `n != 0`. -/
def Seg.new (n : Nat) (v : T) : Except Panic (Seg T) :=
  if n = 0 then .error .assert else .ok ⟨n, buildEmpty I v 0 (n - 1)⟩

/-- `Segtree::from_slice(data)`: `data[0]` is evaluated first (index panic on an empty slice). -/
def Seg.fromSlice (xs : List T) : Except Panic (Seg T) :=
  match xs with
  | [] => .error .index
  | x :: _ =>
    match build I x 0 (xs.length - 1) xs with
    | .error e => .error e
    | .ok (t, _) => .ok ⟨xs.length, t⟩

/-- `Segtree::from_iter(iter)`: `new_raw(iter.len(), T::default())` asserts `n != 0`. -/
def Seg.fromIter (xs : List T) : Except Panic (Seg T) :=
  if xs.length = 0 then .error .assert else
  match build I I.dflt 0 (xs.length - 1) xs with
  | .error e => .error e
  | .ok (t, _) => .ok ⟨xs.length, t⟩

def Seg.set (s : Seg T) (ind : Nat) (x : T) : Except Panic (Seg T) :=
  if ind < s.n then .ok ⟨s.n, setI I s.t ind x 0 (s.n - 1)⟩ else .error .assert

def Seg.ask (s : Seg T) (l r : Nat) : Except Panic (T × Seg T) :=
  if ¬ l ≤ r then .error .assert
  else if ¬ r < s.n then .error .assert
  else let q := Segtree.ask I s.t l r 0 (s.n - 1); .ok (q.1, ⟨s.n, q.2⟩)

def Seg.modify (s : Seg T) (l r : Nat) (md : M) : Except Panic (Seg T) :=
  if ¬ l ≤ r then .error .assert
  else if ¬ r < s.n then .error .assert
  else .ok ⟨s.n, modifyI I s.t l r md 0 (s.n - 1)⟩

/-- `lower_bound(l, f)`: answer, probe log (in call order), new tree. No assert in the code: `l < n` is a
    precondition of the property (outside it the code walks off the array; not modelled). -/
def Seg.lowerBound (s : Seg T) (l : Nat) (f : T → Bool) : Option Nat × List (Nat × T) × Seg T :=
  let q := lb I s.t I.dflt f l 0 (s.n - 1)
  (q.res, q.log, ⟨s.n, q.tree⟩)

/-- `lower_bound_rev(r, f)` -/
def Seg.lowerBoundRev (s : Seg T) (r : Nat) (f : T → Bool) : Option Nat × List (Nat × T) × Seg T :=
  let q := lbr I s.t I.dflt f r 0 (s.n - 1)
  (q.res, q.log, ⟨s.n, q.tree⟩)

/-- the loop of `debug()`: `(i..n).map(|i| self.ask(i, i))`, every ask pushing -/
def debugLoop (n : Nat) (t : Tree T) (i fuel : Nat) : List T × Tree T :=
  match fuel with
  | 0 => ([], t)
  | fuel + 1 =>
    let q := ask I t i i 0 (n - 1)
    let rest := debugLoop n q.2 (i + 1) fuel
    (q.1 :: rest.1, rest.2)

/-- `debug()` without the formatting: the `n` single-element asks in order. -/
def Seg.debug (s : Seg T) : List T × Seg T :=
  let q := debugLoop I s.n s.t 0 s.n
  (q.1, ⟨s.n, q.2⟩)

/-! ### Plain-list specification -/

/-- positions `[a, b)` of a list -/
def slice {α : Type} (xs : List α) (a b : Nat) : List α := (xs.drop a).take (b - a)

/-- apply `f` to positions `[a, b)` -/
def mapRange {α : Type} (f : α → α) (a b : Nat) (xs : List α) : List α :=
  xs.take a ++ (slice xs a b).map f ++ xs.drop b

/-- left-to-right merge of a non-empty list of items -/
def foldMerge : List T → Option T
  | [] => none
  | x :: xs => some (xs.foldl I.merge x)

namespace Spec

/-- what the plain array answers for `ask(l, r)`: the left-to-right merge of `xs[l..=r]`, observed -/
def ask (xs : List T) (l r : Nat) : Except Panic A :=
  if h1 : ¬ l ≤ r then .error .assert
  else if h2 : ¬ r < xs.length then .error .assert
  else .ok (I.val ((slice xs (l + 1) (r + 1)).foldl I.merge (xs[l]'(by omega))))

def set (xs : List T) (i : Nat) (x : T) : Except Panic (List T) :=
  if i < xs.length then .ok (xs.set i x) else .error .assert

/-- range modification = the modifier applied to each covered element individually -/
def modify (xs : List T) (l r : Nat) (m : M) : Except Panic (List T) :=
  if ¬ l ≤ r then .error .assert
  else if ¬ r < xs.length then .error .assert
  else .ok (mapRange (fun x => I.modify x m) l (r + 1) xs)

/-- aggregate of `[l, r]` as the rightward search sees it: `default` merged with the elements left to right -/
def aggFwd (xs : List T) (l r : Nat) : T := (slice xs l (r + 1)).foldl I.merge I.dflt

/-- aggregate of `[l, r]` as the leftward search sees it: the elements merged right to left into `default` -/
def aggBwd (xs : List T) (l r : Nat) : T := (slice xs l (r + 1)).foldr I.merge I.dflt

/-- smallest `r ∈ [l, n)` with `f (aggregate of [l, r])`, by trying every `r` in increasing order -/
def first (xs : List T) (l : Nat) (f : T → Bool) : Option Nat :=
  (List.range' l (xs.length - l)).find? (fun r => f (aggFwd I xs l r))

/-- largest `l ∈ [0, r]` with `f (aggregate of [l, r])`, by trying every `l` in decreasing order -/
def last (xs : List T) (r : Nat) (f : T → Bool) : Option Nat :=
  (List.range' 0 (r + 1)).reverse.find? (fun l => f (aggBwd I xs l r))

/-- a list of flags of the form `false … false true … true` -/
def monoFlags : List Bool → Bool
  | [] => true
  | b :: bs => if b then bs.all id else monoFlags bs

/-- `f` is monotone along the ranges that start at `l`: once true it stays true when the range grows -/
def monoFwd (xs : List T) (l : Nat) (f : T → Bool) : Bool :=
  monoFlags ((List.range' l (xs.length - l)).map (fun r => f (aggFwd I xs l r)))

/-- `f` is monotone along the ranges that end at `r` -/
def monoBwd (xs : List T) (r : Nat) (f : T → Bool) : Bool :=
  monoFlags ((List.range' 0 (r + 1)).reverse.map (fun l => f (aggBwd I xs l r)))

end Spec

/-! ### Histories -/

/-- one public operation -/
inductive Op (T M : Type) where
  | set (i : Nat) (x : T)
  | modify (l r : Nat) (m : M)
  | ask (l r : Nat)
  | lb (l : Nat) (f : T → Bool)
  | lbr (r : Nat) (f : T → Bool)
  | dbg

/-- observable answer of one operation -/
inductive Ans (A : Type) where
  | done                       -- `set` / `modify` returned
  | panic (p : Panic)
  | val (a : A)                -- observable value of an `ask`
  | idx (o : Option Nat)       -- answer of a boundary search
  | vals (as : List A)         -- observable values of `debug()`
  deriving Repr, DecidableEq

/-- no boundary search in the operation (a search predicate on a `Combinator` need not factor through a component) -/
def Op.noSearch : Op T M → Bool
  | .lb _ _ => false
  | .lbr _ _ => false
  | _ => true

/-- the operation as the first / second component of a `Combinator` sees it -/
def Op.proj1 {U : Type} : Op (T × U) M → Op T M
  | .set i x => .set i x.1
  | .modify l r m => .modify l r m
  | .ask l r => .ask l r
  | .lb l _ => .lb l (fun _ => false)
  | .lbr r _ => .lbr r (fun _ => false)
  | .dbg => .dbg

def Op.proj2 {U : Type} : Op (T × U) M → Op U M
  | .set i x => .set i x.2
  | .modify l r m => .modify l r m
  | .ask l r => .ask l r
  | .lb l _ => .lb l (fun _ => false)
  | .lbr r _ => .lbr r (fun _ => false)
  | .dbg => .dbg

/-- two answers side by side -/
def Ans.pair {B : Type} : Ans A → Ans B → Ans (A × B)
  | .done, .done => .done
  | .panic p, .panic _ => .panic p
  | .val a, .val b => .val (a, b)
  | .idx o, .idx _ => .idx o
  | .vals as, .vals bs => .vals (List.zip as bs)
  | _, _ => .panic .fuel

def Ans.pairs {B : Type} : List (Ans A) → List (Ans B) → List (Ans (A × B))
  | a :: as, b :: bs => Ans.pair a b :: Ans.pairs as bs
  | _, _ => []

/-- one step of the model: answer and next state -/
def Seg.step (s : Seg T) : Op T M → Ans A × Seg T
  | .set i x => match s.set I i x with
    | .ok s' => (.done, s')
    | .error e => (.panic e, s)
  | .modify l r m => match s.modify I l r m with
    | .ok s' => (.done, s')
    | .error e => (.panic e, s)
  | .ask l r => match s.ask I l r with
    | .ok (x, s') => (.val (I.val x), s')
    | .error e => (.panic e, s)
  | .lb l f => let q := s.lowerBound I l f; (.idx q.1, q.2.2)
  | .lbr r f => let q := s.lowerBoundRev I r f; (.idx q.1, q.2.2)
  | .dbg => let q := s.debug I; (.vals (q.1.map I.val), q.2)

def Seg.run (s : Seg T) : List (Op T M) → List (Ans A)
  | [] => []
  | o :: os => let q := s.step I o; q.1 :: Seg.run q.2 os

/-- one step of the plain-list specification -/
def Spec.step (xs : List T) : Op T M → Ans A × List T
  | .set i x => match Spec.set xs i x with
    | .ok xs' => (.done, xs')
    | .error e => (.panic e, xs)
  | .modify l r m => match Spec.modify I xs l r m with
    | .ok xs' => (.done, xs')
    | .error e => (.panic e, xs)
  | .ask l r => match Spec.ask I xs l r with
    | .ok a => (.val a, xs)
    | .error e => (.panic e, xs)
  | .lb l f => (.idx (Spec.first I xs l f), xs)
  | .lbr r f => (.idx (Spec.last I xs r f), xs)
  | .dbg => (.vals (xs.map I.val), xs)

def Spec.run (xs : List T) : List (Op T M) → List (Ans A)
  | [] => []
  | o :: os => let q := Spec.step I xs o; q.1 :: Spec.run q.2 os

end Rlib.Segtree
