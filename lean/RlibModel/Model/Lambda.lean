import RlibModel.Model.Common
/-
Model of `rlib/lambda/src/lib.rs` (`rec_lambda!`), property C20.

Part 1 — the macros, rule by rule, as a step function on an abstract token stream.
  A token (`Tok`) is what one matcher fragment of the macro rules consumes:
    `cap v m`   the four/five tokens  `v : & T`  /  `v : & mut T`   (matched by `$var:ident:&[mut] $var_type:ty`)
    `arg v`     the tokens            `v : T`                       (matched by `$var:ident:$var_type:ty`)
    `comma` `bar` `oror`              `,`  `|`  `||`   (`||` is ONE token for rustc's macro matcher, which is
                                       why `rec_lambda!` needs a separate arm for "no captures")
    `arrow t`   `-> T`
    `body`      the user's block `{ ... }` (opaque)
    `group ts`  a `{ ... }` delimited group whose content the macro looks into (`{|$($rem:tt)*}`)
  Types ride along with the names inside the same repetition variable and are not modelled.
  `step` is one macro expansion step: the FIRST arm (in source order) whose pattern matches the token
  stream fires; `none` = "no rules expected this token" (the expansion is stuck = compile error).

Part 2 — what the emitted code means: positional parameter binding (`bind`), the inner `fn`
  evaluated over frames of slots (`evalG`, `closureG`), against the explicit recursion the user
  means (`evalE`): the body refers directly to its own arguments and to the captured variables.

What is NOT modelled (residue, exercised by compiling generated programs): rustc's macro matcher
(fragment parsers, follow sets, `$dol` trick, hygiene), the type checker and the borrow checker.
-/
namespace Rlib.Lambda

abbrev Name := String
abbrev Ty := String

/-- How a parameter of the inner `fn` receives its value. -/
inductive Kind where
  | arg       -- by value: one of the closure's own arguments
  | shared    -- `&T`
  | mutable   -- `&mut T`
  deriving DecidableEq, Repr, Inhabited

/-- An invocation `rec_lambda!(name, |caps…| { |args…| [-> ret] { body } })`.
    `caps`: captured variables in the order written, `true` = `&mut`. -/
structure Inv where
  caps : List (Name × Bool)
  args : List Name
  ret : Option Ty
  deriving Repr, Inhabited

/-! ## Part 1: token streams and the three munchers -/

inductive Tok where
  | cap (v : Name) (m : Bool)
  | arg (v : Name)
  | comma
  | bar
  | oror
  | arrow (t : Ty)
  | body
  | group (ts : List Tok)
  deriving Repr, Inhabited

/-- `a: A, b: B, …, z: Z|` followed by `rest` (the closure's argument list up to the closing bar). -/
def argToks : List Name → List Tok → List Tok
  | [], rest => .bar :: rest
  | [a], rest => .arg a :: .bar :: rest
  | a :: as, rest => .arg a :: .comma :: argToks as rest

/-- `x: &X, y: &mut Y, …|` followed by `rest`. -/
def capToks : List (Name × Bool) → List Tok → List Tok
  | [], rest => .bar :: rest
  | [(v, m)], rest => .cap v m :: .bar :: rest
  | (v, m) :: cs, rest => .cap v m :: .comma :: capToks cs rest

/-- `[-> R] { body }`. -/
def retToks : Option Ty → List Tok
  | none => [.body]
  | some t => [.arrow t, .body]

/-- The inner closure written by the user: `|args…| [-> R] { body }`; zero arguments are written `||`. -/
def lambdaToks (args : List Name) (ret : Option Ty) : List Tok :=
  match args with
  | [] => .oror :: retToks ret
  | _ => .bar :: argToks args (retToks ret)

/-- The token stream after `$name ,` of an invocation, as the user writes it
    (`rec_lambda!(f, |x: &X, y: &mut Y| { |a: A, b: B| -> R { … } })`). -/
def invTokens (inv : Inv) : List Tok :=
  match inv.caps with
  | [] => [.oror, .group (lambdaToks inv.args inv.ret)]
  | cs => .bar :: capToks cs [.group (lambdaToks inv.args inv.ret)]

/-- What `_rec_lambda_2_` emits (only the wiring; the body is pasted unchanged into the inner fn). -/
structure Expansion where
  /-- `fn _lambda_name_($($arg:$arg_type,)* $($const_var_name:&$const_var_type,)* $($mut_var_name:&mut $mut_var_type,)*)` -/
  params : List (Name × Kind)
  /-- `-> $ret` -/
  ret : Ty
  /-- second arm of the local macro: `_lambda_name_($($x,)* $($const_var_name,)* $($mut_var_name,)*)`: what follows the `$x`s -/
  recCallTail : List (Name × Kind)
  /-- `|$($arg: $arg_type,)*|` -/
  closureParams : List Name
  /-- `_lambda_name_($($arg,)* …` -/
  closureCallArgs : List Name
  /-- `… $(&$const_var_name,)* $(&mut $mut_var_name,)*)`: the kind records the borrow operator written -/
  closureCallTail : List (Name × Kind)
  deriving Repr, Inhabited, DecidableEq

/-- State of the expansion: which macro is being invoked with which accumulator lists
    (`[$($const_var_name…,)*]`, `[$($mut_var_name…,)*]`, `[$($arg…,)*]`) and which remaining tokens. -/
inductive St where
  | entry (rem : List Tok)                                   -- rec_lambda!($name, rem…)
  | m0 (cs ms as : List Name) (rem : List Tok)               -- _rec_lambda_0_!($name, [cs], [ms], [as], rem…)
  | m1 (cs ms as : List Name) (rem : List Tok)               -- _rec_lambda_1_!($name, [cs], [ms], [as], rem…)
  | m2 (ret : Ty) (cs ms as : List Name)                     -- _rec_lambda_2_!($name, ret, [cs], [ms], [as], {body}, $)
  | done (e : Expansion)
  deriving Repr, Inhabited

/-- `_rec_lambda_2_`: the single arm. -/
def emit (ret : Ty) (cs ms as : List Name) : Expansion :=
  { params := as.map (·, Kind.arg) ++ cs.map (·, Kind.shared) ++ ms.map (·, Kind.mutable)
    ret := ret
    recCallTail := cs.map (·, Kind.shared) ++ ms.map (·, Kind.mutable)
    closureParams := as
    closureCallArgs := as
    closureCallTail := cs.map (·, Kind.shared) ++ ms.map (·, Kind.mutable) }

/-- One macro-expansion step; arms in source order, first match wins. -/
def step : St → Option St
  -- rec_lambda!, arm 1:  ($name:ident, || {|$($rem:tt)*})  =>  _rec_lambda_1_!($name, [], [], [], $($rem)*)
  | .entry [.oror, .group (.bar :: rem)] => some (.m1 [] [] [] rem)
  -- rec_lambda!, arm 2:  ($name:ident, |$($rem:tt)*)        =>  _rec_lambda_0_!($name, [], [], [], $($rem)*)
  | .entry (.bar :: rem) => some (.m0 [] [] [] rem)
  | .entry _ => none
  -- _rec_lambda_0_, arm 1:  … $var:ident:&mut $var_type:ty, $($rem:tt)*   => _0_!(…, [cs], [$var, ms], [as], rem)
  | .m0 cs ms as (.cap v true :: .comma :: rem) => some (.m0 cs (v :: ms) as rem)
  -- _rec_lambda_0_, arm 2:  … $var:ident:&$var_type:ty, $($rem:tt)*      => _0_!(…, [$var, cs], [ms], [as], rem)
  | .m0 cs ms as (.cap v false :: .comma :: rem) => some (.m0 (v :: cs) ms as rem)
  -- _rec_lambda_0_, arm 3:  … $var:ident:&mut $var_type:ty| {|$($rem:tt)*} => _1_!(…, [cs], [$var, ms], [as], rem)
  | .m0 cs ms as [.cap v true, .bar, .group (.bar :: rem)] => some (.m1 cs (v :: ms) as rem)
  -- _rec_lambda_0_, arm 4:  … $var:ident:&$var_type:ty| {|$($rem:tt)*}    => _1_!(…, [$var, cs], [ms], [as], rem)
  | .m0 cs ms as [.cap v false, .bar, .group (.bar :: rem)] => some (.m1 (v :: cs) ms as rem)
  | .m0 _ _ _ _ => none
  -- _rec_lambda_1_, arm 1:  … $var:ident:$var_type:ty, $($rem:tt)*       => _1_!(…, [cs], [ms], [as $var,], rem)
  | .m1 cs ms as (.arg v :: .comma :: rem) => some (.m1 cs ms (as ++ [v]) rem)
  -- _rec_lambda_1_, arm 2:  … $var:ident:$var_type:ty| -> $ret:ty {$($rem:tt)*} => _2_!($name, $ret, [cs], [ms], [as $var,], {rem}, $)
  | .m1 cs ms as [.arg v, .bar, .arrow t, .body] => some (.m2 t cs ms (as ++ [v]))
  -- _rec_lambda_1_, arm 3:  … $var:ident:$var_type:ty| {$($rem:tt)*}     => _2_!($name, (), [cs], [ms], [as $var,], {rem}, $)
  | .m1 cs ms as [.arg v, .bar, .body] => some (.m2 "()" cs ms (as ++ [v]))
  | .m1 _ _ _ _ => none
  -- _rec_lambda_2_ (one arm): emits the block { fn _lambda_name_ … ; |args| _lambda_name_(…) }
  | .m2 ret cs ms as => some (.done (emit ret cs ms as))
  | .done _ => none

/-- `n` expansion steps (`none` as soon as one is stuck). -/
def iter : Nat → St → Option St
  | 0, st => some st
  | n + 1, st => (step st).bind (iter n)

/-- Expand until `_rec_lambda_2_` has emitted, within `fuel` steps; also returns the number of steps used. -/
def runMacro : Nat → Nat → St → Option (Expansion × Nat)
  | _, used, .done e => some (e, used)
  | 0, _, _ => none
  | fuel + 1, used, st => (step st).bind (runMacro fuel (used + 1))

/-- The full expansion of an invocation (`none`: stuck, i.e. rustc reports "no rules expected the token"). -/
def expandSteps (inv : Inv) : Option (Expansion × Nat) :=
  runMacro (inv.caps.length + inv.args.length + 2) 0 (.entry (invTokens inv))

def expand (inv : Inv) : Option Expansion := (expandSteps inv).map (·.1)

/-! ### Specification of the wiring (closed form, no token munching) -/

/-- Names of the shared captures, in declared order. -/
def sharedOf (caps : List (Name × Bool)) : List Name := (caps.filter (fun c => !c.2)).map (·.1)
/-- Names of the mutable captures, in declared order. -/
def mutOf (caps : List (Name × Bool)) : List Name := (caps.filter (fun c => c.2)).map (·.1)

def kindOfMut (m : Bool) : Kind := if m then .mutable else .shared

/-- A declared capture as a parameter of the inner fn: its name with its declared mutability. -/
def capParam (c : Name × Bool) : Name × Kind := (c.1, kindOfMut c.2)

/-- The capture tail every site must use: shared captures in REVERSE declared order, then the
    mutable captures in REVERSE declared order (both lists are built by prepending). -/
def specTail (caps : List (Name × Bool)) : List (Name × Kind) :=
  (sharedOf caps).reverse.map (·, Kind.shared) ++ (mutOf caps).reverse.map (·, Kind.mutable)

def specExpansion (inv : Inv) : Expansion :=
  { params := inv.args.map (·, Kind.arg) ++ specTail inv.caps
    ret := inv.ret.getD "()"
    recCallTail := specTail inv.caps
    closureParams := inv.args
    closureCallArgs := inv.args
    closureCallTail := specTail inv.caps }

/-- The shapes the property speaks about: at least one argument, all names pairwise distinct. -/
def Supported (inv : Inv) : Prop := inv.args ≠ [] ∧ (inv.caps.map (·.1) ++ inv.args).Nodup

instance (inv : Inv) : Decidable (Supported inv) := by unfold Supported; exact inferInstance

/-! ### The local macro `name!` (both call syntaxes), as a matcher on the call's token stream -/

/-- Tokens between the parentheses of a recursive call `name!( … )`: `α` = the user's argument
    expressions (each consumed whole by an `$x:expr` fragment), and commas. -/
inductive CTok (α : Type) where
  | expr (e : α)
  | comma
  deriving Repr

/-- What the user writes: `e₁, e₂, …, eₙ` and, if `tc` (and n ≥ 1), a trailing comma. -/
def callToks {α} : List α → Bool → List (CTok α)
  | [], _ => []
  | [x], tc => .expr x :: (if tc then [.comma] else [])
  | x :: y :: xs, tc => .expr x :: .comma :: callToks (y :: xs) tc

/-- `$(,$x:expr)*` up to the end of the input. `, <end>` does not match: the matcher has entered the
    repetition and runs out of tokens (rustc: a soft failure, the next arm is tried). -/
def matchCommaExprs {α} : List (CTok α) → Option (List α)
  | [] => some []
  | .comma :: .expr x :: rest => (matchCommaExprs rest).map (x :: ·)
  | _ => none

/-- Pattern of arm 1: `($xf:expr $(,$x:expr)*)`. -/
def matchArm1 {α} : List (CTok α) → Option (α × List α)
  | .expr xf :: rest => (matchCommaExprs rest).map (xf, ·)
  | _ => none

/-- Pattern of arm 2: `($($x:expr,)*)`. -/
def matchArm2 {α} : List (CTok α) → Option (List α)
  | [] => some []
  | .expr x :: .comma :: rest => (matchArm2 rest).map (x :: ·)
  | _ => none

/-- Transcription of arm 1: `$name!($xf, $($x,)*)` — the tokens of the re-invocation. -/
def transcribeArm1 {α} (xf : α) (xs : List α) : List (CTok α) :=
  .expr xf :: .comma :: xs.flatMap (fun x => [.expr x, .comma])

/-- State of expanding one recursive call. -/
inductive CallSt (α : Type) where
  | inv (toks : List (CTok α))                               -- `name!(toks…)`
  | done (userArgs : List α) (tail : List (Name × Kind))     -- `_lambda_name_(userArgs…, tail…)`

/-- One expansion step of the local macro: the two arms in source order, first match wins.
    arm 1 `($xf:expr $(,$x:expr)*) => { $name!($xf, $($x,)*) }`
    arm 2 `($($x:expr,)*)          => { _lambda_name_($($x,)* $($const_var_name,)* $($mut_var_name,)*) }` -/
def callStep {α} (e : Expansion) : CallSt α → Option (CallSt α)
  | .inv toks =>
    match matchArm1 toks with
    | some (xf, xs) => some (.inv (transcribeArm1 xf xs))
    | none =>
      match matchArm2 toks with
      | some xs => some (.done xs e.recCallTail)
      | none => none
  | .done _ _ => none

def callIter {α} (e : Expansion) : Nat → CallSt α → Option (CallSt α)
  | 0, st => some st
  | n + 1, st => (callStep e st).bind (callIter e n)

/-- Expand a call until the inner fn is called, within `fuel` macro steps: the user's expressions as
    they arrive at `_lambda_name_`, the names appended after them, and the number of steps used. -/
def callRun {α} (e : Expansion) : Nat → Nat → CallSt α → Option (List α × List (Name × Kind) × Nat)
  | _, used, .done us t => some (us, t, used)
  | 0, _, _ => none
  | fuel + 1, used, st => (callStep e st).bind (callRun e fuel (used + 1))

/-- What a recursive call written with the expressions `xs` (trailing comma iff `tc`) expands to. -/
def expandCall {α} (e : Expansion) (xs : List α) (tc : Bool) : Option (List α × List (Name × Kind)) :=
  (callRun e 2 0 (.inv (callToks xs tc))).map fun r => (r.1, r.2.1)

/-! ## Part 2: semantics of the emitted wiring vs explicit recursion -/

abbrev Val := Int

/-- The variables of the enclosing scope (the captured variables live here). -/
abbrev Store := Name → Val

def Store.set (s : Store) (n : Name) (v : Val) : Store := fun m => if m = n then v else s m

/-- Things that rustc would reject, plus the evaluator's fuel. -/
inductive Err where
  | fuel
  | unbound (n : Name)       -- name not in scope
  | notMutable (n : Name)    -- assignment through something that is not `&mut`
  | arity                    -- wrong number of arguments in a call
  | kind (n : Name)          -- argument of the wrong kind for parameter `n` (value / `&` / `&mut` mismatch)
  | noRule                   -- no arm of the local macro matches the call's tokens
  deriving Repr, DecidableEq, Inhabited

/-- An abstract body of the recursive closure: a finite interaction tree. It may read any name in
    scope (argument or capture; references are auto-dereferenced), assign through a mutable capture,
    call itself with any argument values any number of times in either call syntax, and continue depending on the results.
    Every Lean function into this type is a body, so the theorems quantify over all such bodies. -/
inductive Body where
  | ret (v : Val)
  | read (n : Name) (k : Val → Body)
  | write (n : Name) (v : Val) (k : Body)
  | call (tc : Bool) (vs : List Val) (k : Val → Body)     -- `name!(vs…)`, written with a trailing comma iff `tc`

abbrev Res := Except Err (Val × Store)

/-! ### Explicit recursion (what the user means) -/

/-- One activation of the explicit recursive function: the body's names are its own arguments
    (`argNames` bound positionally to `argVals`) and otherwise the captured variables themselves. -/
def runE (caps : List (Name × Bool)) (callee : List Val → Store → Res) (af : List (Name × Val)) :
    Body → Store → Res
  | .ret v, s => .ok (v, s)
  | .read n k, s =>
    match af.lookup n with
    | some v => runE caps callee af (k v) s
    | none =>
      match caps.lookup n with
      | some _ => runE caps callee af (k (s n)) s
      | none => .error (.unbound n)
  | .write n v k, s =>
    match af.lookup n with
    | some _ => .error (.notMutable n)
    | none =>
      match caps.lookup n with
      | some true => runE caps callee af k (s.set n v)
      | some false => .error (.notMutable n)
      | none => .error (.unbound n)
  | .call _ vs k, s =>
    match callee vs s with
    | .ok (r, s') => runE caps callee af (k r) s'
    | .error e => .error e

/-- Positional binding of argument names to values. -/
def bindVals : List Name → List Val → Option (List (Name × Val))
  | [], [] => some []
  | n :: ns, v :: vs => (bindVals ns vs).map ((n, v) :: ·)
  | _, _ => none

/-- The explicit recursive function with `fuel` nested activations allowed (a call with the wrong
    number of arguments is an error, whatever the fuel). -/
def evalE (inv : Inv) (body : Body) (fuel : Nat) (vs : List Val) (s : Store) : Res :=
  match bindVals inv.args vs with
  | none => .error .arity
  | some af =>
    match fuel with
    | 0 => .error .fuel
    | fuel + 1 => runE inv.caps (evalE inv body fuel) af body s

/-! ### The generated code -/

/-- What a parameter of the inner `fn` holds: a value, or a reference to a variable of the enclosing scope. -/
inductive Slot where
  | val (v : Val)
  | ref (loc : Name) (mutable : Bool)
  deriving Repr, DecidableEq, Inhabited

abbrev Frame := List (Name × Slot)

def kindOk : Kind → Slot → Bool
  | .arg, .val _ => true
  | .shared, .ref _ false => true
  | .shared, .ref _ true => true        -- `&mut T` coerces to `&T`
  | .mutable, .ref _ true => true
  | _, _ => false

/-- What the parameter holds after the call: passing `&mut` where `&` is declared reborrows shared. -/
def coerce : Kind → Slot → Slot
  | .shared, .ref l _ => .ref l false
  | _, x => x

/-- Positional binding, lists of equal length. -/
def bindGo : List (Name × Kind) → List Slot → Except Err Frame
  | [], [] => .ok []
  | (n, k) :: ps, x :: xs =>
    if kindOk k x then
      match bindGo ps xs with
      | .ok fr => .ok ((n, coerce k x) :: fr)
      | .error e => .error e
    else .error (.kind n)
  | _, _ => .error .arity

/-- Positional binding of a parameter list to the actual arguments of a call: the number of
    arguments is checked first, then every argument against the kind of its parameter. -/
def bind (ps : List (Name × Kind)) (xs : List Slot) : Except Err Frame :=
  if ps.length = xs.length then bindGo ps xs else .error .arity

/-- A plain name used as a call argument inside the inner fn: the parameter's content is passed on
    (a `&mut` parameter is reborrowed, a `&` parameter copied). -/
def passNames (fr : Frame) : List (Name × Kind) → Except Err (List Slot)
  | [] => .ok []
  | (n, _) :: rest =>
    match fr.lookup n with
    | none => .error (.unbound n)
    | some x =>
      match passNames fr rest with
      | .ok xs => .ok (x :: xs)
      | .error e => .error e

/-- One activation of `_lambda_name_`: names are looked up in the frame of its parameters. A recursive
    call goes through the local macro (`expandCall`, both arms, on the tokens of the call as written): user
    expressions first, then the appended names evaluated in this frame. -/
def runG (e : Expansion) (callee : List Slot → Store → Res) (fr : Frame) : Body → Store → Res
  | .ret v, s => .ok (v, s)
  | .read n k, s =>
    match fr.lookup n with
    | some (.val v) => runG e callee fr (k v) s
    | some (.ref l _) => runG e callee fr (k (s l)) s
    | none => .error (.unbound n)
  | .write n v k, s =>
    match fr.lookup n with
    | some (.ref l true) => runG e callee fr k (s.set l v)
    | some _ => .error (.notMutable n)
    | none => .error (.unbound n)
  | .call tc vs k, s =>
    match expandCall e vs tc with                      -- the local macro, run on the call's tokens
    | none => .error .noRule
    | some (us, names) =>
      match passNames fr names with
      | .error er => .error er
      | .ok tail =>
        match callee (us.map Slot.val ++ tail) s with
        | .ok (r, s') => runG e callee fr (k r) s'
        | .error er => .error er

/-- The inner `fn _lambda_name_` with `fuel` nested activations allowed. -/
def evalG (e : Expansion) (body : Body) (fuel : Nat) (xs : List Slot) (s : Store) : Res :=
  match bind e.params xs with
  | .error er => .error er
  | .ok fr =>
    match fuel with
    | 0 => .error .fuel
    | fuel + 1 => runG e (evalG e body fuel) fr body s

/-- The borrow operators written at the closure site, evaluated in the ENCLOSING scope, where every
    captured name denotes the captured variable itself. -/
def borrowOuter (s : Store) : Name × Kind → Slot
  | (n, .shared) => .ref n false
  | (n, .mutable) => .ref n true
  | (n, .arg) => .val (s n)

/-- The closure the macro returns: `|params| _lambda_name_(callArgs…, &c…, &mut m…)`. -/
def closureG (e : Expansion) (body : Body) (fuel : Nat) (vs : List Val) (s : Store) : Res :=
  match bindVals e.closureParams vs with
  | none => .error .arity
  | some cf =>
    match e.closureCallArgs.mapM (fun a => cf.lookup a) with
    | none => .error .arity
    | some avs => evalG e body fuel (avs.map Slot.val ++ e.closureCallTail.map (borrowOuter s)) s

/-! ## Part 3: what a name denotes (value namespace) in the generated code vs in the explicit recursion

`macro_rules!` hygiene covers local variables and labels only: the ITEM the expansion declares (the inner fn) is visible to
the user's body under its name, and the user's parameters are visible to the tokens of the local macro. The recursion's name
given by the user names the local MACRO and therefore lives in the macro namespace only - it does not occur below. -/

/-- What an identifier used as a value denotes. -/
inductive Ent where
  | loc (n : Name)       -- a `let` of the body
  | param (n : Name)     -- a parameter of the (inner / explicit) fn: an argument or a capture
  | hiddenFn             -- the fn item declared by the block the macro expands to
  | outer (n : Name)     -- whatever `n` means in the scope enclosing the invocation (free fn, const, prelude name, outer `let`, …)
  deriving DecidableEq, Repr, Inhabited

/-- The name `_rec_lambda_2_` gives the inner fn: a fixed identifier, independent of the invocation. -/
def hiddenName : Name := "_lambda_name_"

/-- An identifier written by the user in the body, at a point where the `let`s `locals` of the body are in scope, in the
    GENERATED code (`hidden` = the name of the inner fn): `let`s of the body, then the inner fn's parameters, then the items of
    the block the macro expands to (the inner fn), then the enclosing scope. -/
def resolveG (hidden : Name) (e : Expansion) (locals : List Name) (x : Name) : Ent :=
  if x ∈ locals then .loc x
  else if x ∈ e.params.map (·.1) then .param x
  else if x = hidden then .hiddenFn
  else .outer x

/-- An identifier in the transcription of the local macro (the callee, the appended capture names): hygiene resolves it where the
    macro is DEFINED - at the top of the inner fn's body: its parameters are in scope, no `let` of the body is. -/
def resolveCallG (hidden : Name) (e : Expansion) (x : Name) : Ent := resolveG hidden e [] x

/-- The same identifier in the explicit recursion the user means: `let`s of the body, its own parameters (arguments and
    captures), else the enclosing scope. (The explicit fn's own name is not a name of the user's program.) -/
def resolveE (inv : Inv) (locals : List Name) (x : Name) : Ent :=
  if x ∈ locals then .loc x
  else if x ∈ inv.args ++ inv.caps.map (·.1) then .param x
  else .outer x

/-! ## Part 4: long-running use - histories of outer calls of several closures alive on one thread

A `Body` may `ret` at ANY node: an explicit `return`, a `?` that propagates, a `break` out of a labelled block that is the
function's last expression, and falling off the end are all the same node, so every theorem about bodies already ranges over
early exits. What is new here is time: many outer calls, of several closures, one after the other on one thread. In the explicit
recursion the ONLY thing that connects two calls is the store (the captured variables); `histG` says the same of the generated
closures - no counter, cache or guard that survives a call. -/

/-- A closure alive in the enclosing scope: its invocation, its body, and how deep it may recurse (stack budget). -/
structure Live where
  inv : Inv
  body : Body
  fuel : Nat

/-- One outer call: the closure at position `i` of the live ones is called with the argument values `vs`. -/
abbrev Event := Nat × List Val

/-- The events in order for the EXPLICIT recursive functions: results in order and the final store. A failing call
    (an error of the model, or out of fuel = stack overflow) ends the history with that error. -/
def histE (ls : List Live) : List Event → Store → Except Err (List Val × Store)
  | [], s => .ok ([], s)
  | (i, vs) :: evs, s =>
    match ls[i]? with
    | none => .error (.unbound "closure")
    | some l =>
      match evalE l.inv l.body l.fuel vs s with
      | .error e => .error e
      | .ok (v, s') =>
        match histE ls evs s' with
        | .error e => .error e
        | .ok (rs, sf) => .ok (v :: rs, sf)

/-- The same history for the GENERATED closures: each live closure is what the token munchers expand its invocation to. -/
def histG (ls : List Live) : List Event → Store → Except Err (List Val × Store)
  | [], s => .ok ([], s)
  | (i, vs) :: evs, s =>
    match ls[i]? with
    | none => .error (.unbound "closure")
    | some l =>
      match expand l.inv with
      | none => .error .noRule
      | some e =>
        match closureG e l.body l.fuel vs s with
        | .error er => .error er
        | .ok (v, s') =>
          match histG ls evs s' with
          | .error er => .error er
          | .ok (rs, sf) => .ok (v :: rs, sf)

/-- Sequencing of two histories: what `evs₂` gives when started in the store `evs₁` left. -/
def histThen (r₁ : Except Err (List Val × Store)) (h₂ : Store → Except Err (List Val × Store)) : Except Err (List Val × Store) :=
  match r₁ with
  | .error e => .error e
  | .ok (rs₁, s₁) =>
    match h₂ s₁ with
    | .error e => .error e
    | .ok (rs₂, s₂) => .ok (rs₁ ++ rs₂, s₂)

end Rlib.Lambda
