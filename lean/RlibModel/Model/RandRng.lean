import RlibModel.Model.Rand
import RlibModel.Generated.RandParams
/-! `rlib_rand::Rng` = `LinearCongruentialGenerator64<A, C>` with the constants extracted from the
source (`Generated/RandParams.lean`, rewritten by `checks/C14.py` on every run). The driver executes
this generator; `Props/C14.lean` instantiates the generic theorems at it. -/
namespace Rlib.Rand

def rng : Gen :=
  { A := Params.lcgA, C := Params.lcgC, sh1 := Params.mixShift1, mul := Params.mixMul, sh2 := Params.mixShift2 }

end Rlib.Rand
