import RlibModel.Model.Iter
/-
Second part of the model of `rlib_iter` (property C15), core Lean only.

1. **The iterator protocol.**  Every function of the crate returns `impl Iterator<Item = …>`; a caller can consume
   such a value through any of `Iterator`'s methods, not only through `collect()`: `next`, `size_hint`, `nth`,
   `count`, `last`, `fold`, `for_each`, `min`, `max`, `min_by_key`, `sum`, `find`, `position`, `any`, `all`, … —
   also after the iterator has been advanced by hand.  An iterator type may override each of the *provided*
   methods; the property ("yields exactly this sequence") then speaks about what they return, too.
   The sequence an iterator still has to yield is a `List Elem` (an element is a list of integers: a mask is
   `[value in the notation of its type]`, an arrangement is itself, a grid cell is `[a, b]`; Rust's `Ord` on the
   three element types is the lexicographic order on these lists).
   * `std…` definitions: the **default bodies of std** (`library/core/src/iter/traits/iterator.rs`), written as
     the loops over `next()` they are (`next()` of a list-backed iterator is `nextL`: head and tail) — the model;
   * `spec…` definitions: what the methods mean (`length`, `getLast?`, `l[n]?` and `drop`, first least element,
     last greatest element, …) — the specification.
   `Lemmas/IterProto.lean` proves each pair equal (`stdSem_eq_specSem`), `Props/C15.lean` states it.
   A *script* is a sequence of such calls on one iterator; `runScript` interprets it (`none` as state = the
   iterator has returned `None` once or has been consumed by value; nothing is called after that).

2. **Long sequences with few arrangements** for `iter_permutations`: `arrangements` enumerates the distinct
   arrangements of a sorted multiset directly (first element = each distinct value in increasing order, rest =
   arrangements of what is left), without building all `n!` orderings; proved equal to `specPermutations`.
-/
namespace Rlib.Iter

abbrev Elem := List Int

/-- `Iterator::next` of an iterator that still has to yield the elements of `l`. -/
def nextL : List Elem → Option (Elem × List Elem)
  | [] => none
  | x :: r => some (x, r)

/-! ## std's default method bodies (loops over `next`) -/

/-- `fold`: `while let Some(x) = self.next() { accum = f(accum, x); }`. -/
def stdFold {β : Type} (f : β → Elem → β) : β → List Elem → β
  | acc, [] => acc
  | acc, x :: r => stdFold f (f acc x) r

/-- `count`: `self.fold(0, |count, _| count + 1)`. -/
def stdCount (l : List Elem) : Nat := stdFold (fun c _ => c + 1) 0 l

/-- `last`: `self.fold(None, |_, x| Some(x))`. -/
def stdLast (l : List Elem) : Option Elem := stdFold (fun _ x => some x) none l

/-- `fold` / `for_each` / `collect` pushing every element into a vector. -/
def stdCollect (l : List Elem) : List Elem := (stdFold (fun acc x => x :: acc) [] l).reverse

/-- `reduce(f)`: `let first = self.next()?; Some(self.fold(first, f))`. -/
def stdReduce (f : Elem → Elem → Elem) : List Elem → Option Elem
  | [] => none
  | x :: r => some (stdFold f x r)

/-- `min_by(compare)`: `reduce(|x, y| match compare(&x, &y) { Greater => y, _ => x })`; `le x y` = "`x ≤ y`". -/
def stdMinBy (le : Elem → Elem → Bool) (l : List Elem) : Option Elem :=
  stdReduce (fun x y => if le x y then x else y) l

/-- `max_by(compare)`: `reduce(|x, y| match compare(&x, &y) { Greater => x, _ => y })`. -/
def stdMaxBy (le : Elem → Elem → Bool) (l : List Elem) : Option Elem :=
  stdReduce (fun x y => if le x y then y else x) l

/-- `advance_by(n)`: `n` calls of `next`, stopping at the first `None` (`none` = ran out). -/
def stdAdvance : Nat → List Elem → Option (List Elem)
  | 0, l => some l
  | _ + 1, [] => none
  | n + 1, _ :: r => stdAdvance n r

/-- `nth(n)`: `self.advance_by(n).ok()?; self.next()`.  Result and the state left behind. -/
def stdNth (n : Nat) (l : List Elem) : Option Elem × Option (List Elem) :=
  match stdAdvance n l with
  | none => (none, none)
  | some [] => (none, none)
  | some (x :: r) => (some x, some r)

/-- `by_ref().take(k).collect()`: at most `k` calls of `next`; the state is `none` when a `None` was seen. -/
def stdTake : Nat → List Elem → List Elem × Option (List Elem)
  | 0, l => ([], some l)
  | _ + 1, [] => ([], none)
  | k + 1, x :: r => ((x :: (stdTake k r).1), (stdTake k r).2)

/-- `find(p)`: `next` until an element satisfies `p`. -/
def stdFind (p : Elem → Bool) : List Elem → Option Elem × Option (List Elem)
  | [] => (none, none)
  | x :: r => if p x then (some x, some r) else stdFind p r

/-- `position(p)`: as `find`, counting the calls (`i` = elements seen so far). -/
def stdPosition (p : Elem → Bool) : Nat → List Elem → Option Nat × Option (List Elem)
  | _, [] => (none, none)
  | i, x :: r => if p x then (some i, some r) else stdPosition p (i + 1) r

/-- `any(p)`: stops after the first element satisfying `p`. -/
def stdAny (p : Elem → Bool) : List Elem → Bool × Option (List Elem)
  | [] => (false, none)
  | x :: r => if p x then (true, some r) else stdAny p r

/-- `all(p)`: stops after the first element violating `p`. -/
def stdAll (p : Elem → Bool) : List Elem → Bool × Option (List Elem)
  | [] => (true, none)
  | x :: r => if p x then stdAll p r else (false, some r)

/-! ## what the methods mean -/

def specNth (n : Nat) (l : List Elem) : Option Elem × Option (List Elem) :=
  (l[n]?, if n < l.length then some (l.drop (n + 1)) else none)

def specTake (k : Nat) (l : List Elem) : List Elem × Option (List Elem) :=
  (l.take k, if k ≤ l.length then some (l.drop k) else none)

/-- what is left after the first element satisfying `p` (nothing is left, and `None` was seen, when there is none) -/
def restAfter (p : Elem → Bool) (l : List Elem) : Option (List Elem) :=
  (l.findIdx? p).map (fun i => l.drop (i + 1))

def specFind (p : Elem → Bool) (l : List Elem) : Option Elem × Option (List Elem) := (l.find? p, restAfter p l)
def specPosition (p : Elem → Bool) (l : List Elem) : Option Nat × Option (List Elem) := (l.findIdx? p, restAfter p l)
def specAny (p : Elem → Bool) (l : List Elem) : Bool × Option (List Elem) := (l.any p, restAfter p l)
def specAll (p : Elem → Bool) (l : List Elem) : Bool × Option (List Elem) := (l.all p, restAfter (fun x => !p x) l)

/-- `min` / `min_by` / `min_by_key`: the **first** element that is `≤` every element. -/
def specMinBy (le : Elem → Elem → Bool) (l : List Elem) : Option Elem :=
  l.find? (fun m => l.all (fun y => le m y))

/-- `max` / `max_by` / `max_by_key`: the **last** element that is `≥` every element. -/
def specMaxBy (le : Elem → Elem → Bool) (l : List Elem) : Option Elem :=
  l.reverse.find? (fun m => l.all (fun y => le y m))

/-! ## orders, keys, predicates used by scripts -/

/-- `Ord` of the element type. -/
def leElem (a b : Elem) : Bool := lexLeB a b

inductive KeyFn where
  | par   -- parity of the sum of the components (0 / 1): many ties
  | c0    -- constant key: everything ties
  deriving Repr, BEq

def sumInts (e : Elem) : Int := e.foldl (· + ·) 0

def KeyFn.key : KeyFn → Elem → Int
  | .par, e => sumInts e % 2
  | .c0, _ => 0

def leKey (k : KeyFn) (a b : Elem) : Bool := decide (k.key a ≤ k.key b)

inductive Pred where
  | eq (e : Elem) | lt (e : Elem) | ge (e : Elem) | par
  deriving Repr, BEq

def Pred.test : Pred → Elem → Bool
  | .eq e, x => x == e
  | .lt e, x => lexLtB x e
  | .ge e, x => !lexLtB x e
  | .par, x => sumInts x % 2 != 0

/-- `sum()` / `product()` of an integer iterator (`overflow-checks = true`): fold from the unit, every partial
    result checked against the type.  (Used by model and specification alike; `Lemmas/IterProto.lean` relates
    it to the mathematical sum / product.) -/
def foldChecked (t : IntTy) (op : Int → Int → Int) : Int → List Int → Except Panic Int
  | acc, [] => .ok acc
  | acc, v :: r =>
    match checked t (op acc v) with
    | .error e => .error e
    | .ok a => foldChecked t op a r

def sumChecked (t : IntTy) (l : List Elem) : Except Panic Int := foldChecked t (· + ·) 0 (l.map (·.headD 0))
def productChecked (t : IntTy) (l : List Elem) : Except Panic Int := foldChecked t (· * ·) 1 (l.map (·.headD 0))

/-! ## scripts -/

inductive Op where
  | next | hint | nth (k : Nat) | take (k : Nat)
  | find (p : Pred) | position (p : Pred) | any (p : Pred) | all (p : Pred)
  | count | last | fold | foreach | collect | reduce
  | min | max | minkey (k : KeyFn) | maxkey (k : KeyFn) | minby (k : KeyFn) | maxby (k : KeyFn)
  | sum | product
  | bad
  deriving Repr, BEq

/-- The semantics of the provided methods a script can call. -/
structure Sem where
  nth : Nat → List Elem → Option Elem × Option (List Elem)
  take : Nat → List Elem → List Elem × Option (List Elem)
  find : (Elem → Bool) → List Elem → Option Elem × Option (List Elem)
  position : (Elem → Bool) → List Elem → Option Nat × Option (List Elem)
  any : (Elem → Bool) → List Elem → Bool × Option (List Elem)
  all : (Elem → Bool) → List Elem → Bool × Option (List Elem)
  count : List Elem → Nat
  last : List Elem → Option Elem
  collect : List Elem → List Elem
  reduceLast : List Elem → Option Elem
  minE : List Elem → Option Elem
  maxE : List Elem → Option Elem
  minK : KeyFn → List Elem → Option Elem
  maxK : KeyFn → List Elem → Option Elem

/-- std's default bodies (the model). -/
def stdSem : Sem where
  nth := stdNth
  take := stdTake
  find := stdFind
  position := fun p => stdPosition p 0
  any := stdAny
  all := stdAll
  count := stdCount
  last := stdLast
  collect := stdCollect
  reduceLast := stdReduce (fun _ y => y)
  minE := stdMinBy leElem
  maxE := stdMaxBy leElem
  minK := fun k => stdMinBy (leKey k)
  maxK := fun k => stdMaxBy (leKey k)

/-- the meaning of the methods (the specification). -/
def specSem : Sem where
  nth := specNth
  take := specTake
  find := specFind
  position := specPosition
  any := specAny
  all := specAll
  count := List.length
  last := List.getLast?
  collect := id
  reduceLast := List.getLast?
  minE := specMinBy leElem
  maxE := specMaxBy leElem
  minK := fun k => specMinBy (leKey k)
  maxK := fun k => specMaxBy (leKey k)

/-- How elements and collections of one iterator kind are printed; `sumTy` = the integer type when the items
    are integers (`sum` / `product` exist). -/
structure Kind where
  showE : Elem → String
  showC : List Elem → String
  sumTy : Option IntTy

def showOptE (k : Kind) : Option Elem → String
  | none => "None"
  | some e => k.showE e

/-- One call on the iterator: printed result and the state left behind.  `none` = gone (a `None` has been
    returned, or the iterator was consumed by value): nothing is called any more, `-` is printed. -/
def stepOp (sem : Sem) (k : Kind) (op : Op) : Option (List Elem) → String × Option (List Elem)
  | none => ("-", none)
  | some l =>
    match op with
    | .next =>
      match nextL l with
      | none => ("next=None", none)
      | some (x, r) => (s!"next={k.showE x}", some r)
    | .hint => ("hint=ok", some l)
    | .nth n => let r := sem.nth n l; (s!"nth={showOptE k r.1}", r.2)
    | .take n => let r := sem.take n l; (s!"take={k.showC r.1}", r.2)
    | .find p => let r := sem.find p.test l; (s!"find={showOptE k r.1}", r.2)
    | .position p =>
      let r := sem.position p.test l
      (match r.1 with | none => "position=None" | some i => s!"position={i}", r.2)
    | .any p => let r := sem.any p.test l; (s!"any={showBool r.1}", r.2)
    | .all p => let r := sem.all p.test l; (s!"all={showBool r.1}", r.2)
    | .count => (s!"count={sem.count l}", none)
    | .last => (s!"last={showOptE k (sem.last l)}", none)
    | .fold => (s!"fold={k.showC (sem.collect l)}", none)
    | .foreach => (s!"foreach={k.showC (sem.collect l)}", none)
    | .collect => (s!"collect={k.showC (sem.collect l)}", none)
    | .reduce => (s!"reduce={showOptE k (sem.reduceLast l)}", none)
    | .min => (s!"min={showOptE k (sem.minE l)}", none)
    | .max => (s!"max={showOptE k (sem.maxE l)}", none)
    | .minkey f => (s!"minkey={showOptE k (sem.minK f l)}", none)
    | .maxkey f => (s!"maxkey={showOptE k (sem.maxK f l)}", none)
    | .minby f => (s!"minby={showOptE k (sem.minK f l)}", none)
    | .maxby f => (s!"maxby={showOptE k (sem.maxK f l)}", none)
    | .sum =>
      match k.sumTy with
      | none => ("bad-op", some l)
      | some t => (s!"sum={showExcept toString (sumChecked t l)}", none)
    | .product =>
      match k.sumTy with
      | none => ("bad-op", some l)
      | some t => (s!"product={showExcept toString (productChecked t l)}", none)
    | .bad => ("bad-op", some l)

def runScript (sem : Sem) (k : Kind) : List Op → Option (List Elem) → List String
  | [], _ => []
  | op :: ops, st => (stepOp sem k op st).1 :: runScript sem k ops (stepOp sem k op st).2

/-- does the script call one of the quadratic-time specifications (`min` / `max` family)? -/
def Op.isMinMax : Op → Bool
  | .min | .max | .minkey _ | .maxkey _ | .minby _ | .maxby _ => true
  | _ => false

/-! ## distinct arrangements of a multiset, directly -/

/-- Remove adjacent duplicates (on a sorted list: all duplicates). -/
def dedupInts : List Int → List Int
  | [] => []
  | [a] => [a]
  | a :: b :: t => if a == b then dedupInts (b :: t) else a :: dedupInts (b :: t)

/-- Every distinct arrangement of the sorted list `s` (of length `n`), in lexicographic order: the first element
    runs through the distinct values of `s` in increasing order, the rest through the arrangements of `s` without
    one copy of it. -/
def arrangements : Nat → List Int → List (List Int)
  | 0, _ => [[]]
  | n + 1, s => (dedupInts s).flatMap (fun x => (arrangements n (s.erase x)).map (x :: ·))

/-- `specPermutations` without the `n!` intermediate list (`Props/C15.lean`: `specPermutationsFast_eq`). -/
def specPermutationsFast (d : List Int) : List (List Int) := arrangements d.length (sortInts d)

/-- number of distinct arrangements of `d`: `n! / ∏ (multiplicity)!` (only a guard in the driver: how long the
    output of `iter_permutations` will be) -/
def countRuns : List Int → List Nat
  | [] => []
  | a :: t =>
    match countRuns t, t with
    | c :: cs, b :: _ => if a == b then (c + 1) :: cs else 1 :: c :: cs
    | _, _ => [1]

def numArrangements (d : List Int) : Nat :=
  factorial d.length / ((countRuns (sortInts d)).map factorial).foldl (· * ·) 1

end Rlib.Iter
