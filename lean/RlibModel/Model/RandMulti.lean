import RlibModel.Model.Rand
/-
Several live generators (property C14, clause "equal seeds and copies give equal streams").

The harness keeps a vector of `Rng` values and drives them interleaved: draws (`next_raw`, `next(range)`,
`shuffle` — each consumes a known number of raw words of ONE generator), copies made through every
entry point Rust offers (`let b = a`, `a.clone()`, `clone_from`, `Vec<Rng>::clone`, a derived `Clone`
of a struct holding a generator, …), assignments into a used generator, re-seeding from a drawn word.

* `Op`, `step`, `run`   — the model: a live generator IS its 64-bit state; every kind of copy copies
  the state (`#[derive(Copy, Clone)]` on a one-field struct), a draw of `c` words is `rawStream g c`.
* `Lin`, `specStep`, `specRun` — the specification: a live generator is described by its LINEAGE
  `(seed, k)` = "the generator made by `from_seed(seed)` after `k` words, however it got here"; a draw of
  `c` words returns the words number `k … k+c-1` of the stream of `seed` (`rawAt g seed`), a copy has the
  same lineage.  `Props/C14.lean` (`multi_run_eq_spec`) proves the two equal for every history.

Slot numbers are taken modulo the number of live generators, so that every sub-sequence of a history
is again a history (the generic shrinker deletes operations).
-/
namespace Rlib.Rand.Multi

/-- What an operation of the harness does to the set of live generators. -/
inductive Op where
  | new (seed : Nat)        -- push `Rng::from_seed(seed)`
  | use (i c : Nat)         -- generator `i` returns `c` raw words (next_raw / next(range): 1, shuffle of n: n-1)
  | fork (i : Nat)          -- push `Rng::from_seed(slot[i].next_raw())`  (a returned value is fed back)
  | dup (i : Nat)           -- push a copy of generator `i` (Copy, Clone::clone, derived Clone of a holder, …)
  | assign (i j : Nat)      -- generator `j` becomes a copy of generator `i` (`=`, `clone_from`)
  | dupAll                  -- the whole vector is copied (`Vec<Rng>::clone`, `to_vec`, `iter().cloned()`, …)
  deriving Repr, DecidableEq, Inhabited

/-- `dupAll` appends the copies while at most this many generators are alive (afterwards the copy replaces the
    original vector, which changes nothing in a pure model). -/
def dupAllCap : Nat := 6

/-- One operation on the model: new vector of states, and the raw words the operation returned. -/
def step (g : Gen) (slots : List Nat) : Op → List Nat × List Nat
  | .new seed => (slots ++ [seed], [])
  | .use i c =>
    match slots[i % slots.length]? with
    | none => (slots, [])
    | some s => (slots.set (i % slots.length) (rawStream g c s).2, (rawStream g c s).1)
  | .fork i =>
    match slots[i % slots.length]? with
    | none => (slots, [])
    | some s => (slots.set (i % slots.length) (nextRaw g s).1 ++ [(nextRaw g s).2], [(nextRaw g s).2])
  | .dup i =>
    match slots[i % slots.length]? with
    | none => (slots, [])
    | some s => (slots ++ [s], [])
  | .assign i j =>
    match slots[i % slots.length]? with
    | none => (slots, [])
    | some s => (slots.set (j % slots.length) s, [])
  | .dupAll => (if slots.length ≤ dupAllCap then slots ++ slots else slots, [])

/-- A history: the words returned by every operation, and the states left behind. -/
def run (g : Gen) : List Nat → List Op → List (List Nat) × List Nat
  | slots, [] => ([], slots)
  | slots, op :: ops => ((step g slots op).2 :: (run g (step g slots op).1 ops).1, (run g (step g slots op).1 ops).2)

/-! ### specification side: lineages -/

/-- "made by `from_seed(seed)`, `k` words consumed since" -/
structure Lin where
  seed : Nat
  k : Nat
  deriving Repr, DecidableEq, Inhabited

/-- the state a generator with this lineage must be in -/
def Lin.state (g : Gen) (l : Lin) : Nat := iter (lcgStep g) l.k l.seed

/-- the `c` words number `k … k+c-1` of the stream of `seed`: the first `k + c` words a generator made by
    `from_seed(seed)` returns, without the first `k` -/
def Lin.words (g : Gen) (l : Lin) (c : Nat) : List Nat := ((rawStream g (l.k + c) l.seed).1).drop l.k

def specStep (g : Gen) (ls : List Lin) : Op → List Lin × List Nat
  | .new seed => (ls ++ [⟨seed, 0⟩], [])
  | .use i c =>
    match ls[i % ls.length]? with
    | none => (ls, [])
    | some l => (ls.set (i % ls.length) ⟨l.seed, l.k + c⟩, l.words g c)
  | .fork i =>
    match ls[i % ls.length]? with
    | none => (ls, [])
    | some l => (ls.set (i % ls.length) ⟨l.seed, l.k + 1⟩ ++ [⟨(l.words g 1).headD 0, 0⟩], l.words g 1)
  | .dup i =>
    match ls[i % ls.length]? with
    | none => (ls, [])
    | some l => (ls ++ [l], [])
  | .assign i j =>
    match ls[i % ls.length]? with
    | none => (ls, [])
    | some l => (ls.set (j % ls.length) l, [])
  | .dupAll => (if ls.length ≤ dupAllCap then ls ++ ls else ls, [])

def specRun (g : Gen) : List Lin → List Op → List (List Nat) × List Lin
  | ls, [] => ([], ls)
  | ls, op :: ops => ((specStep g ls op).2 :: (specRun g (specStep g ls op).1 ops).1, (specRun g (specStep g ls op).1 ops).2)

/-- the generators the header of a case line creates -/
def fresh (seeds : List Nat) : List Lin := seeds.map (fun s => ⟨s, 0⟩)

end Rlib.Rand.Multi
