import RlibModel.Model.Common
/-
Decimal rendering and parsing shared by the Writer model (C09) — core Lean only.

Rust side (`rlib/io/src/writer.rs`, `rlib/num_traits/src/lib.rs`):

```
macro_rules! base_10_len { ($ut:ty) => {{ let mut value = <$ut>::MAX; let mut ans: usize = 0;
                                          while value != 0 { value /= 10; ans += 1; } ans }} }
impl Writable for $unsigned {
    fn write(&self, writer) {
        if self == &0 { writer.write_char('0'); return; }
        let mut buf = [0; BASE_10_LEN]; let mut index = buf.len(); let mut value = *self;
        while value != 0 { index -= 1; buf[index] = (value % 10) as u8 + b'0'; value /= 10; }
        writer.write_bytes(&buf[index..]);
    } }
impl Writable for $signed { fn write(..) { if self < &0 { writer.write_char('-'); } writer.write(&self.unsigned_abs()); } }
```

* `base10len w`       — the `base_10_len!` loop run on `2^w − 1`.
* `renderLoop`        — the backward digit loop on a stack buffer of length `L`; `index -= 1` at
                        `index = 0` is `panic:overflow` (the harness builds with overflow checks),
                        a store outside the buffer is `panic:index`.
* `renderDigits L v`  — loop on a zeroed buffer, then the slice `&buf[index..]`.
* `renderU L v`       — the whole unsigned rendering (`0` is the one byte `'0'`).
* `renderS L v`       — optional `-`, then the rendering of `unsigned_abs` (so `MIN` is fine).
* spec: `decimalU`, `decimalS` — Lean's own `Nat.toDigits 10` (what `Nat.repr` prints) as bytes.
* spec-level reading: `tokenize` (split on ASCII whitespace) and `parseU` / `parseS`.
-/
namespace Rlib.Decimal

/-! ### `BASE_10_LEN` -/

/-- `while value != 0 { value /= 10; ans += 1 }`.  Well-founded on `value`. -/
def base10lenLoop (value ans : Nat) : Nat :=
  if _h : value = 0 then ans else base10lenLoop (value / 10) (ans + 1)
termination_by value
decreasing_by omega

/-- `base_10_len!(uW)`: the loop started at `uW::MAX = 2^w − 1`. -/
def base10len (w : Nat) : Nat := base10lenLoop (2 ^ w - 1) 0

/-! ### The digit loop of `write_unsigned` -/

/-- One byte of output: `(value % 10) as u8 + b'0'`. -/
def digitByte (value : Nat) : UInt8 := UInt8.ofNat (value % 10 + 48)

/-- `while value != 0 { index -= 1; buf[index] = digit; value /= 10 }` on a buffer `buf`.
    Returns the final buffer and index. -/
def renderLoop (buf : List UInt8) (index value : Nat) : Except Panic (List UInt8 × Nat) :=
  if _h : value = 0 then .ok (buf, index)
  else if index = 0 then .error .overflow                      -- `index -= 1` underflows
  else if index - 1 < buf.length then
    renderLoop (buf.set (index - 1) (digitByte value)) (index - 1) (value / 10)
  else .error .index                                           -- `buf[index] = …` out of bounds
termination_by value
decreasing_by omega

/-- `let mut buf = [0; L]; let mut index = buf.len(); <loop>; &buf[index..]`. -/
def renderDigits (L : Nat) (v : Nat) : Except Panic (List UInt8) :=
  match renderLoop (List.replicate L 0) L v with
  | .ok (buf, index) => .ok (buf.drop index)
  | .error e => .error e

/-- Everything an unsigned `Writable::write` hands to the writer, as one byte string. -/
def renderU (L : Nat) (v : Nat) : Except Panic (List UInt8) :=
  if v = 0 then .ok [48] else renderDigits L v

/-- Everything a signed `Writable::write` hands to the writer: `-` if negative, then the
    unsigned rendering of `unsigned_abs()` (`L` is the `BASE_10_LEN` of the unsigned type). -/
def renderS (L : Nat) (v : Int) : Except Panic (List UInt8) :=
  match renderU L v.natAbs with
  | .ok ds => .ok (if v < 0 then 45 :: ds else ds)
  | .error e => .error e

/-! ### Specification: standard decimal text -/

/-- The decimal digits of `n` as ASCII bytes — `Nat.toDigits 10`, i.e. what `Nat.repr` prints. -/
def decimalU (n : Nat) : List UInt8 := (Nat.toDigits 10 n).map (fun c => UInt8.ofNat c.toNat)

/-- Decimal text of an integer: `-` followed by the digits of the magnitude when negative. -/
def decimalS (z : Int) : List UInt8 := if z < 0 then 45 :: decimalU z.natAbs else decimalU z.natAbs

/-! ### Specification-level reading: tokens and decimal parsing -/

/-- Rust's `u8::is_ascii_whitespace`: space, TAB, LF, FF, CR. -/
def isWs (b : UInt8) : Bool := b == 32 || b == 9 || b == 10 || b == 12 || b == 13

/-- Right-to-left scan: (token being built at the front, finished tokens after it). -/
def tokStep (b : UInt8) (acc : List UInt8 × List (List UInt8)) : List UInt8 × List (List UInt8) :=
  if isWs b then ([], if acc.1.isEmpty then acc.2 else acc.1 :: acc.2) else (b :: acc.1, acc.2)

def tokScan (bs : List UInt8) : List UInt8 × List (List UInt8) := bs.foldr tokStep ([], [])

/-- Maximal runs of non-whitespace bytes, in order. -/
def tokenize (bs : List UInt8) : List (List UInt8) :=
  let r := tokScan bs
  if r.1.isEmpty then r.2 else r.1 :: r.2

/-- Accumulate decimal digits left to right: `result = result * 10 + (b - b'0')`. -/
def parseU (tok : List UInt8) : Nat := tok.foldl (fun r b => r * 10 + (b.toNat - 48)) 0

/-- Optional leading `-`, then digits. -/
def parseS (tok : List UInt8) : Int :=
  match tok with
  | 45 :: rest => -(parseU rest : Int)
  | _ => (parseU tok : Int)

end Rlib.Decimal
