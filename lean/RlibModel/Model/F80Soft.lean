import RlibModel.Model.Common
/-
Exact soft-float used as the executable specification of "correctly rounded" for `rlib/f80`
(property C18).  Core Lean only.

* `F80`   : the ten bytes of an x87 extended value as (sign, 15-bit exponent field, 64-bit significand
            with explicit integer bit).  `F64` : the three fields of a binary64 pattern.
* `Dy`    : an exact dyadic number `(-1)^neg * m * 2^e`.
* `Class` : what the FPU sees in an operand: NaN (including every unsupported encoding), ±∞, or an
            exact finite value.
* `rne a b`, `roundPos f n d e`, `roundQ` : round-to-nearest-even of the positive rational
            `n/d * 2^e` to the format `f` (precision `p`, gradual underflow down to the quantum `2^qmin`,
            overflow to ∞ above `2^(emax+1)`).
* `add sub mul div neg ofF64 toF64` : the specification of the seven x87-backed operations under the
            default control word (64-bit precision, round to nearest, all exceptions masked).

What the real instructions do is *modelled* by these definitions and compared differentially on every
check; the theorems in `Props/C18.lean` are about the definitions.
-/
namespace Rlib.F80

/-- Exact dyadic number `(-1)^neg * m * 2^e`. -/
structure Dy where
  neg : Bool
  m : Nat
  e : Int
  deriving Repr, DecidableEq, Inhabited

/-- Operand class as seen by the x87. -/
inductive Class where
  | nan
  | inf (neg : Bool)
  | fin (d : Dy)
  deriving Repr, DecidableEq, Inhabited

/-- The ten bytes `f80([u8; 10])`: bit 79 sign, bits 64..78 exponent field, bits 0..63 significand
    (bit 63 is the explicit integer bit). -/
structure F80 where
  sign : Bool
  exp : Nat
  sig : Nat
  deriving Repr, DecidableEq, Inhabited

/-- A binary64 pattern: sign, 11-bit exponent field, 52-bit fraction field. -/
structure F64 where
  sign : Bool
  exp : Nat
  frac : Nat
  deriving Repr, DecidableEq, Inhabited

def two63 : Nat := 9223372036854775808
def two52 : Nat := 4503599627370496

/-- x87 operand classification.  Exponent field all ones: ∞ iff the significand is exactly `2^63`,
    every other pattern is a NaN (pseudo-NaN / pseudo-infinity are "unsupported": invalid operand, the
    compare instructions report unordered).  Exponent field zero: denormal or pseudo-denormal, value
    `sig * 2^-16445`.  Otherwise the integer bit must be set (else "unnormal", unsupported) and the
    value is `sig * 2^(exp - 16383 - 63)`. -/
def classify (x : F80) : Class :=
  if x.exp = 0x7FFF then
    if x.sig = two63 then .inf x.sign else .nan
  else if x.exp = 0 then .fin ⟨x.sign, x.sig, -16445⟩
  else if x.sig < two63 then .nan
  else .fin ⟨x.sign, x.sig, (x.exp : Int) - 16446⟩

/-- binary64 classification. -/
def classify64 (x : F64) : Class :=
  if x.exp = 2047 then
    if x.frac = 0 then .inf x.sign else .nan
  else if x.exp = 0 then .fin ⟨x.sign, x.frac, -1074⟩
  else .fin ⟨x.sign, two52 + x.frac, (x.exp : Int) - 1075⟩

/-! ### Rounding -/

/-- Nearest integer to `a / b` (`b > 0`), ties to the even integer. -/
def rne (a b : Nat) : Nat :=
  let q := a / b
  let r := a % b
  if 2 * r < b then q
  else if b < 2 * r then q + 1
  else if q % 2 = 0 then q else q + 1

/-- A binary floating-point format. -/
structure Fmt where
  /-- number of significand bits -/
  p : Nat
  /-- exponent of the least significant bit of a subnormal (the smallest quantum) -/
  qmin : Int
  /-- largest exponent of the leading bit: finite values are `< 2^(emax+1)` -/
  emax : Int
  deriving Repr

/-- x87 double extended: 64-bit significand, 15-bit exponent. -/
def fmt80 : Fmt := ⟨64, -16445, 16383⟩
/-- binary64. -/
def fmt64 : Fmt := ⟨53, -1074, 1023⟩

/-- `⌊log2 (n/d * 2^e)⌋` for `n, d > 0`. -/
def ilog2q (n d : Nat) (e : Int) : Int :=
  let ln := n.log2
  let ld := d.log2
  if d <<< ln ≤ n <<< ld then (ln : Int) - ld + e else (ln : Int) - ld + e - 1

/-- Result of rounding a positive number. -/
inductive Rounded where
  | fin (r : Nat) (k : Int)   -- the value `r * 2^k`
  | ovf                        -- overflow: ±∞
  deriving Repr, DecidableEq

/-- the quantum (exponent of the unit in the last place) used for a value whose leading bit has exponent `t` -/
def quantum (f : Fmt) (t : Int) : Int := max (t - ((f.p : Int) - 1)) f.qmin

/-- nearest-even integer to `n/d * 2^s` -/
def rneScaled (n d : Nat) (s : Int) : Nat :=
  if 0 ≤ s then rne (n <<< s.toNat) d else rne n (d <<< (-s).toNat)

/-- Round the positive rational `n/d * 2^e` (`n, d > 0`) to format `f`, nearest-even. -/
def roundPos (f : Fmt) (n d : Nat) (e : Int) : Rounded :=
  let k := quantum f (ilog2q n d e)
  let r := rneScaled n d (e - k)
  if f.emax < (r.log2 : Int) + k then .ovf else .fin r k

/-- Round `(-1)^neg * n/d * 2^e` to format `f`; an exact zero keeps the given sign. -/
def roundQ (f : Fmt) (neg : Bool) (n d : Nat) (e : Int) : Class :=
  if n = 0 then .fin ⟨neg, 0, 0⟩
  else match roundPos f n d e with
    | .ovf => .inf neg
    | .fin r k => .fin ⟨neg, r, k⟩

/-- Round an operand class to a format (used by the conversions). -/
def roundClass (f : Fmt) : Class → Class
  | .nan => .nan
  | .inf s => .inf s
  | .fin d => roundQ f d.neg d.m 1 d.e

/-! ### Encoding -/

/-- `m * 2^j` for an integer `j` (exact when `j ≥ 0` or the low bits are zero). -/
def shiftInt (m : Nat) (j : Int) : Nat :=
  if 0 ≤ j then m <<< j.toNat else m >>> (-j).toNat

/-- Bytes of a class whose value is representable in the x87 format (the result of `roundQ fmt80`).
    NaN is the default "real indefinite" quiet NaN. -/
def encode80 : Class → F80
  | .nan => ⟨true, 0x7FFF, 0xC000000000000000⟩
  | .inf s => ⟨s, 0x7FFF, two63⟩
  | .fin d =>
    if d.m = 0 then ⟨d.neg, 0, 0⟩
    else
      let t : Int := (d.m.log2 : Int) + d.e
      if t < -16382 then ⟨d.neg, 0, shiftInt d.m (d.e + 16445)⟩
      else if 16383 < t then ⟨d.neg, 0x7FFF, two63⟩
      else ⟨d.neg, (t + 16383).toNat, shiftInt d.m (63 - (d.m.log2 : Int))⟩

/-- Fields of a class whose value is representable in binary64 (the result of `roundQ fmt64`). -/
def encode64 : Class → F64
  | .nan => ⟨true, 2047, 2251799813685248⟩
  | .inf s => ⟨s, 2047, 0⟩
  | .fin d =>
    if d.m = 0 then ⟨d.neg, 0, 0⟩
    else
      let t : Int := (d.m.log2 : Int) + d.e
      if t < -1022 then ⟨d.neg, 0, shiftInt d.m (d.e + 1074)⟩
      else if 1023 < t then ⟨d.neg, 2047, 0⟩
      else ⟨d.neg, (t + 1023).toNat, shiftInt d.m (52 - (d.m.log2 : Int)) - two52⟩

/-! ### Exact operations on classes, then one rounding -/

/-- the signed integer `± m * 2^(e-k)` for `k ≤ e` -/
def Dy.scaled (x : Dy) (k : Int) : Int :=
  let v : Int := ((x.m <<< (x.e - k).toNat : Nat) : Int)
  if x.neg then -v else v

def addC (f : Fmt) : Class → Class → Class
  | .nan, _ => .nan
  | _, .nan => .nan
  | .inf s, .inf t => if s = t then .inf s else .nan
  | .inf s, .fin _ => .inf s
  | .fin _, .inf t => .inf t
  | .fin x, .fin y =>
    let k := min x.e y.e
    let s := x.scaled k + y.scaled k
    if s = 0 then
      -- exact zero sum: the common sign if the operands agree in sign, otherwise +0 (round to nearest)
      .fin ⟨x.neg && y.neg, 0, 0⟩
    else roundQ f (decide (s < 0)) s.natAbs 1 k

def negC : Class → Class
  | .nan => .nan
  | .inf s => .inf (!s)
  | .fin x => .fin ⟨!x.neg, x.m, x.e⟩

def subC (f : Fmt) (a b : Class) : Class := addC f a (negC b)

def mulC (f : Fmt) : Class → Class → Class
  | .nan, _ => .nan
  | _, .nan => .nan
  | .inf s, .inf t => .inf (s != t)
  | .inf s, .fin y => if y.m = 0 then .nan else .inf (s != y.neg)
  | .fin x, .inf t => if x.m = 0 then .nan else .inf (x.neg != t)
  | .fin x, .fin y => roundQ f (x.neg != y.neg) (x.m * y.m) 1 (x.e + y.e)

def divC (f : Fmt) : Class → Class → Class
  | .nan, _ => .nan
  | _, .nan => .nan
  | .inf _, .inf _ => .nan
  | .inf s, .fin y => .inf (s != y.neg)
  | .fin x, .inf t => .fin ⟨x.neg != t, 0, 0⟩
  | .fin x, .fin y =>
    if y.m = 0 then
      if x.m = 0 then .nan else .inf (x.neg != y.neg)     -- 0/0 invalid; x/0 divide-by-zero, masked: ±∞
    else roundQ f (x.neg != y.neg) x.m y.m (x.e - y.e)

/-! ### The operations of `rlib_f80` that are single x87 instructions -/

/-- `faddp` -/
def add (a b : F80) : F80 := encode80 (addC fmt80 (classify a) (classify b))
/-- `fsubp st(1), st` : `self - rhs` -/
def sub (a b : F80) : F80 := encode80 (subC fmt80 (classify a) (classify b))
/-- `fmulp` -/
def mul (a b : F80) : F80 := encode80 (mulC fmt80 (classify a) (classify b))
/-- `fdivp st(1), st` : `self / rhs` -/
def div (a b : F80) : F80 := encode80 (divC fmt80 (classify a) (classify b))
/-- `fchs` : flips the sign bit of any pattern -/
def neg (a : F80) : F80 := { a with sign := !a.sign }
/-- `fld QWORD` + `fstp TBYTE` : exact -/
def ofF64 (x : F64) : F80 := encode80 (roundClass fmt80 (classify64 x))
/-- `fld TBYTE` + `fstp QWORD` : rounds to 53 bits -/
def toF64 (a : F80) : F64 := encode64 (roundClass fmt64 (classify a))

/-! ### Bit-level views used by the driver -/

def F80.ofNat (n : Nat) : F80 :=
  ⟨(n >>> 79) % 2 = 1, (n >>> 64) % 32768, n % 18446744073709551616⟩

def F80.toNat (x : F80) : Nat :=
  ((if x.sign then 32768 else 0) + x.exp) <<< 64 + x.sig

def F64.ofNat (n : Nat) : F64 :=
  ⟨(n >>> 63) % 2 = 1, (n >>> 52) % 2048, n % two52⟩

def F64.toNat (x : F64) : Nat :=
  ((if x.sign then 2048 else 0) + x.exp) <<< 52 + x.frac

def isNaN (x : F80) : Bool := classify x == .nan
def isNaN64 (x : F64) : Bool := classify64 x == .nan

end Rlib.F80
