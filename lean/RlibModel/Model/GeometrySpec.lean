import RlibModel.Model.GeometryFloat
/-
Executable specification side of C10: *exact* geometry over rationals.

Every `f64` is a dyadic rational, so the configuration a case line describes (defining points,
centres, radii as bit patterns) has an exact meaning.  `Q` is an unnormalised fraction over `Int`;
all decisions below are comparisons of polynomials in the inputs, so nothing is rounded:

* the exact kind of contact (number of common points from the sign of `d - r`, `d - (r1 ± r2)`),
  reported only when the configuration is at least `margin` (= 1.01 × the property's 1e-9 tolerance)
  away from a boundary between kinds, or *exactly* on it (exact tangency, exact border point);
* the predicate "this returned point is within `tol` (= 1e-7) of the line / circle", evaluated
  exactly on the returned coordinates (no cancellation in the check itself).
-/
namespace Rlib.Geometry

/-- unnormalised fraction `num / den`, `den > 0` -/
structure Q where
  num : Int
  den : Nat

namespace Q
def ofInt (z : Int) : Q := ⟨z, 1⟩
def add (a b : Q) : Q := ⟨a.num * b.den + b.num * a.den, a.den * b.den⟩
def sub (a b : Q) : Q := ⟨a.num * b.den - b.num * a.den, a.den * b.den⟩
def mul (a b : Q) : Q := ⟨a.num * b.num, a.den * b.den⟩
def neg (a : Q) : Q := ⟨-a.num, a.den⟩
def sq (a : Q) : Q := mul a a
def abs (a : Q) : Q := ⟨a.num.natAbs, a.den⟩
def le (a b : Q) : Bool := a.num * b.den ≤ b.num * a.den
def lt (a b : Q) : Bool := a.num * b.den < b.num * a.den
def eq (a b : Q) : Bool := a.num * b.den == b.num * a.den
def isZero (a : Q) : Bool := a.num == 0
/-- `1 / 10^k` -/
def tenPowNeg (k : Nat) : Q := ⟨1, 10 ^ k⟩
/-- keep the integers small: divide out the common power of two (inputs are dyadic) -/
def ofFrac (n : Int) (d : Nat) : Q := ⟨n, d⟩

instance : Add Q := ⟨add⟩
instance : Sub Q := ⟨sub⟩
instance : Mul Q := ⟨mul⟩
instance : Neg Q := ⟨neg⟩

/-- exact value of a finite `f64` (none for NaN / ±∞) -/
def ofFloat? (f : Float) : Option Q :=
  if f.isNaN || f.isInf then none else
  let bits := f.toBits.toNat
  let sign : Int := if bits / 2 ^ 63 = 1 then -1 else 1
  let e : Nat := (bits / 2 ^ 52) % 2 ^ 11
  let m : Nat := bits % 2 ^ 52
  let mant : Nat := if e = 0 then m else m + 2 ^ 52
  let ex : Int := (if e = 0 then (1 : Int) else Int.ofNat e) - 1075
  if ex ≥ 0 then some ⟨sign * (mant * 2 ^ ex.toNat : Nat), 1⟩
  else some ⟨sign * mant, 2 ^ (-ex).toNat⟩
end Q

structure QPoint where
  x : Q
  y : Q

/-- the exact line `A x + B y + C = 0` (not normalised) -/
structure QLine where
  A : Q
  B : Q
  C : Q

structure QCircle where
  c : QPoint
  r : Q

/-- exact counterpart of `Line::between` before normalisation -/
def qLineBetween (u v : QPoint) : QLine :=
  let A := u.y - v.y
  let B := v.x - u.x
  ⟨A, B, -(A * u.x + B * u.y)⟩

def QLine.eval (l : QLine) (p : QPoint) : Q := l.A * p.x + l.B * p.y + l.C
def QLine.n2 (l : QLine) : Q := l.A.sq + l.B.sq
def qDist2 (p q : QPoint) : Q := (p.x - q.x).sq + (p.y - q.y).sq

/-- the tolerance the property names (1e-9) plus 1 %: closer than this to a boundary between kinds the property
    accepts either kind.  The soundness theorems need `eps < margin`; the extra `1e-11` is what absorbs the f64
    rounding of `d` (≤ ~1e-12 for coordinates up to 1e3) in the differential run. -/
def margin : Q := ⟨101, 10 ^ 11⟩
/-- returned points must be within 1e-7 of both primitives -/
def tol : Q := Q.tenPowNeg 7

/-! ### exact predicates on returned points -/

/-- `| |p - c| - r | ≤ tol`, decided without square roots (`r ≥ tol` in the domain) -/
def nearCircle (c : QCircle) (p : QPoint) : Bool :=
  let d2 := qDist2 p c.c
  (c.r - tol).sq.le d2 && d2.le (c.r + tol).sq && tol.le c.r

/-- distance from `p` to the exact line `≤ tol` -/
def nearLine (l : QLine) (p : QPoint) : Bool :=
  (l.eval p).sq.le (tol.sq * l.n2)

/-! ### exact kinds (`none` = inside the tolerance band: the property does not fix the kind) -/

/-- circle–line: `d = |eval c| / |(A,B)|` against `r`. -/
def specKindCL (c : QCircle) (l : QLine) : Option String :=
  let s2 := (l.eval c.c).sq
  let n2 := l.n2
  if n2.isZero then none
  else if ((c.r + margin).sq * n2).le s2 then some "None"
  else if margin.le c.r && s2.le ((c.r - margin).sq * n2) then some "Intersect"
  else if s2.eq (c.r.sq * n2) then some "Touch"
  else none

/-- circle–circle: `d = |a.c - b.c|` against `R ± s` (`R` the larger radius). -/
def specKindCC (a b : QCircle) : Option String :=
  let d2 := qDist2 a.c b.c
  let R := if a.r.lt b.r then b.r else a.r
  let s := if a.r.lt b.r then a.r else b.r
  if d2.isZero && R.eq s then some "Same"
  else if (R + s + margin).sq.le d2 then some "None"
  else if margin.le (R - s) && d2.le (R - s - margin).sq then some "None"
  else if d2.eq (R + s).sq then some "TouchOutside"
  else if d2.eq (R - s).sq && !(R.eq s) then some "TouchInside"
  else if (R - s + margin).sq.le d2 && margin.le (R + s) && d2.le (R + s - margin).sq then some "Intersect"
  else none

/-- line–line: `|sin| = |A1 B2 - A2 B1| / (|n1| |n2|)` against the margin; exactly parallel ⇒ `None`. -/
def specKindLL (u v : QLine) : Option String :=
  let cr := u.A * v.B - u.B * v.A
  let nn := u.n2 * v.n2
  if nn.isZero then none
  else if cr.isZero then some "None"
  else if (margin.sq * nn).le cr.sq then some "Some"
  else none

/-- exact intersection point of two non-parallel lines (numerators and common denominator) -/
def specPointLL (u v : QLine) : QPoint × Q :=
  let det := u.A * v.B - u.B * v.A
  (⟨u.B * v.C - u.C * v.B, u.C * v.A - u.A * v.C⟩, det)

/-- point–circle: sign of `|p - c| - r` relative to `margin · r`; exactly on the circle ⇒ `Border`. -/
def specPosition (c : QCircle) (p : QPoint) : Option String :=
  let d2 := qDist2 p c.c
  let m := margin * c.r
  if d2.eq c.r.sq then some "Border"
  else if (c.r + m).sq.le d2 then some "Outside"
  else if d2.le (c.r - m).sq then some "Inside"
  else none

/-- point-on-line: exactly on the line ⇒ `true`; farther than the margin ⇒ `false`. -/
def specContains (l : QLine) (p : QPoint) : Option String :=
  let s2 := (l.eval p).sq
  if l.n2.isZero then none
  else if s2.isZero then some "true"
  else if (margin.sq * l.n2).le s2 then some "false"
  else none

/-! ### the point algebra (`pt` cases): `Add Sub Mul<f64> Div<f64>` of `Point`, `slen len dp cp` -/

/-- relative tolerance of the `pt` observations: `4e-15` (a handful of f64 roundings; one rounding is `1.1e-16`) -/
def relTol : Q := ⟨4, 10 ^ 15⟩

/-- `|v - e| ≤ relTol · bound` -/
def within (v e bound : Q) : Bool := (v - e).abs.le (relTol * bound)

/-- what was observed for the operands `(a, b, k)`: `a + b`, `a - b`, `a * k`, `a / k`, `a.slen()`, `a.len()`, `a.dp(b)`, `a.cp(b)` -/
structure PtObs where
  add : QPoint
  sub : QPoint
  mul : QPoint
  div : QPoint
  slen : Q
  len : Q
  dp : Q
  cp : Q

/-- every observation is within `relTol` (relative to the sum of the magnitudes of the terms it is made of) of the exact
    value; the quotient is checked after multiplying back, the length through its square (`0 ≤ len`, `len² ≈ slen`). -/
def ptOk (a b : QPoint) (k : Q) (o : PtObs) : Bool :=
  within o.add.x (a.x + b.x) (a.x.abs + b.x.abs) && within o.add.y (a.y + b.y) (a.y.abs + b.y.abs)
  && within o.sub.x (a.x - b.x) (a.x.abs + b.x.abs) && within o.sub.y (a.y - b.y) (a.y.abs + b.y.abs)
  && within o.mul.x (a.x * k) (a.x * k).abs && within o.mul.y (a.y * k) (a.y * k).abs
  && within (o.div.x * k) a.x a.x.abs && within (o.div.y * k) a.y a.y.abs
  && within o.slen (a.x.sq + a.y.sq) (a.x.sq + a.y.sq)
  && (Q.ofInt 0).le o.len && within o.len.sq (a.x.sq + a.y.sq) (a.x.sq + a.y.sq)
  && within o.dp (a.x * b.x + a.y * b.y) ((a.x * b.x).abs + (a.y * b.y).abs)
  && within o.cp (a.x * b.y - a.y * b.x) ((a.x * b.y).abs + (a.y * b.x).abs)

end Rlib.Geometry
