namespace Bits
/-- u64 complement -/
def not64 (w : Nat) : Nat := 2^64 - 1 - w

theorem testBit_one_shl (k j : Nat) : (1 <<< k).testBit j = decide (j = k) := by
  rw [Nat.one_shiftLeft, Nat.testBit_two_pow]
  by_cases h : k = j <;> simp [h, eq_comm]

theorem test_set (w k j : Nat) : (w ||| (1 <<< k)).testBit j = (w.testBit j || decide (j = k)) := by
  rw [Nat.testBit_or, testBit_one_shl]

theorem test_flip (w k j : Nat) : (w ^^^ (1 <<< k)).testBit j = (w.testBit j ^^ decide (j = k)) := by
  rw [Nat.testBit_xor, testBit_one_shl]

/-- `!w` on a `u64` word flips every bit below 64 -/
theorem testBit_not64 (w j : Nat) (hw : w < 2^64) : (not64 w).testBit j = (decide (j < 64) && !w.testBit j) := by
  unfold not64
  rw [show 2^64 - 1 - w = 2^64 - (w + 1) by omega]
  exact Nat.testBit_two_pow_sub_succ hw j

/-- `remove`: `w &= !(1 << k)` -/
theorem test_remove (w k j : Nat) (hk : k < 64) (hj : j < 64) :
    (w &&& not64 (1 <<< k)).testBit j = (w.testBit j && !decide (j = k)) := by
  have h1 : 1 <<< k < 2^64 := by
    rw [Nat.one_shiftLeft]; exact Nat.pow_lt_pow_right (by omega) hk
  rw [Nat.testBit_and, testBit_not64 _ _ h1, testBit_one_shl]
  simp [hj]
#print axioms test_remove

end Bits
