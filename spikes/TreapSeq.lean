import TreapModel
namespace Tr
variable {T E : Type} (I : TItem T E)

theorem seq_node_id (it : T) (p : Nat) (l r : Tree T) (hid : ∀ a, I.pa it a = a) :
    seq I (.node it p l r) = seq I l ++ I.own it :: seq I r := by
  have : I.pa it = id := funext hid
  simp [seq, this]

/-- what `push` does to one child, as seen through `seq` -/
theorem seq_pushed_left (it : T) (l : Tree T) (ro : Option T) :
    seq I (l.setItem? (I.push it l.item? ro).2.1) = (seq I l).map (I.pa it) := by
  cases l with
  | nil => simp [Tree.item?, Tree.setItem?, seq]
  | node il pl ll rl =>
    obtain ⟨l', e, h1, h2, _⟩ := I.push_l it il ro
    simp only [Tree.item?, e, Tree.setItem?, seq, h1, List.map_append, List.map_cons, List.map_map]
    congr 1
    · apply List.map_congr_left; intro a _; simp [h2]
    · congr 1; apply List.map_congr_left; intro a _; simp [h2]

theorem seq_pushed_right (it : T) (r : Tree T) (lo : Option T) :
    seq I (r.setItem? (I.push it lo r.item?).2.2) = (seq I r).map (I.pa it) := by
  cases r with
  | nil => simp [Tree.item?, Tree.setItem?, seq]
  | node ir pr lr rr =>
    obtain ⟨r', e, h1, h2, _⟩ := I.push_r it lo ir
    simp only [Tree.item?, e, Tree.setItem?, seq, h1, List.map_append, List.map_cons, List.map_map]
    congr 1
    · apply List.map_congr_left; intro a _; simp [h2]
    · congr 1; apply List.map_congr_left; intro a _; simp [h2]

theorem pushParts_seq (it : T) (p : Nat) (l r : Tree T) :
    seq I (.node it p l r) =
      seq I (pushParts I it l r).2.1 ++ I.own (pushParts I it l r).1 :: seq I (pushParts I it l r).2.2 := by
  simp only [pushParts, seq_pushed_left, seq_pushed_right, I.push_own0, seq]

theorem upd_seq (it : T) (p : Nat) (l r : Tree T) (hid : ∀ a, I.pa it a = a) :
    seq I (upd I it p l r) = seq I l ++ I.own it :: seq I r := by
  unfold upd
  rw [seq_node_id I _ _ _ _ (by intro a; rw [I.update_pa]; exact hid a), I.update_own]

theorem pushParts_pa (it : T) (l r : Tree T) : ∀ a, I.pa (pushParts I it l r).1 a = a := by
  intro a; simp [pushParts, I.push_pa0]

/-- merge concatenates — for every assignment of priorities -/
theorem merge_seq (a b : Tree T) : seq I (merge I a b) = seq I a ++ seq I b := by
  fun_induction merge I a b with
  | case1 b => simp [seq]
  | case2 a _ => simp [seq]
  | case3 ia pa_ la ra ib pb lb rb hlt q ih =>
    rw [upd_seq I _ _ _ _ (pushParts_pa I ia la ra), ih, pushParts_seq I ia pa_ la ra]
    simp [q]
  | case4 ia pa_ la ra ib pb lb rb hlt q ih =>
    rw [upd_seq I _ _ _ _ (pushParts_pa I ib lb rb), ih, pushParts_seq I ib pb lb rb]
    simp [q]

/-! ### sizes, `split_at` -/

def WFt : Tree T → Prop
  | .nil => True
  | .node it p l r => WFt l ∧ WFt r ∧ I.sz it = (Tree.node it p l r).count

theorem seq_length (t : Tree T) : (seq I t).length = t.count := by
  induction t with
  | nil => rfl
  | node it p l r ihl ihr => simp [seq, Tree.count, ihl, ihr]; omega

theorem item_sz (t : Tree T) (h : WFt I t) : (t.item?.map I.sz).getD 0 = t.count := by
  cases t with
  | nil => rfl
  | node it p l r => simpa [Tree.item?] using h.2.2

theorem WFt_pushed_left (it : T) (l : Tree T) (ro : Option T) (h : WFt I l) :
    WFt I (l.setItem? (I.push it l.item? ro).2.1) := by
  cases l with
  | nil => simp [Tree.item?, I.push_l_none, Tree.setItem?, WFt]
  | node il pl ll rl =>
    obtain ⟨l', e, _, _, h3⟩ := I.push_l it il ro
    simp only [Tree.item?, e, Tree.setItem?]
    exact ⟨h.1, h.2.1, by rw [h3]; exact h.2.2⟩

theorem WFt_pushed_right (it : T) (r : Tree T) (lo : Option T) (h : WFt I r) :
    WFt I (r.setItem? (I.push it lo r.item?).2.2) := by
  cases r with
  | nil => simp [Tree.item?, I.push_r_none, Tree.setItem?, WFt]
  | node ir pr lr rr =>
    obtain ⟨r', e, _, _, h3⟩ := I.push_r it lo ir
    simp only [Tree.item?, e, Tree.setItem?]
    exact ⟨h.1, h.2.1, by rw [h3]; exact h.2.2⟩

theorem WFt_upd (it : T) (p : Nat) (l r : Tree T) (hl : WFt I l) (hr : WFt I r) : WFt I (upd I it p l r) := by
  refine ⟨hl, hr, ?_⟩
  rw [I.update_sz, item_sz I l hl, item_sz I r hr]; rfl

theorem take_mid (A B : List E) (x : E) (pos k : Nat) (h : pos = A.length + 1 + k) :
    (A ++ x :: B).take pos = A ++ x :: B.take k := by
  subst h
  rw [List.take_append, List.take_of_length_le (l := A) (by omega),
    show A.length + 1 + k - A.length = k + 1 by omega, List.take_succ_cons]

theorem drop_mid (A B : List E) (x : E) (pos k : Nat) (h : pos = A.length + 1 + k) :
    (A ++ x :: B).drop pos = B.drop k := by
  subst h
  rw [List.drop_append, List.drop_eq_nil_of_le (as := A) (by omega),
    show A.length + 1 + k - A.length = k + 1 by omega, List.drop_succ_cons, List.nil_append]

theorem splitAt_spec (t : Tree T) (pos : Nat) (h : WFt I t) (hp : pos ≤ t.count) :
    seq I (splitAt I t pos).1 = (seq I t).take pos ∧ seq I (splitAt I t pos).2 = (seq I t).drop pos ∧
    WFt I (splitAt I t pos).1 ∧ WFt I (splitAt I t pos).2 := by
  fun_induction splitAt I t pos with
  | case1 pos => simp [seq, WFt]
  | case2 pos it p l r q lsz hgt s ih =>
    have hp' : pos ≤ l.count + 1 + r.count := hp
    have hwl : WFt I q.2.1 := WFt_pushed_left I it l _ h.1
    have hwr : WFt I q.2.2 := WFt_pushed_right I it r _ h.2.1
    have hlsz : lsz = l.count := by
      simp only [lsz]; rw [item_sz I _ hwl]; simp [q, pushParts]
    have hcr : q.2.2.count = r.count := by simp [q, pushParts]
    have hcl : (seq I q.2.1).length = l.count := by rw [seq_length]; simp [q, pushParts]
    obtain ⟨i1, i2, i3, i4⟩ := ih hwr (by omega)
    have hk : pos - l.count = (pos - lsz - 1) + 1 := by omega
    rw [pushParts_seq I it p l r]
    refine ⟨?_, ?_, WFt_upd I _ _ _ _ hwl i3, i4⟩
    · rw [upd_seq I _ _ _ _ (pushParts_pa I it l r), i1,
        take_mid _ _ _ pos (pos - lsz - 1) (by rw [hcl]; omega)]
    · rw [i2, drop_mid _ _ _ pos (pos - lsz - 1) (by rw [hcl]; omega)]
  | case3 pos it p l r q lsz hle s ih =>
    have hp' : pos ≤ l.count + 1 + r.count := hp
    have hwl : WFt I q.2.1 := WFt_pushed_left I it l _ h.1
    have hwr : WFt I q.2.2 := WFt_pushed_right I it r _ h.2.1
    have hlsz : lsz = l.count := by
      simp only [lsz]; rw [item_sz I _ hwl]; simp [q, pushParts]
    have hcl : (seq I q.2.1).length = l.count := by rw [seq_length]; simp [q, pushParts]
    have hcl' : q.2.1.count = l.count := by simp [q, pushParts]
    obtain ⟨i1, i2, i3, i4⟩ := ih hwl (by omega)
    rw [pushParts_seq I it p l r]
    refine ⟨?_, ?_, i3, WFt_upd I _ _ _ _ i4 hwr⟩
    · rw [i1, List.take_append_of_le_length (by rw [show (seq I (pushParts I it l r).2.1).length = l.count from hcl]; omega)]
    · rw [upd_seq I _ _ _ _ (pushParts_pa I it l r), i2,
        List.drop_append_of_le_length (by rw [show (seq I (pushParts I it l r).2.1).length = l.count from hcl]; omega)]
#print axioms merge_seq
#print axioms splitAt_spec
end Tr
