import Mathlib.Analysis.Real.Sqrt
import Mathlib.Tactic.Linarith
import Mathlib.Tactic.Ring
import Mathlib.Tactic.LinearCombination
namespace Geo
open Real

/-- the two-point branch of `intersect_cl`, in exact real arithmetic: line `a x + b y + c = 0` with unit
normal, circle centre `(cx, cy)` radius `r`, signed distance `sd`, `d = |sd| ≤ r` -/
theorem cl_points_on_both (a b c cx cy r : ℝ) (hunit : a ^ 2 + b ^ 2 = 1)
    (hd : |a * cx + b * cy + c| ≤ r) (sgn : ℝ) (hs : sgn = 1 ∨ sgn = -1) :
    let sd := a * cx + b * cy + c
    let d := |sd|
    -- `ort` points from the centre towards the line
    let ox := if sd > 0 then -a else a
    let oy := if sd > 0 then -b else b
    let side := sqrt (max (r ^ 2 - d ^ 2) 0)
    let px := cx + ox * d + sgn * (-oy) * side
    let py := cy + oy * d + sgn * ox * side
    a * px + b * py + c = 0 ∧ (px - cx) ^ 2 + (py - cy) ^ 2 = r ^ 2 := by
  intro sd d ox oy side px py
  have hr0 : 0 ≤ r := le_trans (abs_nonneg _) hd
  have hdd : d ^ 2 ≤ r ^ 2 := by
    have h0 : 0 ≤ d := abs_nonneg _
    nlinarith
  have hside : side ^ 2 = r ^ 2 - d ^ 2 := by
    simp only [side]
    rw [max_eq_left (by linarith), Real.sq_sqrt (by linarith)]
  have hsg : sgn ^ 2 = 1 := by rcases hs with rfl | rfl <;> norm_num
  have hdsd : d ^ 2 = sd ^ 2 := sq_abs sd
  by_cases hpos : sd > 0
  · have hd' : d = sd := abs_of_pos hpos
    simp only [px, py, ox, oy, hpos, if_true]
    constructor
    · rw [hd']; simp only [sd]; linear_combination (-(a * cx + b * cy + c)) * hunit
    · linear_combination (d ^ 2 + sgn ^ 2 * side ^ 2) * hunit + side ^ 2 * hsg + hside
  · have hd' : d = -sd := abs_of_nonpos (not_lt.mp hpos)
    simp only [px, py, ox, oy, hpos, if_false]
    constructor
    · rw [hd']; simp only [sd]; linear_combination (-(a * cx + b * cy + c)) * hunit
    · linear_combination (d ^ 2 + sgn ^ 2 * side ^ 2) * hunit + side ^ 2 * hsg + hside
#print axioms cl_points_on_both
end Geo
