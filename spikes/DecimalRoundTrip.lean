namespace Dec
/-- the backward digit loop of `write_unsigned` (bytes, most significant first once finished) -/
def renderLoop (v : Nat) (acc : List Nat) : List Nat :=
  if h : v = 0 then acc else renderLoop (v / 10) ((v % 10 + 48) :: acc)
termination_by v
decreasing_by omega

def renderU (v : Nat) : List Nat := if v = 0 then [48] else renderLoop v []

/-- the accumulation loop of `read_unsigned` on the bytes of one token -/
def parseU (bs : List Nat) : Nat := bs.foldl (fun r b => r * 10 + (b - 48)) 0

theorem parse_renderLoop : ∀ (v : Nat) (acc : List Nat) (r : Nat),
    (renderLoop v acc).foldl (fun r b => r * 10 + (b - 48)) r =
      acc.foldl (fun r b => r * 10 + (b - 48)) ((renderLoop v []).foldl (fun r b => r * 10 + (b - 48)) r) := by
  intro v
  induction v using Nat.strongRecOn with
  | _ v ih =>
    intro acc r
    by_cases h : v = 0
    · subst h; simp [renderLoop]
    · rw [renderLoop, dif_neg h, ih (v / 10) (by omega)]
      conv => rhs; rw [renderLoop, dif_neg h, ih (v / 10) (by omega)]
      simp

theorem parse_renderLoop_zero : ∀ v, (renderLoop v []).foldl (fun r b => r * 10 + (b - 48)) 0 = v := by
  intro v
  induction v using Nat.strongRecOn with
  | _ v ih =>
    by_cases h : v = 0
    · subst h; simp [renderLoop]
    · rw [renderLoop, dif_neg h, parse_renderLoop, ih (v / 10) (by omega)]
      simp; omega

/-- every rendered byte is an ASCII digit, so the token is not split by the reader -/
theorem renderLoop_digits : ∀ (v : Nat) (acc : List Nat), (∀ b ∈ acc, 48 ≤ b ∧ b ≤ 57) →
    ∀ b ∈ renderLoop v acc, 48 ≤ b ∧ b ≤ 57 := by
  intro v
  induction v using Nat.strongRecOn with
  | _ v ih =>
    intro acc hacc
    by_cases h : v = 0
    · subst h; simpa [renderLoop] using hacc
    · rw [renderLoop, dif_neg h]
      apply ih (v / 10) (by omega)
      intro b hb
      rcases List.mem_cons.mp hb with rfl | hb
      · omega
      · exact hacc b hb

/-- C09/C06/C19: reading back what was written returns the value, for every natural number -/
theorem parse_render (v : Nat) : parseU (renderU v) = v := by
  unfold parseU renderU
  by_cases h : v = 0
  · subst h; simp
  · rw [if_neg h]; exact parse_renderLoop_zero v
#print axioms parse_render
end Dec
