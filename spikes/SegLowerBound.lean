import SegAskSpec
namespace Seg
variable {T M A : Type} (I : Item T M A)

/-- `lower_bound_internal` (always called with `r = vr`); returns (carry, answer) and the pushed tree -/
def lb (t : Tree T) (item : T) (f : T → Bool) (l vl vr : Nat) : (T × Option Nat) × Tree T :=
  match t with
  | .leaf v =>
    let next := I.merge item v
    if f next then ((next, some vl), .leaf v) else ((next, none), .leaf v)
  | .node v lt rt =>
    if l = vl ∧ ¬ f (I.merge item v) then ((I.merge item v, none), .node v lt rt) else
    let p := I.push v lt.root rt.root
    let lt' := lt.setRoot p.2.1
    let rt' := rt.setRoot p.2.2
    let m := (vl + vr) / 2
    if l ≤ m then
      let q := lb lt' item f l vl m
      match q.1.2 with
      | some i => ((q.1.1, some i), .node p.1 q.2 rt')
      | none =>
        let q2 := lb rt' q.1.1 f (max l (m+1)) (m+1) vr
        (q2.1, .node p.1 q.2 q2.2)
    else
      let q2 := lb rt' item f (max l (m+1)) (m+1) vr
      (q2.1, .node p.1 lt' q2.2)
termination_by t.size
decreasing_by all_goals (simp [Tree.size]; have := Tree.size_pos rt; have := Tree.size_pos lt; omega)

/-- linear scan: the specification of the rightward search -/
def scan (g : A → Bool) : A → List A → Nat → A × Option Nat
  | c, [], _ => (c, none)
  | c, a :: as, i => if g (I.op c a) then (I.op c a, some i) else scan g (I.op c a) as (i+1)

theorem scan_append (g : A → Bool) : ∀ (xs ys : List A) (c : A) (i : Nat),
    scan I g c (xs ++ ys) i =
      match scan I g c xs i with
      | (c', some j) => (c', some j)
      | (c', none) => scan I g c' ys (i + xs.length) := by
  intro xs
  induction xs with
  | nil => intro ys c i; simp [scan]
  | cons a as ih =>
    intro ys c i
    simp only [List.cons_append, scan]
    by_cases h : g (I.op c a)
    · simp [h]
    · simp only [h, Bool.false_eq_true, if_false, ih, List.length_cons]
      rw [show i + 1 + as.length = i + (as.length + 1) by omega]

/-- with a predicate that stays true when the range grows, a false total means nothing inside is true -/
theorem scan_none (g : A → Bool) (hmono : ∀ x y, g x = true → g (I.op x y) = true) :
    ∀ (xs : List A) (c : A) (i : Nat), g (xs.foldl I.op c) = false → scan I g c xs i = (xs.foldl I.op c, none) := by
  intro xs
  induction xs with
  | nil => intro c i _; rfl
  | cons a as ih =>
    intro c i h
    simp only [List.foldl_cons] at h
    have hstep : g (I.op c a) = false := by
      cases hg : g (I.op c a) with
      | false => rfl
      | true =>
        -- then every extension is true as well
        have : ∀ (ys : List A) (z : A), g z = true → g (ys.foldl I.op z) = true := by
          intro ys; induction ys with
          | nil => intro z hz; exact hz
          | cons y ys ihy => intro z hz; exact ihy _ (hmono z y hz)
        rw [this as _ hg] at h; cases h
    simp only [scan, hstep, Bool.false_eq_true, if_false, List.foldl_cons]
    exact ih _ _ h

theorem foldO_cons (a : A) (as : List A) : foldO I (a :: as) = oplus I (some a) (foldO I as) := rfl
theorem oplus_some_some (a b : A) : oplus I (some a) (some b) = some (I.op a b) := rfl

theorem foldO_eq_none : ∀ xs : List A, foldO I xs = none → xs = [] := by
  intro xs; cases xs with
  | nil => intro _; rfl
  | cons a as =>
    intro h; rw [foldO_cons] at h
    cases h2 : foldO I as with
    | none => rw [h2, oplus_none_right] at h; cases h
    | some b => rw [h2, oplus_some_some] at h; cases h

theorem foldl_of_foldO : ∀ (xs : List A) (c a : A), foldO I xs = some a → xs.foldl I.op c = I.op c a := by
  intro xs
  induction xs with
  | nil => intro c a h; simp [foldO] at h
  | cons x xs ih =>
    intro c a h
    rw [foldO_cons] at h
    cases h2 : foldO I xs with
    | none =>
      have := foldO_eq_none I xs h2; subst this
      rw [h2, oplus_none_right] at h
      cases h; rfl
    | some b =>
      rw [h2, oplus_some_some] at h
      cases h
      rw [List.foldl_cons, ih (I.op c x) b h2, I.op_assoc]

theorem lb_spec (f : T → Bool) (g : A → Bool) (hf : ∀ x, f x = g (I.val x))
    (hmono : ∀ x y, g x = true → g (I.op x y) = true)
    (t : Tree T) (item : T) (l vl vr : Nat) (hwf : WF I t) (hs : Shaped t vl vr) (h1 : vl ≤ l) (h2 : l ≤ vr) :
    (I.val (lb I t item f l vl vr).1.1, (lb I t item f l vl vr).1.2) =
        scan I g (I.val item) (slice (den I t) (l - vl) (vr + 1 - vl)) l ∧
    den I (lb I t item f l vl vr).2 = den I t ∧ WF I (lb I t item f l vl vr).2 ∧
    Shaped (lb I t item f l vl vr).2 vl vr := by
  induction t, item, l, vl, vr using lb.induct I f with
  | case1 item l vl vr v next hfn =>
    simp only [Shaped] at hs; subst hs
    have : l = vl := by omega
    subst this
    have hg : g (I.op (I.val item) (I.val v)) = true := by rw [← I.val_merge, ← hf]; exact hfn
    rw [lb, if_pos hfn]
    refine ⟨?_, rfl, trivial, rfl⟩
    simp [den, slice, scan, hg, I.val_merge]
  | case2 item l vl vr v next hfn =>
    simp only [Shaped] at hs; subst hs
    have : l = vl := by omega
    subst this
    have hg : g (I.op (I.val item) (I.val v)) = false := by
      rw [← I.val_merge, ← hf]; simpa using hfn
    rw [lb, if_neg hfn]
    refine ⟨?_, rfl, trivial, rfl⟩
    simp [den, slice, scan, hg, I.val_merge]
  | case3 item l vl vr v lt rt hc =>
    obtain ⟨rfl, hfn⟩ := hc
    rw [lb, if_pos ⟨rfl, hfn⟩]
    refine ⟨?_, rfl, hwf, hs⟩
    have hsz := (Shaped_size _ _ _ hs).1
    have hlen := den_length I (.node v lt rt)
    have e : vr + 1 - l = (den I (.node v lt rt)).length := by omega
    rw [Nat.sub_self, e, slice_all]
    have hfold := foldl_of_foldO I _ (I.val item) _ hwf.2.2.symm
    rw [scan_none I g hmono _ _ _ (by rw [hfold, ← I.val_merge, ← hf]; simpa using hfn), hfold, I.val_merge]
  | case4 item l vl vr v lt rt hc p lt' m hlm q i hqi ih =>
    obtain ⟨hs1, hs2, hs3⟩ := hs
    have hwl := (WF_pushed I v lt rt hwf).1
    have hwr := (WF_pushed I v lt rt hwf).2
    have hsl : Shaped lt' vl m := (Shaped_setRoot _ _ _ _).2 hs2
    obtain ⟨i1, i2, i3, i4⟩ := ih hwl hsl h1 hlm
    have hd := den_pushed I v lt rt
    have hsz := (Shaped_size _ _ _ hsl).1
    have hlen := den_length I lt'
    obtain ⟨w1, w2⟩ := WF_rebuild I v p.1 lt rt q.2 (rt.setRoot p.2.2) hwf
      (I.push_val0 _ _ _) (I.push_pa0 _ _ _) (by rw [i2]; exact hd) i3 hwr
    have hqi' : (lb I (lt.setRoot (I.push v lt.root rt.root).2.1) item f l vl ((vl + vr) / 2)).1.2 = some i := hqi
    have e : lb I (.node v lt rt) item f l vl vr = ((q.1.1, some i), .node p.1 q.2 (rt.setRoot p.2.2)) := by
      rw [lb, if_neg hc, if_pos hlm]; simp only [hqi']; rfl
    rw [e]
    refine ⟨?_, w2, w1, hs1, i4, (Shaped_setRoot _ _ _ _).2 hs3⟩
    rw [hd, slice_append_mid _ _ _ _ (by rw [hlen, hsz]; omega) (by rw [hlen, hsz]; omega), scan_append]
    have e1 : slice (den I lt') (l - vl) (den I lt').length = slice (den I lt') (l - vl) (m + 1 - vl) := by
      rw [hlen, hsz]; congr 1; omega
    rw [e1, ← i1, hqi]
  | case5 item l vl vr v lt rt hc p lt' rt' m hlm q hqn ih _ ih2 =>
    obtain ⟨hs1, hs2, hs3⟩ := hs
    have hwl := (WF_pushed I v lt rt hwf).1
    have hwr := (WF_pushed I v lt rt hwf).2
    have hsl : Shaped lt' vl m := (Shaped_setRoot _ _ _ _).2 hs2
    have hsr : Shaped rt' (m+1) vr := (Shaped_setRoot _ _ _ _).2 hs3
    obtain ⟨i1, i2, i3, i4⟩ := ih hwl hsl h1 hlm
    have hmx : max l (m + 1) = m + 1 := by omega
    obtain ⟨j1, j2, j3, j4⟩ := ih2 hwr hsr (by omega) (by omega)
    have hd := den_pushed I v lt rt
    have hsz := (Shaped_size _ _ _ hsl).1
    have hlen := den_length I lt'
    obtain ⟨w1, w2⟩ := WF_rebuild I v p.1 lt rt q.2 (lb I rt' q.1.1 f (max l (m+1)) (m+1) vr).2 hwf
      (I.push_val0 _ _ _) (I.push_pa0 _ _ _) (by rw [i2, j2]; exact hd) i3 j3
    have hqn' : (lb I (lt.setRoot (I.push v lt.root rt.root).2.1) item f l vl ((vl + vr) / 2)).1.2 = none := hqn
    have e : lb I (.node v lt rt) item f l vl vr =
        ((lb I rt' q.1.1 f (max l (m+1)) (m+1) vr).1, .node p.1 q.2 (lb I rt' q.1.1 f (max l (m+1)) (m+1) vr).2) := by
      rw [lb, if_neg hc, if_pos hlm]; simp only [hqn']; rfl
    rw [e]
    refine ⟨?_, w2, w1, hs1, i4, j4⟩
    rw [hd, slice_append_mid _ _ _ _ (by rw [hlen, hsz]; omega) (by rw [hlen, hsz]; omega), scan_append]
    have e1 : slice (den I lt') (l - vl) (den I lt').length = slice (den I lt') (l - vl) (m + 1 - vl) := by
      rw [hlen, hsz]; congr 1; omega
    have e2 : (slice (den I lt') (l - vl) (m + 1 - vl)).length = m + 1 - l := by
      simp [slice, hlen, hsz]; omega
    have e3 : slice (den I rt') 0 (vr + 1 - vl - (den I lt').length) =
        slice (den I rt') (m + 1 - (m + 1)) (vr + 1 - (m + 1)) := by
      rw [hlen, hsz]; congr 1 <;> omega
    have e4 : l + (m + 1 - l) = m + 1 := by omega
    rw [hmx] at j1
    rw [e1, ← i1, hqn]
    simp only
    rw [e2, e3, e4, hmx, j1]
  | case6 item l vl vr v lt rt hc p rt' m hlm ih =>
    obtain ⟨hs1, hs2, hs3⟩ := hs
    have hwl := (WF_pushed I v lt rt hwf).1
    have hwr := (WF_pushed I v lt rt hwf).2
    have hsl : Shaped (lt.setRoot p.2.1) vl m := (Shaped_setRoot _ _ _ _).2 hs2
    have hsr : Shaped rt' (m+1) vr := (Shaped_setRoot _ _ _ _).2 hs3
    have hmx : max l (m + 1) = l := by omega
    obtain ⟨j1, j2, j3, j4⟩ := ih hwr hsr (by omega) (by omega)
    have hd := den_pushed I v lt rt
    have hsz := (Shaped_size _ _ _ hsl).1
    have hlen := den_length I (lt.setRoot p.2.1)
    obtain ⟨w1, w2⟩ := WF_rebuild I v p.1 lt rt (lt.setRoot p.2.1) (lb I rt' item f (max l (m+1)) (m+1) vr).2 hwf
      (I.push_val0 _ _ _) (I.push_pa0 _ _ _) (by rw [j2]; exact hd) hwl j3
    rw [lb, if_neg hc, if_neg hlm]
    refine ⟨?_, w2, w1, hs1, (Shaped_setRoot _ _ _ _).2 hs2, j4⟩
    have e5 : slice (den I rt') (l - vl - (den I (lt.setRoot p.2.1)).length) (vr + 1 - vl - (den I (lt.setRoot p.2.1)).length) =
        slice (den I rt') (l - (m + 1)) (vr + 1 - (m + 1)) := by
      rw [hlen, hsz]; congr 1 <;> omega
    rw [hmx] at j1
    rw [hd, slice_append_right _ _ _ _ (by rw [hlen, hsz]; omega), e5, hmx, j1]
#print axioms lb_spec
end Seg
