theorem and_mod_two (a b : Nat) : (a &&& b) % 2 = (a % 2) * (b % 2) := by
  have := @Nat.and_mod_two_pow a b 1
  simp at this
  rw [this]
  have ha : a % 2 = 0 ∨ a % 2 = 1 := by omega
  have hb : b % 2 = 0 ∨ b % 2 = 1 := by omega
  rcases ha with h | h <;> rcases hb with h' | h' <;> simp [h, h']

/-- predecessor among submasks -/
theorem submask_step : ∀ (s x : Nat), s ≠ 0 → s &&& x = s →
    ∀ u, u &&& x = u → u < s → u ≤ (s - 1) &&& x := by
  intro s
  induction s using Nat.strongRecOn with
  | _ s ih =>
    intro x hs hsx u hux hus
    have hs2 := Nat.div_add_mod s 2
    have hx2 := Nat.div_add_mod x 2
    have hu2 := Nat.div_add_mod u 2
    have hsx1 := and_mod_two s x
    have hsx2 := @Nat.and_div_two s x
    have hux1 := and_mod_two u x
    have hux2 := @Nat.and_div_two u x
    rw [hsx] at hsx1 hsx2; rw [hux] at hux1 hux2
    have ht1 := and_mod_two (s-1) x
    have ht2 := @Nat.and_div_two (s-1) x
    have htd := Nat.div_add_mod ((s-1) &&& x) 2
    rcases Nat.mod_two_eq_zero_or_one s with h | h
    · -- s even, s = 2 s', s' ≠ 0
      have hs' : s / 2 ≠ 0 := by omega
      have hlt : s / 2 < s := by omega
      have e1 : (s - 1) / 2 = s / 2 - 1 := by omega
      have e2 : (s - 1) % 2 = 1 := by omega
      have := ih (s/2) hlt (x/2) hs' hsx2.symm (u/2) hux2.symm (by omega)
      rw [e1] at ht2; rw [e2] at ht1
      rw [← ht2] at this
      have hb : u % 2 ≤ x % 2 := by
        have hx : x % 2 = 0 ∨ x % 2 = 1 := by omega
        rcases hx with hx | hx <;> simp [hx] at hux1 <;> omega
      simp at ht1
      omega
    · -- s odd: (s-1) &&& x = s - 1 ≥ u
      have hx1 : x % 2 = 1 := by
        have hx : x % 2 = 0 ∨ x % 2 = 1 := by omega
        rcases hx with hx | hx <;> simp [h, hx] at hsx1 <;> omega
      have e1 : (s - 1) / 2 = s / 2 := by omega
      have e2 : (s - 1) % 2 = 0 := by omega
      rw [e1, ← hsx2] at ht2; rw [e2] at ht1
      simp at ht1
      omega
#print axioms submask_step
