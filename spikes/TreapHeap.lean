import TreapSeq
namespace Tr
variable {T E : Type} (I : TItem T E)

/-- root priority is at least `p` (vacuous for the empty tree) -/
def rootGe (p : Nat) : Tree T → Prop
  | .nil => True
  | .node _ q _ _ => p ≤ q

/-- min-heap on priorities along every edge -/
def Heap : Tree T → Prop
  | .nil => True
  | .node _ p l r => rootGe p l ∧ rootGe p r ∧ Heap l ∧ Heap r

theorem rootGe_setItem (p : Nat) (t : Tree T) (o : Option T) : rootGe p (t.setItem? o) ↔ rootGe p t := by
  cases t <;> cases o <;> simp [Tree.setItem?, rootGe]
theorem Heap_setItem (t : Tree T) (o : Option T) : Heap (t.setItem? o) ↔ Heap t := by
  cases t <;> cases o <;> simp [Tree.setItem?, Heap]

theorem rootGe_mono {p q : Nat} (h : p ≤ q) (t : Tree T) : rootGe q t → rootGe p t := by
  cases t <;> simp [rootGe]; omega

theorem merge_heap (a b : Tree T) (ha : Heap a) (hb : Heap b) :
    Heap (merge I a b) ∧ ∀ p, rootGe p a → rootGe p b → rootGe p (merge I a b) := by
  fun_induction merge I a b with
  | case1 b => exact ⟨hb, fun _ _ h => h⟩
  | case2 a _ => exact ⟨ha, fun _ h _ => h⟩
  | case3 ia pa_ la ra ib pb lb rb hlt q ih =>
    obtain ⟨h1, h2, h3, h4⟩ := ha
    have hq1 : rootGe pa_ q.2.1 := by simp only [q, pushParts, rootGe_setItem]; exact h1
    have hq2 : rootGe pa_ q.2.2 := by simp only [q, pushParts, rootGe_setItem]; exact h2
    have hH1 : Heap q.2.1 := by simp only [q, pushParts, Heap_setItem]; exact h3
    have hH2 : Heap q.2.2 := by simp only [q, pushParts, Heap_setItem]; exact h4
    obtain ⟨i1, i2⟩ := ih hH2 hb
    refine ⟨⟨hq1, i2 pa_ hq2 (by simp only [rootGe]; omega), hH1, i1⟩, ?_⟩
    intro p hp _; simpa [upd, rootGe] using hp
  | case4 ia pa_ la ra ib pb lb rb hlt q ih =>
    obtain ⟨h1, h2, h3, h4⟩ := hb
    have hq1 : rootGe pb q.2.1 := by simp only [q, pushParts, rootGe_setItem]; exact h1
    have hq2 : rootGe pb q.2.2 := by simp only [q, pushParts, rootGe_setItem]; exact h2
    have hH1 : Heap q.2.1 := by simp only [q, pushParts, Heap_setItem]; exact h3
    have hH2 : Heap q.2.2 := by simp only [q, pushParts, Heap_setItem]; exact h4
    obtain ⟨i1, i2⟩ := ih ha hH1
    refine ⟨⟨i2 pb (by simp only [rootGe]; omega) hq1, hq2, i1, hH2⟩, ?_⟩
    intro p _ hp; simpa [upd, rootGe] using hp

theorem splitAt_heap (t : Tree T) (pos : Nat) (h : Heap t) :
    Heap (splitAt I t pos).1 ∧ Heap (splitAt I t pos).2 ∧
    ∀ p, rootGe p t → rootGe p (splitAt I t pos).1 ∧ rootGe p (splitAt I t pos).2 := by
  fun_induction splitAt I t pos with
  | case1 pos => simp [Heap, rootGe]
  | case2 pos it p l r q lsz hgt s ih =>
    obtain ⟨h1, h2, h3, h4⟩ := h
    have hq1 : rootGe p q.2.1 := by simp only [q, pushParts, rootGe_setItem]; exact h1
    have hq2 : rootGe p q.2.2 := by simp only [q, pushParts, rootGe_setItem]; exact h2
    have hH1 : Heap q.2.1 := by simp only [q, pushParts, Heap_setItem]; exact h3
    have hH2 : Heap q.2.2 := by simp only [q, pushParts, Heap_setItem]; exact h4
    obtain ⟨i1, i2, i3⟩ := ih hH2
    refine ⟨⟨hq1, (i3 p hq2).1, hH1, i1⟩, i2, ?_⟩
    intro p' hp'
    exact ⟨by simpa [upd, rootGe] using hp', rootGe_mono (by simpa [rootGe] using hp') _ (i3 p hq2).2⟩
  | case3 pos it p l r q lsz hle s ih =>
    obtain ⟨h1, h2, h3, h4⟩ := h
    have hq1 : rootGe p q.2.1 := by simp only [q, pushParts, rootGe_setItem]; exact h1
    have hq2 : rootGe p q.2.2 := by simp only [q, pushParts, rootGe_setItem]; exact h2
    have hH1 : Heap q.2.1 := by simp only [q, pushParts, Heap_setItem]; exact h3
    have hH2 : Heap q.2.2 := by simp only [q, pushParts, Heap_setItem]; exact h4
    obtain ⟨i1, i2, i3⟩ := ih hH1
    refine ⟨i1, ⟨(i3 p hq1).2, hq2, i2, hH2⟩, ?_⟩
    intro p' hp'
    exact ⟨rootGe_mono (by simpa [rootGe] using hp') _ (i3 p hq1).1, by simpa [upd, rootGe] using hp'⟩
#print axioms merge_heap
#print axioms splitAt_heap
end Tr
