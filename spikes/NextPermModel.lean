namespace Np

/-- `rest` is non-increasing; put `x` in place of the rightmost element `> x`, reverse, and put that element in front -/
def swapRev (x : Nat) (rest : List Nat) : List Nat :=
  let bigger := rest.takeWhile (· > x)
  let others := rest.dropWhile (· > x)
  match bigger.getLast? with
  | none => x :: rest            -- unreachable when x < head rest
  | some y => y :: (others.reverse ++ x :: bigger.dropLast.reverse)

/-- next permutation, `none` when the list is non-increasing -/
def np : List Nat → Option (List Nat)
  | [] => none
  | x :: rest =>
    match np rest with
    | some r => some (x :: r)
    | none =>
      match rest with
      | [] => none
      | h :: _ => if x < h then some (swapRev x rest) else none

/-- Rust `next_permutation`: returns the new content and the flag -/
def nextPermutation (xs : List Nat) : List Nat × Bool :=
  match np xs with
  | some ys => (ys, true)
  | none => (xs.reverse, false)

end Np
