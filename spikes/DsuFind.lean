namespace Dsu
structure S where
  p : List Nat
  sz : List Nat

def get (l : List Nat) (i : Nat) : Nat := l.getD i 0

theorem get_set (l : List Nat) (i j a : Nat) :
    get (l.set i a) j = if i = j ∧ i < l.length then a else get l j := by
  unfold get
  by_cases h : i = j
  · subst h
    by_cases hl : i < l.length
    · simp [hl, List.getD_eq_getElem?_getD]
    · simp [hl, List.getD_eq_getElem?_getD]
  · simp [h, List.getD_eq_getElem?_getD]

def par : Nat → S → Nat → Option (S × Nat)
  | 0, _, _ => none
  | f+1, s, v =>
    if get s.p v = v then some (s, v) else
    match par f s (get s.p v) with
    | none => none
    | some (s', r) => some ({ s' with p := s'.p.set v r }, r)

inductive Reach (p : List Nat) : Nat → Nat → Prop
  | root {v} : get p v = v → Reach p v v
  | step {v r} : get p v ≠ v → Reach p (get p v) r → Reach p v r

structure Inv (s : S) (n : Nat) (rank : Nat → Nat) : Prop where
  lp : s.p.length = n
  ls : s.sz.length = n
  bound : ∀ v, v < n → get s.p v < n
  mono : ∀ v, v < n → get s.p v ≠ v → rank v < rank (get s.p v)
  big : ∀ r, r < n → get s.p r = r → 2 ^ rank r ≤ get s.sz r

theorem Reach.isRoot {p v r} (h : Reach p v r) : get p r = r := by
  induction h with
  | root h => exact h
  | step _ _ ih => exact ih

theorem Reach.rank_le {s n rank v r} (hi : Inv s n rank) (hv : v < n) (h : Reach s.p v r) :
    rank v ≤ rank r ∧ r < n ∧ (v ≠ r → rank v < rank r) := by
  induction h with
  | root h => exact ⟨Nat.le_refl _, hv, fun h => absurd rfl h⟩
  | @step v r hne _ ih =>
    have := hi.mono v hv hne
    have hb := hi.bound v hv
    obtain ⟨a, b, _⟩ := ih hb
    exact ⟨by omega, b, fun _ => by omega⟩

theorem Reach.det {p v a b} (h1 : Reach p v a) (h2 : Reach p v b) : a = b := by
  induction h1 with
  | root h => cases h2 with
    | root _ => rfl
    | step hne _ => exact absurd h hne
  | step hne _ ih => cases h2 with
    | root h => exact absurd h hne
    | step _ h2' => exact ih h2'

/-- find with path compression: terminates within `B - rank v + 1` frames, returns the root,
keeps sizes, keeps every vertex's root, keeps the invariant with the same rank function. -/
theorem par_spec (n B : Nat) (rank : Nat → Nat) :
    ∀ (fuel : Nat) (s : S) (v : Nat), Inv s n rank → v < n → (∀ u, u < n → rank u ≤ B) →
      B - rank v < fuel →
      ∃ s' r, par fuel s v = some (s', r) ∧ Reach s.p v r ∧ Inv s' n rank ∧ s'.sz = s.sz ∧
        (∀ u q, u < n → Reach s.p u q → Reach s'.p u q) := by
  intro fuel
  induction fuel with
  | zero => intro s v _ _ _ h; omega
  | succ f ih =>
    intro s v hi hv hB hf
    unfold par
    by_cases hroot : get s.p v = v
    · simp only [hroot, if_true]
      exact ⟨s, v, rfl, Reach.root hroot, hi, rfl, fun _ _ _ h => h⟩
    · simp only [hroot, if_false]
      have hb := hi.bound v hv
      have hm := hi.mono v hv hroot
      have hBp := hB _ hb
      obtain ⟨s1, r, e, hr, hi1, hsz, hpres⟩ := ih s (get s.p v) hi hb hB (by omega)
      rw [e]
      refine ⟨{ s1 with p := s1.p.set v r }, r, rfl, Reach.step hroot hr, ?_, hsz, ?_⟩
      · -- invariant after compressing v
        have hrr := (Reach.rank_le hi hb hr)
        have hroot1 : get s1.p r = r := (hpres _ _ hb hr).isRoot
        constructor
        · simp [hi1.lp]
        · exact hi1.ls
        · intro u hu; simp only [get_set]; split
          · exact hrr.2.1
          · exact hi1.bound u hu
        · intro u hu; simp only [get_set]; split
          · rename_i h; intro _; obtain ⟨rfl, _⟩ := h; omega
          · exact hi1.mono u hu
        · intro q hq; simp only [get_set]; split
          · rename_i h; obtain ⟨rfl, _⟩ := h; intro h2
            -- v became a root?  then r = v, but rank v < rank r
            rw [h2] at hrr; omega
          · exact hi1.big q hq
      · -- every vertex keeps its root
        intro u q hu huq
        have h1 := hpres u q hu huq
        -- compressing v preserves reachability
        have hvr1 : Reach s1.p v r := hpres v r hv (Reach.step hroot hr)
        clear huq
        induction h1 with
        | root h =>
          rename_i w
          by_cases hw : w = v
          · subst hw
            -- v is a root in s1: then r = v
            cases hvr1 with
            | root _ => exact Reach.root (by simp [get_set, h])
            | step hne _ => exact absurd h hne
          · exact Reach.root (by simp [get_set, Ne.symm hw, h])
        | @step w q hne hrest ih2 =>
          by_cases hw : w = v
          · subst hw
            -- root of w in s1 is r (determinism)
            have hq : q = r := Reach.det (Reach.step hne hrest) hvr1
            subst hq
            have hrr := (Reach.rank_le hi hb hr)
            have hne' : q ≠ w := by intro h; rw [h] at hrr; omega
            have hl : w < s1.p.length := by rw [hi1.lp]; exact hv
            have hroot1 : get s1.p q = q := hvr1.isRoot
            refine Reach.step (by simp [get_set, hl]; exact hne') ?_
            simp only [get_set, hl, and_true, if_true]
            exact Reach.root (by simp [get_set, Ne.symm hne', hroot1])
          · have : get (s1.p.set v r) w = get s1.p w := by simp [get_set, Ne.symm hw]
            have hwn : get s1.p w < n := hi1.bound w hu
            exact Reach.step (by rw [this]; exact hne) (by rw [this]; exact ih2 hwn)
#print axioms par_spec
end Dsu
