namespace Rng
/-- `x as u8` for an `i8` value / any integer: reduce mod 2^8 -/
def toU8 (z : Int) : Int := z % 256
/-- `x as i8` for a `u8` value -/
def toI8 (z : Int) : Int := if z % 256 < 128 then z % 256 else z % 256 - 256

/-- `Range<i8>::gen_from_u64` (after the non-empty assert) -/
def genI8 (start end_ : Int) (raw : Nat) : Int :=
  let len := (toU8 end_ - toU8 start) % 256           -- wrapping_sub in u8
  toI8 ((((raw : Int) % len) % 256 + toU8 start) % 256)  -- (raw % len) as u8, wrapping_add, as i8

theorem genI8_in (start end_ : Int) (raw : Nat) (hs : -128 ≤ start) (he : end_ ≤ 127) (hlt : start < end_) :
    start ≤ genI8 start end_ raw ∧ genI8 start end_ raw < end_ := by
  unfold genI8 toU8 toI8
  have hlen : (end_ % 256 - start % 256) % 256 = end_ - start := by omega
  simp only [hlen]
  have hk0 : 0 ≤ (raw : Int) % (end_ - start) := Int.emod_nonneg _ (by omega)
  have hk1 : (raw : Int) % (end_ - start) < end_ - start := Int.emod_lt_of_pos _ (by omega)
  generalize (raw : Int) % (end_ - start) = k at hk0 hk1
  split <;> omega

/-- every value of the range is produced by some raw word -/
theorem genI8_onto (start end_ v : Int) (hs : -128 ≤ start) (he : end_ ≤ 127) (h1 : start ≤ v) (h2 : v < end_) :
    ∃ raw : Nat, genI8 start end_ raw = v := by
  refine ⟨(v - start).toNat, ?_⟩
  unfold genI8 toU8 toI8
  have hlen : (end_ % 256 - start % 256) % 256 = end_ - start := by omega
  simp only [hlen]
  have hc : (((v - start).toNat : Nat) : Int) = v - start := Int.toNat_of_nonneg (by omega)
  have hm : (v - start) % (end_ - start) = v - start := Int.emod_eq_of_lt (by omega) (by omega)
  rw [hc, hm]
  split <;> omega
#print axioms genI8_in
end Rng
