import SegModel
namespace Seg

/-- `MinAdd<i64>` as in segtree_items.rs (unbounded integers) -/
structure MinAdd where
  v : Int
  md : Int
deriving Repr

def minAddItem : Item MinAdd Int Int where
  merge l r := ⟨if l.v < r.v then l.v else r.v, 0⟩
  modify x m := ⟨x.v + m, x.md + m⟩
  push p l r := (⟨p.v, 0⟩, ⟨l.v + p.md, l.md + p.md⟩, ⟨r.v + p.md, r.md + p.md⟩)
  op a b := if a < b then a else b
  val x := x.v
  pa x a := a + x.md
  act m a := a + m
  op_assoc := by intro a b c; show (if (if a < b then a else b) < c then (if a < b then a else b) else c) = (if a < (if b < c then b else c) then a else (if b < c then b else c)); split <;> split <;> (try split) <;> (try split) <;> omega
  act_op := by intro m a b; show (if a < b then a else b) + m = (if a + m < b + m then a + m else b + m); split <;> split <;> omega
  pa_op := by intro x a b; show (if a < b then a else b) + x.md = (if a + x.md < b + x.md then a + x.md else b + x.md); split <;> split <;> omega
  val_merge := by intro x y; rfl
  pa_merge := by intro x y a; show a + 0 = a; omega
  val_modify := by intro x m; rfl
  pa_modify := by intro x m a; simp only; omega
  push_val0 := by intro p l r; rfl
  push_pa0 := by intro p l r a; show a + 0 = a; omega
  push_val1 := by intro p l r; rfl
  push_pa1 := by intro p l r a; simp only; omega
  push_val2 := by intro p l r; rfl
  push_pa2 := by intro p l r a; simp only; omega

/-- `SumAdd<i64>`: observable value is (sum, length) -/
structure SumAdd where
  v : Int
  len : Int
  md : Int
deriving Repr

def sumAddItem : Item SumAdd Int (Int × Int) where
  merge l r := ⟨l.v + r.v, l.len + r.len, 0⟩
  modify x m := ⟨x.v + m * x.len, x.len, x.md + m⟩
  push p l r := (⟨p.v, p.len, 0⟩, ⟨l.v + p.md * l.len, l.len, l.md + p.md⟩, ⟨r.v + p.md * r.len, r.len, r.md + p.md⟩)
  op a b := (a.1 + b.1, a.2 + b.2)
  val x := (x.v, x.len)
  pa x a := (a.1 + x.md * a.2, a.2)
  act m a := (a.1 + m * a.2, a.2)
  op_assoc := by intro a b c; simp only [Prod.mk.injEq]; omega
  act_op := by intro m a b; simp only [Prod.mk.injEq, Int.mul_add]; constructor <;> first | trivial | ac_rfl
  pa_op := by intro x a b; simp only [Prod.mk.injEq, Int.mul_add]; constructor <;> first | trivial | ac_rfl
  val_merge := by intro x y; rfl
  pa_merge := by intro x y a; simp
  val_modify := by intro x m; rfl
  pa_modify := by intro x m a; simp only [Prod.mk.injEq, Int.add_mul]; constructor <;> first | trivial | ac_rfl
  push_val0 := by intro p l r; rfl
  push_pa0 := by intro p l r a; simp
  push_val1 := by intro p l r; rfl
  push_pa1 := by intro p l r a; simp only [Prod.mk.injEq, Int.add_mul]; constructor <;> first | trivial | ac_rfl
  push_val2 := by intro p l r; rfl
  push_pa2 := by intro p l r a; simp only [Prod.mk.injEq, Int.add_mul]; constructor <;> first | trivial | ac_rfl

/-- `Combinator<U, V>`: lawful whenever both components are -/
def prodItem {T U M A B : Type} (I : Item T M A) (J : Item U M B) : Item (T × U) M (A × B) where
  merge l r := (I.merge l.1 r.1, J.merge l.2 r.2)
  modify x m := (I.modify x.1 m, J.modify x.2 m)
  push p l r :=
    let a := I.push p.1 l.1 r.1
    let b := J.push p.2 l.2 r.2
    ((a.1, b.1), (a.2.1, b.2.1), (a.2.2, b.2.2))
  op a b := (I.op a.1 b.1, J.op a.2 b.2)
  val x := (I.val x.1, J.val x.2)
  pa x a := (I.pa x.1 a.1, J.pa x.2 a.2)
  act m a := (I.act m a.1, J.act m a.2)
  op_assoc := by intro a b c; simp [I.op_assoc, J.op_assoc]
  act_op := by intro m a b; simp [I.act_op, J.act_op]
  pa_op := by intro x a b; simp [I.pa_op, J.pa_op]
  val_merge := by intro x y; simp [I.val_merge, J.val_merge]
  pa_merge := by intro x y a; simp [I.pa_merge, J.pa_merge]
  val_modify := by intro x m; simp [I.val_modify, J.val_modify]
  pa_modify := by intro x m a; simp [I.pa_modify, J.pa_modify]
  push_val0 := by intro p l r; simp [I.push_val0, J.push_val0]
  push_pa0 := by intro p l r a; simp [I.push_pa0, J.push_pa0]
  push_val1 := by intro p l r; simp [I.push_val1, J.push_val1]
  push_pa1 := by intro p l r a; simp [I.push_pa1, J.push_pa1]
  push_val2 := by intro p l r; simp [I.push_val2, J.push_val2]
  push_pa2 := by intro p l r a; simp [I.push_pa2, J.push_pa2]
end Seg
