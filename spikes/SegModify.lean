import SegAskSpec
namespace Seg
variable {T M A : Type} (I : Item T M A)

/-- `merge_at(i)` with the default `update` -/
def mergeAt : Tree T → Tree T
  | .leaf v => .leaf v
  | .node _ l r => .node (I.merge l.root r.root) l r

/-- `modify_internal` -/
def modifyI (t : Tree T) (l r : Nat) (md : M) (vl vr : Nat) : Tree T :=
  match t with
  | .leaf v => .leaf (I.modify v md)
  | .node v lt rt =>
    if l = vl ∧ r = vr then .node (I.modify v md) lt rt else
    let p := I.push v lt.root rt.root
    let lt' := lt.setRoot p.2.1
    let rt' := rt.setRoot p.2.2
    let m := (vl + vr) / 2
    if r ≤ m then
      mergeAt I (.node p.1 (modifyI lt' l r md vl m) rt')
    else if l > m then
      mergeAt I (.node p.1 lt' (modifyI rt' l r md (m+1) vr))
    else
      mergeAt I (.node p.1 (modifyI lt' l m md vl m) (modifyI rt' (m+1) r md (m+1) vr))
termination_by t.size
decreasing_by all_goals (simp [Tree.size]; have := Tree.size_pos rt; have := Tree.size_pos lt; omega)

/-- apply `f` to positions `[a, b)` -/
def mapRange (f : A → A) (a b : Nat) (xs : List A) : List A :=
  xs.take a ++ (slice xs a b).map f ++ xs.drop b

theorem mapRange_all (f : A → A) (xs : List A) : mapRange f 0 xs.length xs = xs.map f := by
  simp [mapRange, slice]

theorem mapRange_append_left (f : A → A) (xs ys : List A) (a b : Nat) (hab : a ≤ b) (h : b ≤ xs.length) :
    mapRange f a b (xs ++ ys) = mapRange f a b xs ++ ys := by
  simp only [mapRange, slice_append_left xs ys a b h]
  rw [List.take_append_of_le_length (by omega), List.drop_append_of_le_length h]
  simp

theorem mapRange_append_right (f : A → A) (xs ys : List A) (a b : Nat) (hab : a ≤ b) (h : xs.length ≤ a) :
    mapRange f a b (xs ++ ys) = xs ++ mapRange f (a - xs.length) (b - xs.length) ys := by
  simp only [mapRange, slice_append_right xs ys a b h]
  rw [List.take_append, List.take_of_length_le h, List.drop_append, List.drop_eq_nil_of_le (by omega)]
  simp

theorem mapRange_append_mid (f : A → A) (xs ys : List A) (a b : Nat) (ha : a ≤ xs.length) (hb : xs.length ≤ b) :
    mapRange f a b (xs ++ ys) = mapRange f a xs.length xs ++ mapRange f 0 (b - xs.length) ys := by
  simp only [mapRange, slice_append_mid xs ys a b ha hb]
  rw [List.take_append_of_le_length ha, List.drop_append, List.drop_eq_nil_of_le hb]
  simp

theorem foldO_map_act (md : M) (xs : List A) : foldO I (xs.map (I.act md)) = (foldO I xs).map (I.act md) := by
  induction xs with
  | nil => rfl
  | cons a as ih =>
    simp only [foldO, List.map_cons, List.foldr_cons] at *
    rw [ih]
    cases List.foldr (fun a acc => oplus I (some a) acc) none as <;> simp [oplus, I.act_op]

/-- a modifier applied at a node is the modifier applied to every element below it -/
theorem modify_node (v : T) (lt rt : Tree T) (md : M) (hwf : WF I (.node v lt rt)) :
    den I (.node (I.modify v md) lt rt) = (den I (.node v lt rt)).map (I.act md) ∧
    WF I (.node (I.modify v md) lt rt) := by
  have e : den I (.node (I.modify v md) lt rt) = (den I (.node v lt rt)).map (I.act md) := by
    simp only [den, List.map_map]
    apply List.map_congr_left; intro a _; simp [I.pa_modify]
  refine ⟨e, hwf.1, hwf.2.1, ?_⟩
  rw [e, foldO_map_act, ← hwf.2.2, I.val_modify]; rfl

theorem mergeAt_spec (v : T) (l r : Tree T) (hl : WF I l) (hr : WF I r) :
    den I (mergeAt I (.node v l r)) = den I l ++ den I r ∧ WF I (mergeAt I (.node v l r)) := by
  have hid : I.pa (I.merge l.root r.root) = id := by funext a; simp [I.pa_merge]
  have e : den I (mergeAt I (.node v l r)) = den I l ++ den I r := by simp [mergeAt, den, hid]
  refine ⟨e, hl, hr, ?_⟩
  have := e; simp only [mergeAt] at this
  rw [this, foldO_append, ← WF_root I l hl, ← WF_root I r hr, I.val_merge]; rfl

theorem Shaped_mergeAt (v : T) (l r : Tree T) (vl vr : Nat) :
    Shaped (mergeAt I (.node v l r)) vl vr ↔ Shaped (.node v l r) vl vr := by
  simp [mergeAt, Shaped]

theorem modify_spec (md : M) (t : Tree T) (l r vl vr : Nat) (hwf : WF I t) (hs : Shaped t vl vr)
    (h1 : vl ≤ l) (h2 : l ≤ r) (h3 : r ≤ vr) :
    den I (modifyI I t l r md vl vr) = mapRange (I.act md) (l - vl) (r + 1 - vl) (den I t) ∧
    WF I (modifyI I t l r md vl vr) ∧ Shaped (modifyI I t l r md vl vr) vl vr := by
  induction t, l, r, vl, vr using modifyI.induct I with
  | case1 l r vl vr v =>
    simp only [Shaped] at hs; subst hs
    have : l = vl := by omega
    have : r = vl := by omega
    subst_vars
    rw [modifyI]
    simp [den, mapRange, slice, WF, Shaped, I.val_modify]
  | case2 l r vl vr v lt rt hc =>
    obtain ⟨rfl, rfl⟩ := hc
    rw [modifyI, if_pos ⟨rfl, rfl⟩]
    obtain ⟨e, w⟩ := modify_node I v lt rt md hwf
    refine ⟨?_, w, hs⟩
    have hsz := (Shaped_size _ _ _ hs).1
    have hlen := den_length I (.node v lt rt)
    rw [e, Nat.sub_self, show r + 1 - l = (den I (.node v lt rt)).length by omega, mapRange_all]
  | case3 l r vl vr v lt rt hc p lt' m hrm ih =>
    obtain ⟨hs1, hs2, hs3⟩ := hs
    have hwl := (WF_pushed I v lt rt hwf).1
    have hwr := (WF_pushed I v lt rt hwf).2
    have hsl : Shaped lt' vl m := (Shaped_setRoot _ _ _ _).2 hs2
    obtain ⟨i1, i2, i3⟩ := ih hwl hsl h1 h2 hrm
    have hd := den_pushed I v lt rt
    have hsz := (Shaped_size _ _ _ hsl).1
    have hlen := den_length I lt'
    rw [modifyI, if_neg hc, if_pos hrm]
    obtain ⟨e, w⟩ := mergeAt_spec I p.1 (modifyI I lt' l r md vl m) (rt.setRoot p.2.2) i2 hwr
    refine ⟨?_, w, (Shaped_mergeAt I _ _ _ _ _).2 ⟨hs1, i3, (Shaped_setRoot _ _ _ _).2 hs3⟩⟩
    rw [e, i1, hd, mapRange_append_left _ _ _ _ _ (by omega) (by rw [hlen, hsz]; omega)]
  | case4 l r vl vr v lt rt hc p rt' m hrm hlm ih =>
    obtain ⟨hs1, hs2, hs3⟩ := hs
    have hwl := (WF_pushed I v lt rt hwf).1
    have hwr := (WF_pushed I v lt rt hwf).2
    have hsl : Shaped (lt.setRoot p.2.1) vl m := (Shaped_setRoot _ _ _ _).2 hs2
    have hsr : Shaped rt' (m+1) vr := (Shaped_setRoot _ _ _ _).2 hs3
    obtain ⟨i1, i2, i3⟩ := ih hwr hsr hlm h2 h3
    have hd := den_pushed I v lt rt
    have hsz := (Shaped_size _ _ _ hsl).1
    have hlen := den_length I (lt.setRoot p.2.1)
    rw [modifyI, if_neg hc, if_neg hrm, if_pos hlm]
    obtain ⟨e, w⟩ := mergeAt_spec I p.1 (lt.setRoot p.2.1) (modifyI I rt' l r md (m+1) vr) hwl i2
    refine ⟨?_, w, (Shaped_mergeAt I _ _ _ _ _).2 ⟨hs1, hsl, i3⟩⟩
    rw [e, i1, hd, mapRange_append_right _ _ _ _ _ (by omega) (by rw [hlen, hsz]; omega), hlen, hsz]
    congr 2 <;> omega
  | case5 l r vl vr v lt rt hc p lt' rt' m hrm hlm ih1 ih2 =>
    obtain ⟨hs1, hs2, hs3⟩ := hs
    have hwl := (WF_pushed I v lt rt hwf).1
    have hwr := (WF_pushed I v lt rt hwf).2
    have hsl : Shaped lt' vl m := (Shaped_setRoot _ _ _ _).2 hs2
    have hsr : Shaped rt' (m+1) vr := (Shaped_setRoot _ _ _ _).2 hs3
    obtain ⟨i1, i2, i3⟩ := ih1 hwl hsl h1 (by omega) (Nat.le_refl _)
    obtain ⟨j1, j2, j3⟩ := ih2 hwr hsr (Nat.le_refl _) (by omega) h3
    have hd := den_pushed I v lt rt
    have hsz := (Shaped_size _ _ _ hsl).1
    have hlen := den_length I lt'
    rw [modifyI, if_neg hc, if_neg hrm, if_neg hlm]
    obtain ⟨e, w⟩ := mergeAt_spec I p.1 (modifyI I lt' l m md vl m) (modifyI I rt' (m+1) r md (m+1) vr) i2 j2
    refine ⟨?_, w, (Shaped_mergeAt I _ _ _ _ _).2 ⟨hs1, i3, j3⟩⟩
    rw [e, i1, j1, hd, mapRange_append_mid _ _ _ _ _ (by rw [hlen, hsz]; omega) (by rw [hlen, hsz]; omega),
      hlen, hsz]
    congr 2 <;> omega
#print axioms modify_spec
end Seg
