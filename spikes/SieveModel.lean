namespace Sv
structure St where
  isp : Array Bool
  mnp : Array Nat
  primes : Array Nat

def inner (n i : Nat) : List Nat → Array Nat → Array Nat
  | [], m => m
  | p :: ps, m =>
    if p > m.getD i 0 ∨ p * i ≥ n then m else inner n i ps (m.setIfInBounds (p * i) p)

def stepI (n : Nat) (s : St) (i : Nat) : St :=
  let s1 : St := if s.mnp.getD i 0 = 0 then
      { isp := s.isp.setIfInBounds i true, mnp := s.mnp.setIfInBounds i i, primes := s.primes.push i }
    else s
  { s1 with mnp := inner n i s1.primes.toList s1.mnp }

def init (n : Nat) : St := { isp := Array.replicate n false, mnp := Array.replicate n 0, primes := #[] }

/-- `Sieve::new(N)` -/
def sieve (N : Nat) : St := (List.range' 2 (N + 1 - 2)).foldl (stepI (N + 1)) (init (N + 1))

end Sv
