import Mathlib.Tactic.Ring
import Mathlib.Tactic.Linarith
import Mathlib.Tactic.LinearCombination
namespace Mint
/-- i32 wrap-around -/
def w32 (z : Int) : Int := (z + 2^31) % 2^32 - 2^31

theorem w32_id (z : Int) (h1 : -2^31 ≤ z) (h2 : z < 2^31) : w32 z = z := by
  unfold w32; omega

/-- the `inv` loop on machine i32 values (`tdiv` = Rust `/`), every arithmetic result wrapped -/
def invLoop : Nat → Int → Int → Int → Int → Option Int
  | 0, _, _, _, _ => none
  | fuel+1, a, b, x, y =>
    if a = 0 then some x else
    let k := Int.tdiv b a
    let b' := w32 (b - w32 (k * a))
    let x' := w32 (x - w32 (k * y))
    invLoop fuel b' a y x'

theorem invLoop_spec (M v : Int) (hM2 : M < 2^31) :
    ∀ (fuel : Nat) (a b x y X Y s : Int), (s = 1 ∨ s = -1) → x = -s * X → y = s * Y →
      0 ≤ X → 0 ≤ Y → X ≤ M → Y ≤ M → 0 ≤ a → 0 ≤ b → b < 2^31 → a < 2^31 → a * X + b * Y = M →
      (∃ t, y * v - a = t * M) → (∃ t, x * v - b = t * M) → a.toNat < fuel →
      ∃ r, invLoop fuel a b x y = some r ∧ (∃ t, r * v - (Int.gcd a b : Int) = t * M) ∧ -M ≤ r ∧ r ≤ M := by
  intro fuel
  induction fuel with
  | zero => intro a b x y X Y s _ _ _ _ _ _ _ ha _ _ _ _ _ _ hf; omega
  | succ n ih =>
    intro a b x y X Y s hs hx hy hX hY hXM hYM ha hb hb31 ha31 hinv hya hxb hf
    unfold invLoop
    by_cases ha0 : a = 0
    · subst ha0
      simp only [if_true]
      refine ⟨x, rfl, ?_, ?_, ?_⟩
      · obtain ⟨t, ht⟩ := hxb
        refine ⟨t, ?_⟩
        have : (Int.gcd 0 b : Int) = b := by simp [abs_of_nonneg hb]
        rw [this]; exact ht
      · rcases hs with rfl | rfl <;> (subst hx; nlinarith)
      · rcases hs with rfl | rfl <;> (subst hx; nlinarith)
    · simp only [ha0, if_false]
      have hapos : 0 < a := by omega
      have hk : Int.tdiv b a = b / a := Int.tdiv_eq_ediv_of_nonneg hb
      have hk0 : 0 ≤ b / a := Int.ediv_nonneg hb ha
      have hka : b / a * a ≤ b := Int.ediv_mul_le b (by omega)
      have hmod : b - b / a * a = b % a := by
        have := Int.emod_add_mul_ediv b a; nlinarith
      have hmod0 : 0 ≤ b % a := Int.emod_nonneg b (by omega)
      have hmodlt : b % a < a := Int.emod_lt_of_pos b hapos
      -- new cofactor magnitude
      have hY' : a * (X + b / a * Y) + (b % a) * Y = M := by rw [← hmod]; nlinarith
      have hY'M : X + b / a * Y ≤ M := by nlinarith [mul_nonneg hmod0 hY, mul_nonneg hk0 hY]
      have hkY0 : 0 ≤ b / a * Y := mul_nonneg hk0 hY
      rw [hk]
      have e1 : w32 (b / a * a) = b / a * a := w32_id _ (by nlinarith) (by omega)
      have e2 : w32 (b - b / a * a) = b % a := by rw [hmod]; exact w32_id _ (by omega) (by omega)
      have hky : b / a * y = s * (b / a * Y) := by rw [hy]; ring
      have e3 : w32 (b / a * y) = b / a * y := by
        apply w32_id <;> rw [hky] <;> rcases hs with rfl | rfl <;> nlinarith
      have hx' : x - b / a * y = -s * (X + b / a * Y) := by rw [hx, hy]; ring
      have e4 : w32 (x - b / a * y) = x - b / a * y := by
        apply w32_id <;> rw [hx'] <;> rcases hs with rfl | rfl <;> nlinarith
      simp only [e1, e2, e3, e4]
      have hgcd : Int.gcd (b % a) a = Int.gcd a b := by
        rw [← hmod, show b - b / a * a = b + (-(b / a)) * a by ring, Int.gcd_add_mul_right_left,
          Int.gcd_comm]
      obtain ⟨ty, hty⟩ := hya
      obtain ⟨tx, htx⟩ := hxb
      have c1 : (-s = 1 ∨ -s = -1) := by rcases hs with rfl | rfl <;> simp
      have c2 : y = -(-s) * Y := by rw [hy]; ring
      have c3 : x - b / a * y = -s * (X + b / a * Y) := hx'
      have c4 : 0 ≤ X + b / a * Y := by nlinarith
      have c5 : b % a < 2 ^ 31 := lt_trans hmodlt ha31
      have c6 : b % a * Y + a * (X + b / a * Y) = M := by linear_combination hY'
      have c7 : ∃ t, (x - b / a * y) * v - b % a = t * M := ⟨tx - b / a * ty, by rw [← hmod]; linear_combination htx - (b / a) * hty⟩
      have c8 : (b % a).toNat < n := by
        have h1 : (b % a).toNat < a.toNat := (Int.toNat_lt_toNat hapos).mpr hmodlt
        exact lt_of_lt_of_le h1 (Nat.lt_succ_iff.mp hf)
      obtain ⟨r, hr, ⟨t, ht⟩, hr1, hr2⟩ := ih (b % a) a y (x - b / a * y) Y (X + b / a * Y) (-s)
        c1 c2 c3 hY c4 hYM hY'M hmod0 ha ha31 c5 c6 c7 ⟨ty, hty⟩ c8
      exact ⟨r, hr, ⟨t, by rw [← hgcd]; exact ht⟩, hr1, hr2⟩

/-- C06 `inv`: for every modulus `2 ≤ M < 2^31` and every canonical residue `v`, the i32 loop never
wraps, terminates, and returns `r` with `r * v ≡ gcd(v, M) (mod M)`, `|r| ≤ M`. -/
theorem inv_spec (M v : Int) (hM : 2 ≤ M) (hM2 : M < 2^31) (hv0 : 0 ≤ v) (hvM : v < M) :
    ∃ r, invLoop (v.toNat + 1) v M 0 1 = some r ∧ (∃ t, r * v - (Int.gcd v M : Int) = t * M) ∧ -M ≤ r ∧ r ≤ M := by
  exact invLoop_spec M v hM2 (v.toNat + 1) v M 0 1 0 1 1 (Or.inl rfl) (by ring) (by ring) (le_refl _) (by omega)
    (by omega) (by omega) hv0 (by omega) hM2 (by omega) (by ring) ⟨0, by ring⟩ ⟨-1, by ring⟩ (by omega)
#print axioms inv_spec
end Mint
