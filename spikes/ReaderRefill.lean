namespace Rd
inductive Ev where
  | data (bs : List Nat)   -- non-empty chunk the source is willing to hand over in one read
  | intr                   -- ErrorKind::Interrupted
deriving Repr

structure RS where
  buf : List Nat
  b : Nat          -- begin
  e : Nat          -- end
  eof : Bool
  src : List Ev

def srcBytes : List Ev → List Nat
  | [] => []
  | .data bs :: t => bs ++ srcBytes t
  | .intr :: t => srcBytes t

def window (s : RS) : List Nat := (s.buf.drop s.b).take (s.e - s.b)

/-- everything that is still to be read -/
def R (s : RS) : List Nat := window s ++ srcBytes s.src

/-- one `read` call into a buffer with `room` free bytes, retrying on Interrupted (fixed code) -/
def readRetry (room : Nat) : List Ev → List Nat × List Ev
  | [] => ([], [])
  | .intr :: t => readRetry room t
  | .data bs :: t =>
    let k := min room bs.length
    (bs.take k, if k < bs.length then .data (bs.drop k) :: t else t)

def SrcOk : List Ev → Prop
  | [] => True
  | .data bs :: t => bs ≠ [] ∧ SrcOk t
  | .intr :: t => SrcOk t

theorem readRetry_spec (room : Nat) (hr : 0 < room) (src : List Ev) (h : SrcOk src) :
    let r := readRetry room src
    r.1 ++ srcBytes r.2 = srcBytes src ∧ r.1.length ≤ room ∧ SrcOk r.2 ∧
    (r.1 = [] → srcBytes src = [] ∧ r.2 = []) := by
  induction src with
  | nil => simp [readRetry, srcBytes, SrcOk]
  | cons ev t ih =>
    cases ev with
    | intr => simpa [readRetry, srcBytes, SrcOk] using ih h
    | data bs =>
      obtain ⟨hne, ht⟩ := h
      have hl : 0 < bs.length := List.length_pos_iff.mpr hne
      simp only [readRetry, srcBytes]
      by_cases hk : min room bs.length < bs.length
      · simp only [hk, if_true, srcBytes, SrcOk]
        refine ⟨by rw [← List.append_assoc, List.take_append_drop], by rw [List.length_take]; exact Nat.le_trans (Nat.min_le_left _ _) (Nat.min_le_left _ _), ⟨?_, ht⟩, ?_⟩
        · intro h0; have := congrArg List.length h0; simp at this; omega
        · intro h0
          have hk0 : 0 < min room bs.length := Nat.lt_min.mpr ⟨hr, hl⟩
          rcases List.take_eq_nil_iff.mp h0 with h | h
          · omega
          · exact absurd h hne
      · simp only [hk, if_false]
        have : min room bs.length = bs.length := by omega
        rw [this, List.take_length]
        exact ⟨rfl, by omega, ht, fun h0 => absurd h0 hne⟩

def refill (s : RS) : RS :=
  if s.eof then s else
  let buf1 := if s.b ≠ 0 then window s ++ s.buf.drop (s.e - s.b) else s.buf
  let e1 := if s.b ≠ 0 then s.e - s.b else s.e
  let r := readRetry (buf1.length - e1) s.src
  { buf := buf1.take e1 ++ r.1 ++ buf1.drop (e1 + r.1.length), b := 0, e := e1 + r.1.length,
    eof := r.1.isEmpty, src := r.2 }

structure Inv (BUF : Nat) (s : RS) : Prop where
  len : s.buf.length = BUF
  be : s.b ≤ s.e
  eB : s.e ≤ BUF
  src : SrcOk s.src
  eof : s.eof = true → s.src = [] ∧ s.b = s.e

/-- refilling an empty window does not change what is left to read, and sets eof iff nothing is left -/
theorem refill_spec (BUF : Nat) (hB : 0 < BUF) (s : RS) (hi : Inv BUF s) (hemp : s.b = s.e) :
    R (refill s) = R s ∧ Inv BUF (refill s) ∧ ((refill s).eof = true ↔ R s = []) ∧
    ((refill s).eof = false → (refill s).b < (refill s).e) := by
  have hw : window s = [] := by simp [window, hemp]
  have hR : R s = srcBytes s.src := by simp [R, hw]
  by_cases heof : s.eof = true
  · obtain ⟨h1, h2⟩ := hi.eof heof
    have : refill s = s := by simp [refill, heof]
    rw [this]
    refine ⟨rfl, hi, ?_, ?_⟩
    · simp [heof, hR, h1, srcBytes]
    · intro h; rw [heof] at h; cases h
  · have heof' : s.eof = false := by cases h : s.eof <;> simp_all
    have hbuf1 : (if s.b ≠ 0 then window s ++ s.buf.drop (s.e - s.b) else s.buf) = s.buf := by
      split <;> simp [hw, hemp]
    have he1 : (if s.b ≠ 0 then s.e - s.b else s.e) = 0 := by split <;> omega
    obtain ⟨r1, r2, r3, r4⟩ := readRetry_spec s.buf.length (by rw [hi.len]; omega) s.src hi.src
    have r2' : (readRetry s.buf.length s.src).1.length ≤ BUF := by rw [hi.len] at r2; rw [hi.len]; exact r2
    simp only [refill, heof', hbuf1, he1, Bool.false_eq_true, if_false, List.take_zero, List.nil_append,
      Nat.zero_add, Nat.sub_zero]
    refine ⟨?_, ?_, ?_, ?_⟩
    · simp only [R, window, List.drop_zero, Nat.sub_zero]
      rw [List.take_append_of_le_length (Nat.le_refl _), List.take_length]
      rw [show List.take (s.e - s.b) (List.drop s.b s.buf) = [] from hw, List.nil_append]; exact r1
    · constructor
      · simp only [List.length_append, List.length_drop]; have := hi.len; omega
      · exact Nat.zero_le _
      · exact r2'
      · exact r3
      · intro h
        have h' : (readRetry s.buf.length s.src).1 = [] := List.isEmpty_iff.mp h
        exact ⟨(r4 h').2, by simp [h']⟩
    · simp only [List.isEmpty_iff, hR]
      constructor
      · intro h; exact (r4 h).1
      · intro h; rw [h] at r1
        exact (List.append_eq_nil_iff.mp r1).1
    · intro h
      exact List.length_pos_iff.mpr (by intro h0; rw [h0] at h; exact absurd h (by decide))
#print axioms refill_spec
end Rd
