import SieveModel
import Mathlib.Data.Nat.Prime.Basic
import Mathlib.Tactic.Linarith
namespace Sv

theorem getD_set (m : Array Nat) (j c v : Nat) :
    (m.setIfInBounds j v).getD c 0 = if j = c ∧ j < m.size then v else m.getD c 0 := by
  simp only [Array.getD_eq_getD_getElem?, Array.getElem?_setIfInBounds]
  by_cases h : j = c
  · subst h
    by_cases hl : j < m.size
    · simp [hl]
    · simp [hl]
  · simp [h]

theorem minFac_mul {p i : Nat} (hp : p.Prime) (hi : 2 ≤ i) (hle : p ≤ i.minFac) :
    (p * i).minFac = p := by
  have h1 : (p * i).minFac ≤ p := Nat.minFac_le_of_dvd hp.two_le (Dvd.intro _ rfl)
  have hpi : p * i ≠ 1 := by
    have := hp.two_le; nlinarith
  have hq := Nat.minFac_prime hpi
  have hd := Nat.minFac_dvd (p * i)
  rcases (Nat.Prime.dvd_mul hq).mp hd with h | h
  · exact (Nat.prime_dvd_prime_iff_eq hq hp).mp h
  · have : i.minFac ≤ (p * i).minFac := Nat.minFac_le_of_dvd hq.two_le h
    omega

/-- effect of the inner loop: exactly the indices `p*i` with `p` a listed prime `≤ q` and `p*i < n` are written -/
theorem inner_spec (n i q : Nat) (hi : 2 ≤ i) :
    ∀ (ps : List Nat) (m : Array Nat), m.size = n → m.getD i 0 = q →
      ps.Pairwise (· < ·) → (∀ p ∈ ps, 2 ≤ p) →
      (inner n i ps m).size = n ∧
      ∀ c, (inner n i ps m).getD c 0 =
        if _h : ∃ p ∈ ps, p ≤ q ∧ p * i < n ∧ c = p * i then c / i else m.getD c 0 := by
  intro ps
  induction ps with
  | nil => intro m hm _ _ _; simp [inner, hm]
  | cons p ps ih =>
    intro m hm hq hsorted hge
    have hp2 : 2 ≤ p := hge p (List.mem_cons_self ..)
    rw [List.pairwise_cons] at hsorted
    unfold inner
    by_cases hbrk : p > m.getD i 0 ∨ p * i ≥ n
    · simp only [hbrk, if_true]
      refine ⟨hm, fun c => ?_⟩
      rw [dif_neg]
      rintro ⟨p', hp', h1, h2, _⟩
      rcases List.mem_cons.mp hp' with rfl | hmem
      · rw [hq] at hbrk; omega
      · have := hsorted.1 p' hmem
        rw [hq] at hbrk
        rcases hbrk with hb | hb
        · omega
        · have : p * i < p' * i := Nat.mul_lt_mul_of_pos_right this (by omega)
          omega
    · simp only [hbrk, if_false]
      have hb1 : p ≤ q := by rw [hq] at hbrk; omega
      have hb2 : p * i < n := by omega
      have hne : p * i ≠ i := by nlinarith
      have hm' : (m.setIfInBounds (p * i) p).size = n := by simp [hm]
      have hq' : (m.setIfInBounds (p * i) p).getD i 0 = q := by
        rw [getD_set]; simp [hne, hq]
      obtain ⟨r1, r2⟩ := ih _ hm' hq' hsorted.2 (fun x hx => hge x (List.mem_cons_of_mem _ hx))
      refine ⟨r1, fun c => ?_⟩
      rw [r2 c]
      by_cases hc : ∃ p' ∈ ps, p' ≤ q ∧ p' * i < n ∧ c = p' * i
      · rw [dif_pos hc, dif_pos]
        obtain ⟨p', hp', h⟩ := hc
        exact ⟨p', List.mem_cons_of_mem _ hp', h⟩
      · rw [dif_neg hc, getD_set]
        by_cases hcp : c = p * i
        · subst hcp
          rw [dif_pos ⟨p, List.mem_cons_self .., hb1, hb2, rfl⟩]
          simp [hm, hb2]; exact (Nat.mul_div_cancel _ (by omega)).symm
        · have : ¬ (p * i = c ∧ p * i < m.size) := fun h => hcp h.1.symm
          rw [if_neg this, dif_neg]
          rintro ⟨p', hp', h1, h2, h3⟩
          rcases List.mem_cons.mp hp' with rfl | hmem
          · exact hcp h3
          · exact hc ⟨p', hmem, h1, h2, h3⟩

/-- `c`'s table entry is final after all `i < k` have been processed -/
def Good (k c : Nat) : Prop := 2 ≤ c ∧ ((c.Prime ∧ c < k) ∨ (¬ c.Prime ∧ c / c.minFac < k))

structure Inv (n k : Nat) (s : St) : Prop where
  szm : s.mnp.size = n
  szi : s.isp.size = n
  primes : s.primes.toList = (List.range k).filter Nat.Prime
  good : ∀ c, c < n → Good k c → s.mnp.getD c 0 = c.minFac
  bad : ∀ c, c < n → ¬ Good k c → s.mnp.getD c 0 = 0
  isp : ∀ c, c < n → (s.isp.getD c false = true ↔ c.Prime ∧ c < k)

theorem composite_facts {c : Nat} (h2 : 2 ≤ c) (hc : ¬ c.Prime) :
    c = c.minFac * (c / c.minFac) ∧ c.minFac ≤ c / c.minFac ∧ 2 ≤ c / c.minFac ∧
    c.minFac ≤ (c / c.minFac).minFac ∧ c.minFac.Prime := by
  have hp : c.minFac.Prime := Nat.minFac_prime (by omega)
  have hd := Nat.minFac_dvd c
  have e : c = c.minFac * (c / c.minFac) := (Nat.mul_div_cancel' hd).symm
  have hsq := Nat.minFac_sq_le_self (by omega) hc
  have hle : c.minFac ≤ c / c.minFac := by
    rw [Nat.le_div_iff_mul_le hp.pos]; nlinarith [hsq, sq c.minFac]
  have h2k : 2 ≤ c / c.minFac := le_trans hp.two_le hle
  refine ⟨e, hle, h2k, ?_, hp⟩
  have hk1 : c / c.minFac ≠ 1 := by omega
  have : (c / c.minFac).minFac ∣ c :=
    Dvd.dvd.trans (Nat.minFac_dvd _) (Nat.div_dvd_of_dvd hd)
  exact Nat.minFac_le_of_dvd (Nat.minFac_prime hk1).two_le this

theorem getDb_set (m : Array Bool) (j c : Nat) (v : Bool) :
    (m.setIfInBounds j v).getD c false = if j = c ∧ j < m.size then v else m.getD c false := by
  simp only [Array.getD_eq_getD_getElem?, Array.getElem?_setIfInBounds]
  by_cases h : j = c
  · subst h
    by_cases hl : j < m.size
    · simp [hl]
    · simp [hl]
  · simp [h]

theorem sorted_filter_range (k : Nat) : ((List.range k).filter Nat.Prime).Pairwise (· < ·) :=
  List.Pairwise.filter _ (List.pairwise_lt_range)

theorem step_inv (n k : Nat) (s : St) (hk : 2 ≤ k) (hkn : k < n) (hi : Inv n k s) :
    Inv n (k + 1) (stepI n s k) := by
  -- value at k before the step
  have hv : s.mnp.getD k 0 = 0 ↔ k.Prime := by
    constructor
    · intro h0
      by_contra hnp
      have hg : Good k k := ⟨hk, Or.inr ⟨hnp, by
        have := (composite_facts hk hnp); have hp := this.2.2.2.2.two_le
        exact Nat.div_lt_self (by omega) hp⟩⟩
      have := hi.good k hkn hg
      have hp := (Nat.minFac_prime (by omega : k ≠ 1)).two_le
      omega
    · intro hp
      exact hi.bad k hkn (by rintro ⟨_, ⟨_, h⟩ | ⟨h, _⟩⟩ <;> [omega; exact h hp])
  have hrange : (List.range (k + 1)).filter Nat.Prime =
      (List.range k).filter Nat.Prime ++ (if k.Prime then [k] else []) := by
    rw [List.range_succ, List.filter_append]
    by_cases hp : k.Prime <;> simp [hp]
  obtain ⟨s1, hs1, h1szm, h1szi, h1primes, h1k, h1good, h1bad, h1isp⟩ :
     ∃ s1 : St, stepI n s k = { s1 with mnp := inner n k s1.primes.toList s1.mnp } ∧
       s1.mnp.size = n ∧ s1.isp.size = n ∧
       s1.primes.toList = (List.range (k+1)).filter Nat.Prime ∧
       s1.mnp.getD k 0 = k.minFac ∧
       (∀ c, c < n → (Good k c ∨ (c = k ∧ k.Prime)) → s1.mnp.getD c 0 = c.minFac) ∧
       (∀ c, c < n → ¬(Good k c ∨ (c = k ∧ k.Prime)) → s1.mnp.getD c 0 = 0) ∧
       (∀ c, c < n → (s1.isp.getD c false = true ↔ c.Prime ∧ c < k+1)) := by
    by_cases hp : k.Prime
    · have h0 := hv.mpr hp
      refine ⟨{ isp := s.isp.setIfInBounds k true, mnp := s.mnp.setIfInBounds k k,
                primes := s.primes.push k }, by unfold stepI; rw [if_pos h0], by simp [hi.szm], by simp [hi.szi],
              by simp [hi.primes, hrange, hp], ?_, ?_, ?_, ?_⟩
      · rw [getD_set, if_pos ⟨rfl, by rw [hi.szm]; exact hkn⟩, hp.minFac_eq]
      · intro c hc hg
        simp only [getD_set, hi.szm]
        by_cases hck : k = c
        · subst hck; rw [if_pos ⟨rfl, hkn⟩, hp.minFac_eq]
        · rcases hg with hg | ⟨rfl, _⟩
          · rw [if_neg (by rintro ⟨h, _⟩; exact hck h)]; exact hi.good c hc hg
          · exact absurd rfl hck
      · intro c hc hg
        simp only [getD_set, hi.szm]
        by_cases hck : k = c
        · subst hck; exact absurd (Or.inr ⟨rfl, hp⟩) hg
        · rw [if_neg (by rintro ⟨h, _⟩; exact hck h)]; exact hi.bad c hc (fun h => hg (Or.inl h))
      · intro c hc
        simp only [getDb_set, hi.szi]
        by_cases hck : k = c
        · subst hck; simp [hkn, hp]
        · simp only [hck, false_and, if_false]
          rw [hi.isp c hc]
          constructor
          · rintro ⟨a, b⟩; exact ⟨a, by omega⟩
          · rintro ⟨a, b⟩; exact ⟨a, by omega⟩
    · have h0 : ¬ s.mnp.getD k 0 = 0 := fun h => hp (hv.mp h)
      have hgk : Good k k := ⟨hk, Or.inr ⟨hp, by
        have := (composite_facts hk hp); have hp2 := this.2.2.2.2.two_le
        exact Nat.div_lt_self (by omega) hp2⟩⟩
      refine ⟨s, by unfold stepI; rw [if_neg h0], hi.szm, hi.szi, by simp [hi.primes, hrange, hp],
        hi.good k hkn hgk, ?_, ?_, ?_⟩
      · intro c hc hg
        rcases hg with hg | ⟨_, h⟩
        · exact hi.good c hc hg
        · exact absurd h hp
      · intro c hc hg; exact hi.bad c hc (fun h => hg (Or.inl h))
      · intro c hc
        rw [hi.isp c hc]
        constructor
        · rintro ⟨a, b⟩; exact ⟨a, by omega⟩
        · rintro ⟨a, b⟩
          refine ⟨a, ?_⟩
          rcases Nat.lt_succ_iff_lt_or_eq.mp b with h | h
          · exact h
          · subst h; exact absurd a hp
  have hmem : ∀ p, p ∈ s1.primes.toList ↔ p.Prime ∧ p < k + 1 := by
    rw [h1primes]; intro p; simp [List.mem_filter, List.mem_range, and_comm]
  have hL2 : ∀ p ∈ s1.primes.toList, 2 ≤ p := fun p hp => ((hmem p).mp hp).1.two_le
  obtain ⟨r1, r2⟩ := inner_spec n k k.minFac hk s1.primes.toList s1.mnp h1szm h1k
    (by rw [h1primes]; exact sorted_filter_range _) hL2
  have hform : ∀ c, c < n → ((∃ p ∈ s1.primes.toList, p ≤ k.minFac ∧ p * k < n ∧ c = p * k) ↔
      (2 ≤ c ∧ ¬ c.Prime ∧ c / c.minFac = k)) := by
    intro c hc
    constructor
    · rintro ⟨p, hp, hle, _, rfl⟩
      have hpp := ((hmem p).mp hp).1
      have hmf := minFac_mul hpp hk hle
      refine ⟨by have := hpp.two_le; nlinarith, Nat.not_prime_mul (by have := hpp.two_le; omega) (by omega), ?_⟩
      rw [hmf]; exact Nat.mul_div_cancel_left _ hpp.pos
    · rintro ⟨h2, hnp, hdiv⟩
      obtain ⟨e, hle, _, hmf, hpp⟩ := composite_facts h2 hnp
      rw [hdiv] at e hle hmf
      exact ⟨c.minFac, (hmem _).mpr ⟨hpp, by omega⟩, hmf, by rw [← e]; exact hc, e⟩
  have hmono : ∀ c, Good k c → Good (k + 1) c := by
    rintro c ⟨h2, ⟨a, b⟩ | ⟨a, b⟩⟩
    · exact ⟨h2, Or.inl ⟨a, by omega⟩⟩
    · exact ⟨h2, Or.inr ⟨a, by omega⟩⟩
  rw [hs1]
  refine ⟨r1, h1szi, h1primes, ?_, ?_, h1isp⟩
  · intro c hc hg
    show (inner n k s1.primes.toList s1.mnp).getD c 0 = c.minFac
    rw [r2 c]
    by_cases hw : ∃ p ∈ s1.primes.toList, p ≤ k.minFac ∧ p * k < n ∧ c = p * k
    · rw [dif_pos hw]
      obtain ⟨p, hp, hle, _, rfl⟩ := hw
      have hpp := ((hmem p).mp hp).1
      rw [minFac_mul hpp hk hle]; exact Nat.mul_div_cancel _ (by omega)
    · rw [dif_neg hw]
      apply h1good c hc
      obtain ⟨h2, ⟨a, b⟩ | ⟨a, b⟩⟩ := hg
      · rcases Nat.lt_succ_iff_lt_or_eq.mp b with h | h
        · exact Or.inl ⟨h2, Or.inl ⟨a, h⟩⟩
        · subst h; exact Or.inr ⟨rfl, a⟩
      · rcases Nat.lt_succ_iff_lt_or_eq.mp b with h | h
        · exact Or.inl ⟨h2, Or.inr ⟨a, h⟩⟩
        · exact absurd ((hform c hc).mpr ⟨h2, a, h⟩) hw
  · intro c hc hg
    show (inner n k s1.primes.toList s1.mnp).getD c 0 = 0
    rw [r2 c]
    have hw : ¬ ∃ p ∈ s1.primes.toList, p ≤ k.minFac ∧ p * k < n ∧ c = p * k := by
      intro hw
      obtain ⟨h2, hnp, hdiv⟩ := (hform c hc).mp hw
      exact hg ⟨h2, Or.inr ⟨hnp, by omega⟩⟩
    rw [dif_neg hw]
    apply h1bad c hc
    rintro (h | ⟨rfl, hp⟩)
    · exact hg (hmono c h)
    · exact hg ⟨hk, Or.inl ⟨hp, by omega⟩⟩

theorem init_inv (n : Nat) : Inv n 2 (init n) := by
  refine ⟨by simp [init], by simp [init], by simp [init]; decide, ?_, ?_, ?_⟩
  · rintro c hc ⟨h2, ⟨a, b⟩ | ⟨a, b⟩⟩
    · omega
    · obtain ⟨_, hle, _, _, hp⟩ := composite_facts h2 a
      have := hp.two_le; omega
  · intro c hc _
    simp [init, Array.getD_eq_getD_getElem?, hc]
  · intro c hc
    simp only [init, Array.getD_eq_getD_getElem?]
    constructor
    · intro h; simp [hc] at h
    · rintro ⟨a, b⟩; have := a.two_le; omega

theorem fold_inv (n : Nat) : ∀ (len k : Nat) (s : St), Inv n k s → 2 ≤ k → k + len ≤ n →
    Inv n (k + len) ((List.range' k len).foldl (stepI n) s) := by
  intro len
  induction len with
  | zero => intro k s h _ _; simpa using h
  | succ l ih =>
    intro k s h hk hle
    rw [List.range'_succ, List.foldl_cons]
    have := ih (k + 1) (stepI n s k) (step_inv n k s hk (by omega) h) (by omega) (by omega)
    rw [show k + (l + 1) = k + 1 + l by omega]; exact this

/-- C13, tables: for every limit N the three tables are the arithmetic definitions -/
theorem sieve_spec (N : Nat) :
    let s := sieve N
    (∀ c, 2 ≤ c → c ≤ N → s.mnp.getD c 0 = c.minFac) ∧
    (∀ c, c ≤ N → (s.isp.getD c false = true ↔ c.Prime)) ∧
    s.primes.toList = (List.range (N + 1)).filter Nat.Prime := by
  intro s
  by_cases hN : N = 0
  · subst hN
    have h := init_inv 1
    refine ⟨fun c h2 h0 => by omega, ?_, ?_⟩
    · intro c hc
      have : c = 0 := by omega
      subst this
      show (init 1).isp.getD 0 false = true ↔ _
      rw [h.isp 0 (by omega)]
      constructor
      · rintro ⟨_, h⟩; omega
      · intro h; exact absurd h (by decide)
    · show (init 1).primes.toList = _
      simp [init]; decide
  · have h := fold_inv (N + 1) (N + 1 - 2) 2 (init (N + 1)) (init_inv _) (by omega) (by omega)
    rw [show 2 + (N + 1 - 2) = N + 1 by omega] at h
    change Inv (N + 1) (N + 1) s at h
    refine ⟨?_, ?_, h.primes⟩
    · intro c h2 hc
      apply h.good c (by omega)
      refine ⟨h2, ?_⟩
      by_cases hp : c.Prime
      · exact Or.inl ⟨hp, by omega⟩
      · refine Or.inr ⟨hp, ?_⟩
        have := (composite_facts h2 hp).2.2.2.2.two_le
        have : c / c.minFac < c := Nat.div_lt_self (by omega) this
        omega
    · intro c hc
      rw [h.isp c (by omega)]
      constructor
      · exact fun h => h.1
      · exact fun h => ⟨h, by omega⟩
#print axioms sieve_spec
end Sv
