import NextPermModel
namespace Np

def lexLt : List Nat → List Nat → Prop
  | [], [] => False
  | [], _ :: _ => True
  | _ :: _, [] => False
  | a :: as, b :: bs => a < b ∨ (a = b ∧ lexLt as bs)

abbrev NonInc (l : List Nat) : Prop := l.Pairwise (· ≥ ·)
abbrev NonDec (l : List Nat) : Prop := l.Pairwise (· ≤ ·)

theorem nonInc_cons {a : Nat} {l : List Nat} : NonInc (a :: l) ↔ (∀ y ∈ l, a ≥ y) ∧ NonInc l := List.pairwise_cons
theorem nonDec_cons {a : Nat} {l : List Nat} : NonDec (a :: l) ↔ (∀ y ∈ l, a ≤ y) ∧ NonDec l := List.pairwise_cons

theorem lexLt_irrefl : ∀ l, ¬ lexLt l l
  | [] => by simp [lexLt]
  | a :: as => by simp [lexLt]; exact lexLt_irrefl as

/-- a non-increasing list is the lexicographically greatest arrangement of its elements -/
theorem nonInc_max : ∀ (l zs : List Nat), NonInc l → zs.Perm l → ¬ lexLt l zs := by
  intro l
  induction l with
  | nil => intro zs _ hp; rw [List.perm_nil.mp hp]; simp [lexLt]
  | cons a l ih =>
    intro zs hs hp
    cases zs with
    | nil => simp [lexLt]
    | cons z zs' =>
      rw [nonInc_cons] at hs
      simp only [lexLt]
      rintro (h | ⟨rfl, h⟩)
      · have hz : z ∈ a :: l := hp.subset (List.mem_cons_self ..)
        rcases List.mem_cons.mp hz with rfl | hz
        · omega
        · have := hs.1 z hz; omega
      · exact ih zs' hs.2 (List.Perm.cons_inv hp) h

/-- a non-decreasing list is the least arrangement -/
theorem nonDec_min : ∀ (l zs : List Nat), NonDec l → zs.Perm l → ¬ lexLt zs l := by
  intro l
  induction l with
  | nil => intro zs _ hp; rw [List.perm_nil.mp hp]; simp [lexLt]
  | cons a l ih =>
    intro zs hs hp
    cases zs with
    | nil => exact absurd hp.length_eq (by simp)
    | cons z zs' =>
      rw [nonDec_cons] at hs
      simp only [lexLt]
      rintro (h | ⟨rfl, h⟩)
      · have hz : z ∈ a :: l := hp.subset (List.mem_cons_self ..)
        rcases List.mem_cons.mp hz with rfl | hz
        · omega
        · have := hs.1 z hz; omega
      · exact ih zs' hs.2 (List.Perm.cons_inv hp) h

theorem np_none_iff : ∀ xs, np xs = none ↔ NonInc xs := by
  intro xs
  induction xs with
  | nil => simp [np]
  | cons x rest ih =>
    unfold np
    cases h : np rest with
    | some r =>
      simp only [reduceCtorEq, false_iff]
      intro hs; rw [nonInc_cons] at hs
      have := ih.mpr hs.2; rw [h] at this; cases this
    | none =>
      have hr := ih.mp h
      cases rest with
      | nil => simp
      | cons hd tl =>
        simp only
        by_cases hx : x < hd
        · simp only [hx, if_true, reduceCtorEq, false_iff]
          intro hs; rw [nonInc_cons] at hs
          have := hs.1 hd (List.mem_cons_self ..); omega
        · simp only [hx, if_false, true_iff]
          rw [nonInc_cons]
          refine ⟨?_, hr⟩
          intro y hy
          rw [nonInc_cons] at hr
          rcases List.mem_cons.mp hy with rfl | hy
          · omega
          · have := hr.1 y hy; omega

theorem dropWhile_le (x : Nat) : ∀ l : List Nat, NonInc l → ∀ o ∈ l.dropWhile (· > x), o ≤ x := by
  intro l
  induction l with
  | nil => intro _ o ho; simp at ho
  | cons a l ih =>
    intro hs o ho
    rw [nonInc_cons] at hs
    by_cases ha : a > x
    · rw [List.dropWhile_cons_of_pos (by simpa using ha)] at ho; exact ih hs.2 o ho
    · rw [List.dropWhile_cons_of_neg (by simpa using ha)] at ho
      rcases List.mem_cons.mp ho with rfl | ho
      · omega
      · have := hs.1 o ho; omega

theorem takeWhile_gt (x : Nat) : ∀ l : List Nat, ∀ b ∈ l.takeWhile (· > x), b > x := by
  intro l
  induction l with
  | nil => intro b hb; simp at hb
  | cons a l ih =>
    intro b hb
    by_cases ha : a > x
    · rw [List.takeWhile_cons_of_pos (by simpa using ha)] at hb
      rcases List.mem_cons.mp hb with rfl | hb
      · exact ha
      · exact ih b hb
    · rw [List.takeWhile_cons_of_neg (by simpa using ha)] at hb; simp at hb

structure SwapFacts (x : Nat) (rest : List Nat) (y : Nat) (D O : List Nat) : Prop where
  eq : swapRev x rest = y :: (O.reverse ++ x :: D.reverse)
  split : rest = (D ++ [y]) ++ O
  ygt : y > x
  dge : ∀ d ∈ D, d ≥ y
  ole : ∀ o ∈ O, o ≤ x
  dInc : NonInc D
  oInc : NonInc O

theorem swapFacts (x hd : Nat) (tl : List Nat) (hs : NonInc (hd :: tl)) (hx : x < hd) :
    ∃ y D O, SwapFacts x (hd :: tl) y D O := by
  have hB : (hd :: tl).takeWhile (· > x) = hd :: tl.takeWhile (· > x) :=
    List.takeWhile_cons_of_pos (by simpa using hx)
  have hne : (hd :: tl).takeWhile (· > x) ≠ [] := by rw [hB]; simp
  obtain ⟨y, hy, hsplitB⟩ : ∃ y, ((hd :: tl).takeWhile (· > x)).getLast? = some y ∧
      ((hd :: tl).takeWhile (· > x)).dropLast ++ [y] = (hd :: tl).takeWhile (· > x) :=
    ⟨_, List.getLast?_eq_some_getLast hne, List.dropLast_concat_getLast hne⟩
  have hsplit : hd :: tl = (((hd :: tl).takeWhile (· > x)).dropLast ++ [y]) ++ (hd :: tl).dropWhile (· > x) := by
    rw [hsplitB, List.takeWhile_append_dropWhile]
  have hs' := hs
  rw [hsplit] at hs'
  have hs'' : NonInc ((hd :: tl).takeWhile (· > x)).dropLast ∧ _ := (List.pairwise_append.mp (List.pairwise_append.mp hs').1)
  have hyB : y ∈ (hd :: tl).takeWhile (· > x) := by rw [← hsplitB]; simp
  refine ⟨y, _, _, ⟨by simp only [swapRev, hy], hsplit, takeWhile_gt x _ y hyB, ?_,
    dropWhile_le x _ hs, hs''.1, (List.pairwise_append.mp hs').2.1⟩⟩
  intro d hd'
  exact hs''.2.2 d hd' y (by simp)

theorem swap_perm {x y : Nat} {rest D O : List Nat} (h : SwapFacts x rest y D O) :
    (swapRev x rest).Perm (x :: rest) := by
  rw [h.eq, h.split]
  apply List.perm_iff_count.mpr
  intro a
  simp [List.count_cons, List.count_append, List.count_reverse]
  omega

theorem swap_tail_nonDec {x y : Nat} {rest D O : List Nat} (h : SwapFacts x rest y D O) :
    NonDec (O.reverse ++ x :: D.reverse) := by
  apply List.pairwise_append.mpr
  refine ⟨List.pairwise_reverse.mpr ?_, ?_, ?_⟩
  · exact h.oInc.imp (fun h => h)
  · refine nonDec_cons.mpr ⟨fun d hd => ?_, List.pairwise_reverse.mpr (h.dInc.imp (fun h => h))⟩
    have := h.dge d (List.mem_reverse.mp hd); have := h.ygt; omega
  · intro o ho e he
    have h1 := h.ole o (List.mem_reverse.mp ho)
    rcases List.mem_cons.mp he with rfl | he
    · exact h1
    · have := h.dge e (List.mem_reverse.mp he); have := h.ygt; omega

/-- C15: `next_permutation` returns the lexicographic successor among all arrangements (duplicates allowed) -/
theorem np_spec : ∀ xs ys, np xs = some ys →
    ys.Perm xs ∧ lexLt xs ys ∧ ∀ zs, zs.Perm xs → lexLt xs zs → ¬ lexLt zs ys := by
  intro xs
  induction xs with
  | nil => intro ys h; simp [np] at h
  | cons x rest ih =>
    intro ys h
    unfold np at h
    cases hr : np rest with
    | some r =>
      rw [hr] at h; simp only [Option.some.injEq] at h; subst h
      obtain ⟨p1, p2, p3⟩ := ih r hr
      refine ⟨List.Perm.cons x p1, Or.inr ⟨rfl, p2⟩, ?_⟩
      intro zs hz hlt
      cases zs with
      | nil => exact absurd hz.length_eq (by simp)
      | cons z zs' =>
        simp only [lexLt] at hlt ⊢
        rcases hlt with hlt | ⟨rfl, hlt⟩
        · rintro (h | ⟨h, _⟩) <;> omega
        · rintro (h | ⟨_, h⟩)
          · omega
          · exact p3 zs' (List.Perm.cons_inv hz) hlt h
    | none =>
      rw [hr] at h
      have hInc := (np_none_iff rest).mp hr
      cases rest with
      | nil => simp at h
      | cons hd tl =>
        simp only at h
        by_cases hx : x < hd
        · simp only [hx, if_true, Option.some.injEq] at h; subst h
          obtain ⟨y, D, O, F⟩ := swapFacts x hd tl hInc hx
          have hperm := swap_perm F
          refine ⟨hperm, by rw [F.eq]; exact Or.inl F.ygt, ?_⟩
          intro zs hz hlt
          cases zs with
          | nil => exact absurd hz.length_eq (by simp)
          | cons z zs' =>
            rw [F.eq]
            simp only [lexLt] at hlt ⊢
            rcases hlt with hlt | ⟨rfl, hlt⟩
            · -- z > x, so z is one of the elements greater than x, hence ≥ y
              have hzmem : z ∈ x :: hd :: tl := hz.subset (List.mem_cons_self ..)
              have hzr : z ∈ hd :: tl := by
                rcases List.mem_cons.mp hzmem with rfl | h
                · omega
                · exact h
              rw [F.split] at hzr
              have hzy : z ≥ y := by
                rcases List.mem_append.mp hzr with h | h
                · rcases List.mem_append.mp h with h | h
                  · exact F.dge z h
                  · simp at h; omega
                · have := F.ole z h; omega
              rintro (h | ⟨rfl, h⟩)
              · omega
              · have hp2 : (z :: zs').Perm (z :: (O.reverse ++ x :: D.reverse)) := by
                  rw [← F.eq]; exact hz.trans hperm.symm
                exact nonDec_min _ zs' (swap_tail_nonDec F) (List.Perm.cons_inv hp2) h
            · exact absurd hlt (nonInc_max _ zs' hInc (List.Perm.cons_inv hz))
        · simp [hx] at h

/-- the `false` branch: exactly on non-increasing input, and the result is the sorted arrangement -/
theorem nextPermutation_false (xs : List Nat) :
    (nextPermutation xs).2 = false ↔ NonInc xs := by
  unfold nextPermutation
  cases h : np xs with
  | none => simp [(np_none_iff xs).mp h]
  | some ys =>
    simp only [Bool.true_eq_false, false_iff]
    intro hs; rw [(np_none_iff xs).mpr hs] at h; cases h

theorem nextPermutation_wrap (xs : List Nat) (h : NonInc xs) :
    (nextPermutation xs).1 = xs.reverse ∧ NonDec xs.reverse := by
  unfold nextPermutation
  rw [(np_none_iff xs).mpr h]
  exact ⟨rfl, List.pairwise_reverse.mpr (h.imp (fun h => h))⟩
#print axioms np_spec
#print axioms nextPermutation_false
end Np
