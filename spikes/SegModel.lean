/-! Spike: lazy segment tree refinement over an abstract lawful item. -/
namespace Seg

structure Item (T M A : Type) where
  merge  : T → T → T
  modify : T → M → T
  push   : T → T → T → T × T × T
  op     : A → A → A
  val    : T → A
  pa     : T → A → A          -- pending action for the children
  act    : M → A → A
  op_assoc : ∀ a b c, op (op a b) c = op a (op b c)
  act_op   : ∀ m a b, act m (op a b) = op (act m a) (act m b)
  pa_op    : ∀ x a b, pa x (op a b) = op (pa x a) (pa x b)
  val_merge : ∀ x y, val (merge x y) = op (val x) (val y)
  pa_merge  : ∀ x y a, pa (merge x y) a = a
  val_modify : ∀ x m, val (modify x m) = act m (val x)
  pa_modify  : ∀ x m a, pa (modify x m) a = act m (pa x a)
  push_val0 : ∀ p l r, val (push p l r).1 = val p
  push_pa0  : ∀ p l r a, pa (push p l r).1 a = a
  push_val1 : ∀ p l r, val (push p l r).2.1 = pa p (val l)
  push_pa1  : ∀ p l r a, pa (push p l r).2.1 a = pa p (pa l a)
  push_val2 : ∀ p l r, val (push p l r).2.2 = pa p (val r)
  push_pa2  : ∀ p l r a, pa (push p l r).2.2 a = pa p (pa r a)

inductive Tree (T : Type) where
  | leaf : T → Tree T
  | node : T → Tree T → Tree T → Tree T

variable {T M A : Type}

def Tree.root : Tree T → T
  | .leaf v => v
  | .node v _ _ => v

def Tree.setRoot : Tree T → T → Tree T
  | .leaf _, v => .leaf v
  | .node _ l r, v => .node v l r

def Tree.size : Tree T → Nat
  | .leaf _ => 1
  | .node _ l r => l.size + r.size

/-- semigroup lifted to a monoid by adjoining `none` -/
theorem Tree.size_pos (t : Tree T) : 0 < t.size := by
  induction t with
  | leaf v => simp [Tree.size]
  | node v l r ihl ihr => simp [Tree.size]; omega

def oplus (I : Item T M A) : Option A → Option A → Option A
  | none, b => b
  | a, none => a
  | some a, some b => some (I.op a b)

variable (I : Item T M A)

theorem oplus_assoc (a b c : Option A) : oplus I (oplus I a b) c = oplus I a (oplus I b c) := by
  cases a <;> cases b <;> cases c <;> simp [oplus, I.op_assoc]

@[simp] theorem oplus_none_left (a : Option A) : oplus I none a = a := by cases a <;> rfl
@[simp] theorem oplus_none_right (a : Option A) : oplus I a none = a := by cases a <;> rfl

def foldO (xs : List A) : Option A := xs.foldr (fun a acc => oplus I (some a) acc) none

theorem foldO_append (xs ys : List A) : foldO I (xs ++ ys) = oplus I (foldO I xs) (foldO I ys) := by
  induction xs with
  | nil => simp [foldO]
  | cons x xs ih =>
    simp only [foldO, List.cons_append, List.foldr_cons] at *
    rw [ih, oplus_assoc]

theorem foldO_map_pa (x : T) (xs : List A) :
    foldO I (xs.map (I.pa x)) = (foldO I xs).map (I.pa x) := by
  induction xs with
  | nil => rfl
  | cons a as ih =>
    simp only [foldO, List.map_cons, List.foldr_cons] at *
    rw [ih]
    cases h : List.foldr (fun a acc => oplus I (some a) acc) none as <;> simp [oplus, I.pa_op]

/-- logical contents (as abstract values), left to right -/
def den : Tree T → List A
  | .leaf v => [I.val v]
  | .node v l r => (den l ++ den r).map (I.pa v)

theorem den_length (t : Tree T) : (den I t).length = t.size := by
  induction t with
  | leaf v => rfl
  | node v l r ihl ihr => simp [den, Tree.size, ihl, ihr]

def WF : Tree T → Prop
  | .leaf _ => True
  | .node v l r => WF l ∧ WF r ∧ some (I.val v) = foldO I (den I (.node v l r))

theorem WF_root (t : Tree T) (h : WF I t) : some (I.val t.root) = foldO I (den I t) := by
  cases t with
  | leaf v => simp [den, foldO, Tree.root, oplus]
  | node v l r => exact h.2.2

/-- Shape: covers exactly [vl, vr] and splits at (vl+vr)/2 like the code. -/
def Shaped : Tree T → Nat → Nat → Prop
  | .leaf _, vl, vr => vl = vr
  | .node _ l r, vl, vr => vl < vr ∧ Shaped l vl ((vl + vr) / 2) ∧ Shaped r ((vl + vr) / 2 + 1) vr

theorem Shaped_size (t : Tree T) (vl vr : Nat) (h : Shaped t vl vr) : t.size = vr - vl + 1 ∧ vl ≤ vr := by
  induction t generalizing vl vr with
  | leaf v => simp [Shaped] at h; simp [Tree.size, h]
  | node v l r ihl ihr =>
    obtain ⟨h1, h2, h3⟩ := h
    have := ihl _ _ h2; have := ihr _ _ h3
    simp [Tree.size]; omega

def pushAt : Tree T → Tree T
  | .leaf v => .leaf v
  | .node v l r =>
    let p := I.push v l.root r.root
    .node p.1 (l.setRoot p.2.1) (r.setRoot p.2.2)

theorem den_setRoot (t : Tree T) (x : T) (f : A → A)
    (hv : I.val x = f (I.val t.root)) (hp : ∀ a, I.pa x a = f (I.pa t.root a)) :
    den I (t.setRoot x) = (den I t).map f := by
  cases t with
  | leaf v => simp [Tree.setRoot, den, hv, Tree.root]
  | node v l r =>
    simp only [Tree.setRoot, den, List.map_map, Tree.root] at *
    apply List.map_congr_left; intro a _; simp [hp]

theorem Shaped_setRoot (t : Tree T) (x : T) (vl vr) : Shaped (t.setRoot x) vl vr ↔ Shaped t vl vr := by
  cases t <;> simp [Tree.setRoot, Shaped]

theorem den_pushAt (t : Tree T) : den I (pushAt I t) = den I t := by
  cases t with
  | leaf v => rfl
  | node v l r =>
    simp only [pushAt, den]
    rw [den_setRoot I l _ (I.pa v) (I.push_val1 _ _ _) (I.push_pa1 _ _ _),
        den_setRoot I r _ (I.pa v) (I.push_val2 _ _ _) (I.push_pa2 _ _ _)]
    have : (I.pa (I.push v l.root r.root).1 ∘ I.pa v) = I.pa v := by
      funext a; simp [I.push_pa0]
    simp [this]

theorem WF_setRoot (t : Tree T) (x : T) (f : A → A)
    (hv : I.val x = f (I.val t.root)) (hp : ∀ a, I.pa x a = f (I.pa t.root a))
    (hf : ∀ a b, f (I.op a b) = I.op (f a) (f b))
    (h : WF I t) : WF I (t.setRoot x) := by
  cases t with
  | leaf v => trivial
  | node v l r =>
    refine ⟨h.1, h.2.1, ?_⟩
    have e := den_setRoot I (.node v l r) x f hv hp
    simp only [Tree.setRoot] at e
    rw [e, hv]
    have h3 := h.2.2
    simp only [Tree.root]
    -- fold of map f
    have : ∀ xs : List A, foldO I (xs.map f) = (foldO I xs).map f := by
      intro xs; induction xs with
      | nil => rfl
      | cons a as ih =>
        simp only [foldO, List.map_cons, List.foldr_cons] at *
        rw [ih]
        cases List.foldr (fun a acc => oplus I (some a) acc) none as <;> simp [oplus, hf]
    rw [this, ← h3]; rfl

theorem WF_pushAt (t : Tree T) (h : WF I t) : WF I (pushAt I t) := by
  cases t with
  | leaf v => trivial
  | node v l r =>
    obtain ⟨hl, hr, hv⟩ := h
    refine ⟨WF_setRoot I l _ (I.pa v) (I.push_val1 _ _ _) (I.push_pa1 _ _ _) (I.pa_op v) hl,
            WF_setRoot I r _ (I.pa v) (I.push_val2 _ _ _) (I.push_pa2 _ _ _) (I.pa_op v) hr, ?_⟩
    have := den_pushAt I (.node v l r)
    simp only [pushAt] at this
    rw [this, I.push_val0]; exact hv


@[simp] theorem size_setRoot (t : Tree T) (x : T) : (t.setRoot x).size = t.size := by
  cases t <;> rfl

/-- ask on absolute coordinates, mirroring `ask_internal`; returns result and new tree -/
def ask (t : Tree T) (l r vl vr : Nat) : T × Tree T :=
  match t with
  | .leaf v => (v, .leaf v)
  | .node v lt rt =>
    if l = vl ∧ r = vr then (v, .node v lt rt) else
    let p := I.push v lt.root rt.root
    let lt' := lt.setRoot p.2.1
    let rt' := rt.setRoot p.2.2
    let m := (vl + vr) / 2
    if r ≤ m then
      let q := ask lt' l r vl m
      (q.1, .node p.1 q.2 rt')
    else if l > m then
      let q := ask rt' l r (m+1) vr
      (q.1, .node p.1 lt' q.2)
    else
      let q1 := ask lt' l m vl m
      let q2 := ask rt' (m+1) r (m+1) vr
      (I.merge q1.1 q2.1, .node p.1 q1.2 q2.2)
termination_by t.size
decreasing_by all_goals (simp [Tree.size]; have := Tree.size_pos rt; have := Tree.size_pos lt; omega)


end Seg
