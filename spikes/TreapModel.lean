namespace Tr

structure TItem (T E : Type) where
  own : T → E
  pa  : T → E → E
  sz  : T → Nat
  update : T → Option T → Option T → T
  push : T → Option T → Option T → T × Option T × Option T
  update_own : ∀ x l r, own (update x l r) = own x
  update_pa : ∀ x l r a, pa (update x l r) a = pa x a
  update_sz : ∀ x l r, sz (update x l r) = (l.map sz).getD 0 + 1 + (r.map sz).getD 0
  push_own0 : ∀ p l r, own (push p l r).1 = own p
  push_pa0 : ∀ p l r a, pa (push p l r).1 a = a
  push_sz0 : ∀ p l r, sz (push p l r).1 = sz p
  push_l_none : ∀ p r, (push p none r).2.1 = none
  push_r_none : ∀ p l, (push p l none).2.2 = none
  push_l : ∀ p l r, ∃ l', (push p (some l) r).2.1 = some l' ∧ own l' = pa p (own l) ∧
      (∀ a, pa l' a = pa p (pa l a)) ∧ sz l' = sz l
  push_r : ∀ p l r, ∃ r', (push p l (some r)).2.2 = some r' ∧ own r' = pa p (own r) ∧
      (∀ a, pa r' a = pa p (pa r a)) ∧ sz r' = sz r

inductive Tree (T : Type) where
  | nil : Tree T
  | node : T → Nat → Tree T → Tree T → Tree T

variable {T E : Type}

def Tree.item? : Tree T → Option T
  | .nil => none
  | .node it _ _ _ => some it

def Tree.setItem? : Tree T → Option T → Tree T
  | .node _ p l r, some it => .node it p l r
  | t, _ => t

def Tree.count : Tree T → Nat
  | .nil => 0
  | .node _ _ l r => l.count + 1 + r.count

@[simp] theorem count_setItem (t : Tree T) (o : Option T) : (t.setItem? o).count = t.count := by
  cases t <;> cases o <;> rfl

variable (I : TItem T E)

/-- the sequence a treap represents, pending tags applied -/
def seq : Tree T → List E
  | .nil => []
  | .node it _ l r => (seq l).map (I.pa it) ++ I.own it :: (seq r).map (I.pa it)

/-- `TreapNode::push` followed by taking the node apart -/
def pushParts (it : T) (l r : Tree T) : T × Tree T × Tree T :=
  let q := I.push it l.item? r.item?
  (q.1, l.setItem? q.2.1, r.setItem? q.2.2)

def upd (it : T) (p : Nat) (l r : Tree T) : Tree T :=
  .node (I.update it l.item? r.item?) p l r

def merge (a b : Tree T) : Tree T :=
  match a, b with
  | .nil, b => b
  | a, .nil => a
  | .node ia pa_ la ra, .node ib pb lb rb =>
    if pa_ < pb then
      let q := pushParts I ia la ra
      upd I q.1 pa_ q.2.1 (merge q.2.2 (.node ib pb lb rb))
    else
      let q := pushParts I ib lb rb
      upd I q.1 pb (merge (.node ia pa_ la ra) q.2.1) q.2.2
termination_by a.count + b.count
decreasing_by all_goals (simp [pushParts, Tree.count] <;> omega)

def splitAt (t : Tree T) (pos : Nat) : Tree T × Tree T :=
  match t with
  | .nil => (.nil, .nil)
  | .node it p l r =>
    let q := pushParts I it l r
    let lsz := (q.2.1.item?.map I.sz).getD 0
    if pos > lsz then
      let s := splitAt q.2.2 (pos - lsz - 1)
      (upd I q.1 p q.2.1 s.1, s.2)
    else
      let s := splitAt q.2.1 pos
      (s.1, upd I q.1 p s.2 q.2.2)
termination_by t.count
decreasing_by all_goals (simp [pushParts, Tree.count] <;> omega)

end Tr
