namespace Fft
variable {K : Type}

/-- canonical twiddle table of level `k` (`N = 2^k`, entries `0..N`), as produced by doubling:
even entries are copied from the previous level, odd ones computed, both ends forced to `one`. -/
def wC (tw : Nat → Nat → K) (one : K) : Nat → Nat → K
  | 0, _ => one
  | k+1, i => if i = 0 ∨ i = 2^(k+1) then one else if i % 2 = 0 then wC tw one k (i/2) else tw i (2^k)

/-- canonical bit-reversal table of level `k` -/
def revC : Nat → Nat → Nat
  | 0, _ => 0
  | k+1, i => if i < 2^k then 2 * revC k i else 2 * revC k (i - 2^k) + 1

theorem wC_zero (tw : Nat → Nat → K) (one : K) : ∀ k, wC tw one k 0 = one
  | 0 => rfl
  | k+1 => by simp [wC]

theorem wC_last (tw : Nat → Nat → K) (one : K) : ∀ k, wC tw one k (2^k) = one
  | 0 => rfl
  | k+1 => by simp [wC]

/-- a table grown to `2^(k+d)` read with stride `2^d` is the table of size `2^k` — for ANY carrier and
ANY twiddle function, i.e. bit-for-bit for floats -/
theorem wC_stride (tw : Nat → Nat → K) (one : K) (k : Nat) :
    ∀ d j, j ≤ 2^k → wC tw one (k+d) (j * 2^d) = wC tw one k j := by
  intro d
  induction d with
  | zero => intro j _; simp
  | succ d ih =>
    intro j hj
    rw [show k + (d+1) = (k+d)+1 from rfl, wC]
    by_cases h0 : j = 0
    · subst h0; simp [wC_zero]
    · by_cases hl : j = 2^k
      · subst hl
        have : 2 ^ k * 2 ^ (d + 1) = 2 ^ (k + d + 1) := by rw [← Nat.pow_add]; rfl
        simp [this, wC_last]
      · have hpos : 0 < 2 ^ (d+1) := Nat.two_pow_pos _
        have hne0 : j * 2 ^ (d + 1) ≠ 0 := Nat.mul_ne_zero h0 (by omega)
        have hneL : j * 2 ^ (d + 1) ≠ 2 ^ (k + d + 1) := by
          intro h
          have : 2 ^ (k + d + 1) = 2 ^ k * 2 ^ (d + 1) := by rw [← Nat.pow_add]; rfl
          rw [this] at h
          exact hl (Nat.eq_of_mul_eq_mul_right hpos h)
        have hev : j * 2 ^ (d + 1) % 2 = 0 := by rw [Nat.pow_succ, ← Nat.mul_assoc]; simp
        have hhalf : j * 2 ^ (d + 1) / 2 = j * 2 ^ d := by rw [Nat.pow_succ, ← Nat.mul_assoc]; simp
        simp only [hne0, hneL, or_self, if_false, hev, if_true, hhalf]
        exact ih j hj

theorem revC_stride (k : Nat) : ∀ d i, i < 2^k → revC (k+d) i >>> d = revC k i := by
  intro d
  induction d with
  | zero => intro i _; simp
  | succ d ih =>
    intro i hi
    have hlt : i < 2 ^ (k + d) := Nat.lt_of_lt_of_le hi (Nat.pow_le_pow_right (by omega) (by omega))
    rw [show k + (d+1) = (k+d)+1 from rfl, revC, if_pos hlt, Nat.shiftRight_succ_inside]
    rw [show 2 * revC (k + d) i / 2 = revC (k + d) i by omega]
    exact ih i hi
#print axioms wC_stride
#print axioms revC_stride
end Fft
