import SegModel
namespace Seg
variable {T M A : Type} (I : Item T M A)

def slice (xs : List A) (a b : Nat) : List A := (xs.drop a).take (b - a)

theorem slice_all (xs : List A) : slice xs 0 xs.length = xs := by simp [slice]

theorem slice_append_left (xs ys : List A) (a b : Nat) (h : b ≤ xs.length) :
    slice (xs ++ ys) a b = slice xs a b := by
  simp only [slice]
  by_cases ha : a ≤ xs.length
  · rw [List.drop_append_of_le_length ha, List.take_append_of_le_length (by simp; omega)]
  · have : b - a = 0 := by omega
    simp [this]

theorem slice_append_right (xs ys : List A) (a b : Nat) (h : xs.length ≤ a) :
    slice (xs ++ ys) a b = slice ys (a - xs.length) (b - xs.length) := by
  simp only [slice]
  rw [List.drop_append, List.drop_eq_nil_of_le h]
  simp; congr 1; omega

theorem slice_append_mid (xs ys : List A) (a b : Nat) (ha : a ≤ xs.length) (hb : xs.length ≤ b) :
    slice (xs ++ ys) a b = slice xs a xs.length ++ slice ys 0 (b - xs.length) := by
  simp only [slice]
  rw [List.drop_append_of_le_length ha, List.take_append]
  have e1 : List.take (b - a) (List.drop a xs) = List.take (xs.length - a) (List.drop a xs) := by
    rw [List.take_of_length_le (by simp; omega), List.take_of_length_le (by simp)]
  have e2 : b - a - (List.drop a xs).length = b - xs.length := by simp; omega
  rw [e1, e2]; simp

theorem slice_map (f : A → A) (xs : List A) (a b : Nat) : slice (xs.map f) a b = (slice xs a b).map f := by
  simp [slice, List.map_drop, List.map_take]


/-- after a push, the node's contents are the plain concatenation of the children's -/
theorem den_pushed (v : T) (lt rt : Tree T) :
    let p := I.push v lt.root rt.root
    den I (.node v lt rt) = den I (lt.setRoot p.2.1) ++ den I (rt.setRoot p.2.2) := by
  intro p
  have := den_pushAt I (.node v lt rt)
  simp only [pushAt, den] at this
  have hid : (I.pa (I.push v lt.root rt.root).1) = id := by funext a; simp [I.push_pa0]
  simp only [den, ← this, hid, List.map_id, p]

theorem WF_pushed (v : T) (lt rt : Tree T) (h : WF I (.node v lt rt)) :
    let p := I.push v lt.root rt.root
    WF I (lt.setRoot p.2.1) ∧ WF I (rt.setRoot p.2.2) := by
  have := WF_pushAt I _ h
  exact ⟨this.1, this.2.1⟩

theorem WF_rebuild (v v' : T) (lt rt lt' rt' : Tree T) (h : WF I (.node v lt rt))
    (hv : I.val v' = I.val v) (hp : ∀ a, I.pa v' a = a)
    (hd : den I (.node v lt rt) = den I lt' ++ den I rt') (hl : WF I lt') (hr : WF I rt') :
    WF I (.node v' lt' rt') ∧ den I (.node v' lt' rt') = den I (.node v lt rt) := by
  have hid : I.pa v' = id := funext hp
  have e : den I (.node v' lt' rt') = den I (.node v lt rt) := by
    rw [hd]; simp [den, hid]
  exact ⟨⟨hl, hr, by rw [e, hv]; exact h.2.2⟩, e⟩

theorem ask_spec (t : Tree T) (l r vl vr : Nat) (hwf : WF I t) (hs : Shaped t vl vr)
    (h1 : vl ≤ l) (h2 : l ≤ r) (h3 : r ≤ vr) :
    some (I.val (ask I t l r vl vr).1) = foldO I (slice (den I t) (l - vl) (r + 1 - vl)) ∧
    den I (ask I t l r vl vr).2 = den I t ∧ WF I (ask I t l r vl vr).2 ∧
    Shaped (ask I t l r vl vr).2 vl vr := by
  induction t, l, r, vl, vr using ask.induct I with
  | case1 l r vl vr v =>
    simp [Shaped] at hs; subst hs
    have : l = vl := by omega
    have : r = vl := by omega
    subst_vars
    simp [ask, den, slice, foldO, oplus, WF, Shaped]
  | case2 l r vl vr v lt rt hc =>
    obtain ⟨rfl, rfl⟩ := hc
    rw [ask]; simp only [and_self, if_true]
    refine ⟨?_, trivial, hwf, hs⟩
    have hsz := (Shaped_size _ _ _ hs).1
    have := den_length I (.node v lt rt)
    have e : r + 1 - l = (den I (.node v lt rt)).length := by omega
    rw [Nat.sub_self, e, slice_all]; exact hwf.2.2
  | case3 l r vl vr v lt rt hc p lt' m hrm ih =>
    rw [ask]; simp only [hc, if_false]
    simp only [show r ≤ (vl + vr) / 2 from hrm, if_true]
    obtain ⟨hs1, hs2, hs3⟩ := hs
    have hwl := (WF_pushed I v lt rt hwf).1
    have hwr := (WF_pushed I v lt rt hwf).2
    have hsl : Shaped lt' vl m := (Shaped_setRoot _ _ _ _).2 hs2
    obtain ⟨i1, i2, i3, i4⟩ := ih hwl hsl h1 h2 hrm
    have hd := den_pushed I v lt rt
    have hsz := (Shaped_size _ _ _ hsl).1
    have hlen := den_length I lt'
    obtain ⟨w1, w2⟩ := WF_rebuild I v p.1 lt rt (ask I lt' l r vl m).2 (rt.setRoot p.2.2) hwf
      (I.push_val0 _ _ _) (I.push_pa0 _ _ _) (by rw [i2]; exact hd) i3 hwr
    refine ⟨?_, w2, w1, hs1, i4, (Shaped_setRoot _ _ _ _).2 hs3⟩
    rw [i1, hd, slice_append_left]
    rw [hlen, hsz]; omega
  | case4 l r vl vr v lt rt hc p rt' m hrm hlm ih =>
    rw [ask]; simp only [hc, if_false]
    simp only [show ¬ r ≤ (vl + vr) / 2 from hrm, show l > (vl + vr) / 2 from hlm, if_true, if_false]
    obtain ⟨hs1, hs2, hs3⟩ := hs
    have hwl := (WF_pushed I v lt rt hwf).1
    have hwr := (WF_pushed I v lt rt hwf).2
    have hsr : Shaped rt' (m+1) vr := (Shaped_setRoot _ _ _ _).2 hs3
    have hsl : Shaped (lt.setRoot p.2.1) vl m := (Shaped_setRoot _ _ _ _).2 hs2
    obtain ⟨i1, i2, i3, i4⟩ := ih hwr hsr hlm h2 h3
    have hd := den_pushed I v lt rt
    have hsz := (Shaped_size _ _ _ hsl).1
    have hlen := den_length I (lt.setRoot p.2.1)
    obtain ⟨w1, w2⟩ := WF_rebuild I v p.1 lt rt (lt.setRoot p.2.1) (ask I rt' l r (m+1) vr).2 hwf
      (I.push_val0 _ _ _) (I.push_pa0 _ _ _) (by rw [i2]; exact hd) hwl i3
    refine ⟨?_, w2, w1, hs1, (Shaped_setRoot _ _ _ _).2 hs2, i4⟩
    rw [i1, hd, slice_append_right _ _ _ _ (by rw [hlen, hsz]; omega)]
    rw [hlen, hsz]; congr 2 <;> omega
  | case5 l r vl vr v lt rt hc p lt' rt' m hrm hlm ih1 ih2 =>
    rw [ask]; simp only [hc, if_false]
    simp only [show ¬ r ≤ (vl + vr) / 2 from hrm, show ¬ l > (vl + vr) / 2 from hlm, if_false]
    obtain ⟨hs1, hs2, hs3⟩ := hs
    have hwl := (WF_pushed I v lt rt hwf).1
    have hwr := (WF_pushed I v lt rt hwf).2
    have hsr : Shaped rt' (m+1) vr := (Shaped_setRoot _ _ _ _).2 hs3
    have hsl : Shaped lt' vl m := (Shaped_setRoot _ _ _ _).2 hs2
    obtain ⟨i1, i2, i3, i4⟩ := ih1 hwl hsl h1 (by omega) (Nat.le_refl _)
    obtain ⟨j1, j2, j3, j4⟩ := ih2 hwr hsr (Nat.le_refl _) (by omega) h3
    have hd := den_pushed I v lt rt
    have hsz := (Shaped_size _ _ _ hsl).1
    have hlen := den_length I lt'
    obtain ⟨w1, w2⟩ := WF_rebuild I v p.1 lt rt (ask I lt' l m vl m).2 (ask I rt' (m+1) r (m+1) vr).2 hwf
      (I.push_val0 _ _ _) (I.push_pa0 _ _ _) (by rw [i2, j2]; exact hd) i3 j3
    refine ⟨?_, w2, w1, hs1, i4, j4⟩
    rw [hd, slice_append_mid _ _ _ _ (by rw [hlen, hsz]; omega) (by rw [hlen, hsz]; omega),
        foldO_append, I.val_merge]
    have e1 : slice (den I lt') (l - vl) (den I lt').length = slice (den I lt') (l - vl) (m + 1 - vl) := by
      rw [hlen, hsz]; congr 1; omega
    have e2 : slice (den I rt') 0 (r + 1 - vl - (den I lt').length) = slice (den I rt') (m + 1 - (m + 1)) (r + 1 - (m + 1)) := by
      rw [hlen, hsz]; congr 1 <;> omega
    rw [e1, e2, ← i1, ← j1]; rfl

end Seg
#print axioms Seg.ask_spec
