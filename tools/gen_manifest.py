#!/usr/bin/env python3
"""Regenerate /verif/MANIFEST.json from checks/Cxx.py (MANIFEST dicts) + tools/manifest_base.json."""
import importlib.util
import json
import os

VERIF = os.path.dirname(os.path.dirname(os.path.abspath(__file__)))


def load(path):
    spec = importlib.util.spec_from_file_location("m", path)
    mod = importlib.util.module_from_spec(spec)
    spec.loader.exec_module(mod)
    return mod


def main():
    base = json.load(open(os.path.join(VERIF, "tools", "manifest_base.json")))
    props = [json.loads(l)["id"] for l in open(os.path.join(VERIF, "properties.jsonl")) if l.strip()]
    checks, engines, claimed = [], {}, set()
    ready_file = os.path.join(VERIF, "checks", "READY")
    ready = set(open(ready_file).read().split()) if os.path.exists(ready_file) else None
    for pid in props:
        p = os.path.join(VERIF, "checks", f"{pid}.py")
        if not os.path.exists(p) or (ready is not None and pid not in ready):
            continue
        c = load(p)
        m = c.MANIFEST
        claimed.add(pid)
        checks.append({
            "property_id": pid,
            "quick_cmd": f"./check {pid} --tier quick",
            "thorough_cmd": f"./check {pid} --tier thorough",
            "evidence_file": f"/verif/evidence/{pid}.json",
            "replay_cmd_template": f"./check {pid} --replay {{path}}",
            "engine": c.ENGINE,
            "level_claimed": {"category": "proof",
                              "text": ("PARTIAL PROOF (the named residue is tested, not proved). " if "partial" in m.get("level", "proof") else "") + m["text"],
                              "design_ref": m.get("design_ref", "DESIGN.md §6")},
            "level_note": m["note"],
            "technique": m["technique"],
        })
        e = engines.setdefault(c.ENGINE, {"name": c.ENGINE, "path": "", "serves_properties": [], "kind_free_text": ""})
        e["serves_properties"].append(pid)
        e["path"] = f"lean/RlibModel (Model, Lemmas, Props/{pid}.lean), lean/Driver, harness/{getattr(c, 'CRATE', '-')}, checks/{pid}.py"
        e["kind_free_text"] = "Lean 4 model + theorems; native Lean driver and Rust harness for the correspondence check"
    base["checks"] = checks
    base["engines"] = list(engines.values())
    na = [x for x in base.get("not_applicable", []) if x["property_id"] not in claimed]
    listed = {x["property_id"] for x in na}
    for pid in props:
        if pid not in claimed and pid not in listed:
            na.append({"property_id": pid, "reason": "not yet claimed: the Lean model, theorems and correspondence engine for this property are still being built (see DESIGN.md §6); it will be claimed when its check exists"})
    base["not_applicable"] = na
    with open(os.path.join(VERIF, "MANIFEST.json"), "w") as f:
        json.dump(base, f, indent=1)
        f.write("\n")
    print(f"MANIFEST.json: {len(checks)} checks, {len(na)} not_applicable")


if __name__ == "__main__":
    main()
