#!/usr/bin/env python3
"""
rs2lean_writer — the translator of the second tie of C09: `rlib/io/src/writer.rs` (the buffered `Writer` and the `Writable` instances)
into Lean 4 definitions (`lean/RlibModel/Generated/WriterSrc.lean`) over the fixed preludes `Generated/IoPrelude.lean` (checked
`usize` / `u8` arithmetic, read-only) and `Generated/IoWritePrelude.lean` (sink oracle, slices, iterators, `$t` division, `BASE_10_LEN`).

    python3 tools/rs2lean_writer.py SRC.rs --namespace Rlib.WriterSrc --out lean/RlibModel/Generated/WriterSrc.lean --fns new,flush,…

Same discipline as tools/rs2lean.py / rs2lean_typed.py / rs2lean_reader.py: tokenizer -> recursive-descent parser -> AST -> syntax-directed
emitter, ONE RULE PER CONSTRUCT, no optimisation, no reordering; anything without a rule is an error `file:line: …` (a translator-subset
problem, never skipped silently).  The other translators are imported READ-ONLY: from rs2lean.py `TranslateError`, `Node`, `Tok`,
`write_if_changed`, `SUBSET`; from rs2lean_reader.py the classes `RParser`, `FnEmitter`, `Translator` (SUBCLASSED here: the expression
ladder, conditions C1, `let` / assignment / `if` / `while` / `return` S1–S6, places, literals, checked `usize` / `u8` / `$t` arithmetic E4,
struct literals, constants are inherited unchanged — rules T1, T2, T4, T6, T9, T11, I1–I3, I5, N1, E1–E7, E10, C1, S1–S6, S12, F1 of its
doc comment).  Everything below is what this module ADDS or REPLACES.

TRANSLATION SCHEME (additions)
==============================
Types
  W-T1  `char`                              `Nat`: the code point (REPLACES T3 of the reader: a `char` parameter is any char); `'c'` ↦ `(n : Nat)`
  W-T2  `&str`, `String`                    `Array UInt8`: the UTF-8 bytes (`as_bytes()` is the identity)
  W-T3  `&[u8]`, `[u8; N]`                  `Array UInt8`
  W-T4  `Box<dyn Write [+ 'a]>`             `SrcIoW.Sink` — the ORACLE: bytes received so far + number of `write_all` calls answered
  W-T5  `T` (type parameter of an impl / fn)    an implicit Lean parameter `{T<k> : Type}`, numbered over the impl's then the function's parameters
  W-T6  `Vec<T>`, `(A, B, …)`               `Array T'`, `(A' × B' × …)`
  W-T7  `$t` (`:ty` macro parameter)        `Int` in the range of `(t<i> : IntTy)` (T9); `$t::Unsigned` values (results of `unsigned_abs()`): `Int`
                                            in the range of `(SrcIoW.unsignedOf t<i>)`
Items
  W-I1  `trait Tr { fn m(&self, w: &mut S); }`      `abbrev Tr_m (T : Type) : Type := Nat → Bool → T → <components of S> → Except Panic (<components of S>)`
                                            — the type of a DICTIONARY entry (emitted when a bound `X: Tr` is used)
  W-I2  `impl<T: Tr> … { fn f<U: Tr>(…) }`  header parameters, in this order, BEFORE `fuel`: `{T0 U1 : Type}`, one dictionary `(T<k>_m : Tr_m T<k>)`
                                            per bound and method, `(t<i> : IntTy)` per `:ty` macro parameter.  A definition applied to its header
                                            parameters has the dictionary type of its impl: `write_unsigned t0 : Writable_write Int`.
  W-I3  `impl Tr for X { fn m … }`          named `m` for the struct itself (`Drop::drop` ↦ `drop`), `str_m`, `String_m`, `Vec_m`, `tuple<n>_m`;
                                            inside a `:ty` macro: the macro's name (I5)
  W-I4  `macro_rules! m { ($a:ident, $($b:ident),*) => { items } }` + `m!(A, B, C);`      a macro with a REPETITION is expanded by token
                                            substitution at every item-level invocation (one rule; fragments `ident` / `tt`; `$( … ) sep? */+`,
                                            not nested) and the result is parsed as items — `write_tuple!` gives `tuple2_write … tuple8_write`
Profile
  W-P1  every definition takes `(dbg : Bool)` after `fuel`: "built with debug_assertions".
        `#[cfg(debug_assertions)] S; rest`  ↦  `if dbg = true then (⟦S ; rest⟧) else (⟦rest⟧)`;  `#[allow(…)]` on a statement: ignored;
        any other attribute on a statement: error
Expressions
  W-E1  `e1 % e2`, `e1 / e2`, `x /= e`, `x %= e` on `$t`      [bind v ← SrcIoW.irem t ⟦e1⟧ ⟦e2⟧] / `idiv` (zero divisor, `MIN % -1`, `MIN / -1` guarded)
  W-E2  `e as u8`                           `char`: `(UInt8.ofNat ⟦e⟧)`;  `$t`: `(SrcIoW.toU8 ⟦e⟧)`
  W-E3  `[e1, e2, …]` (`u8`s)               `#[⟦e1⟧, …]`;  `[x; n]` without an expected type is a `[u8; n]` (the only arrays of the subset)
  W-E4  `<$t as Tr>::BASE_10_LEN`           `(SrcIoW.base10Len t)` (the constant of `rlib_num_traits`; see the prelude)
  W-E5  `e.len()`, `e.as_bytes()`, `e.unsigned_abs()`      `(Array.size ⟦e⟧)`; ⟦e⟧; `(SrcIoW.unsignedAbs ⟦e⟧)` typed W-T7
  W-E6  `&e[a..b]`, `&e[..b]`, `&e[a..]`    [bind v ← SrcIoW.slice ⟦e⟧ ⟦a⟧ ⟦b⟧]  (missing bounds: `(0 : Nat)`, `(Array.size ⟦e⟧)`)
  W-E7  `x.m(args)` / `S::m(args)`, m of the struct's impl (E11), now also GENERIC: the type arguments are read off the static types of
        the arguments and each bound is answered by a dictionary term W-E8, passed before `fuel dbg`
  W-E8  dictionary for `X: Tr`, method m: X a type parameter ↦ `T<k>_m`; `&str` / `String` / `Vec<Y>` / a tuple ↦ the definition of the impl
        of this file for that type applied to the dictionaries of its own bounds (`(Vec_write T0_write)`); `$t::Unsigned` ↦ the `:ty` macro
        impl all of whose invocations are unsigned types, at `(SrcIoW.unsignedOf t)`.  None or several candidates: error.
  W-E9  `x.m(args)`, x of a type parameter `T: Tr`       [bind … ← T<k>_m fuel dbg ⟦x⟧ <args>]
Oracle and slices
  W-R1  `p.f.write_all(e)`, f: W-T4         `match SrcIoW.writeAll ⟦f⟧ ⟦e⟧ with | (ans, f') =>` — ONE external call, `f` rebound; `ans.unwrap()` ↦
                                            `match ans with | .ok => … | .failed => .error .unwrap`
  W-R2  `p[a..b].copy_from_slice(e);`       ⟦a⟧, ⟦b⟧, ⟦e⟧ in this order, [bind g' ← SrcIoW.copyFromSlice ⟦p⟧ ⟦a⟧ ⟦b⟧ ⟦e⟧], `p` rebound
Statements
  W-S1  `p[i] = e;` (p: `[u8; N]`)          Rust's order: ⟦e⟧ first, then ⟦i⟧, [bind p' ← SrcIoW.store ⟦p⟧ ⟦i⟧ ⟦e⟧], `p` rebound
  W-S2  `for x in e.chunks(n) { B }`, `for (i, x) in e.iter().enumerate() { B }`      the desugaring of the reference,
                                            `let mut it = ITER; loop { match it.next() { None => break, Some(PAT) => B } }`:
                                            [bind it ← SrcIoW.chunks ⟦e⟧ ⟦n⟧] / `let it := (SrcIoW.enumerate ⟦e⟧)`, then a definition on fuel
                                            (as S5) whose first parameter is the iterator: `match SrcIoW.Chunks.next it with | none => .ok state
                                            | some (x, it') => ⟦B ; f_loopK … fuel dbg it' …⟧`.  `break` / `continue` / `return` inside: error
  W-S3  `let (a, b, …) = e;`                `match ⟦e⟧ with | (v0, v1, …) =>`
  W-S4  `return;` in a function with a `&mut S` parameter      `.ok (<current components>)`
"""
import json
import os
import re
import sys

sys.path.insert(0, os.path.dirname(os.path.abspath(__file__)))
from rs2lean import TranslateError, Node, Tok, write_if_changed, SUBSET  # noqa: E402
import rs2lean_reader as rr  # noqa: E402
from rs2lean_reader import RParser, FnEmitter, Translator, B, Scope, Ctx, indent, strip, mentioned, USIZE, U8, CHAR, BOOL, UNIT, ARRAY, PROP, INT_TYPES  # noqa: E402

STR, STRING, SINK, WRES = ("str",), ("string",), ("sink",), ("wres",)
ITER_VAR = "#it"


def is_int(ty):
    return ty[0] == "int"


# ------------------------------------------------------------------------------------------------
# parser
# ------------------------------------------------------------------------------------------------

class WParser(RParser):
    def __init__(self, src, file, toks=None):
        super().__init__(src, file)
        if toks is not None:
            self.toks = toks
        self.generics = []          # names of the type parameters in scope

    # -- types --------------------------------------------------------------------------------------
    def parse_type(self):
        t = self.peek()
        if self.at("("):
            self.next()
            if self.eat(")"):
                return UNIT
            tys = []
            while not self.at(")"):
                tys.append(self.parse_type())
                if not self.eat(","):
                    break
            self.expect(")")
            return ("tuple", tuple(tys))
        if self.at("["):
            self.next()
            el = self.parse_type()
            if el != U8:
                self.err("only arrays / slices of `u8` are in the translated subset", t)
            if self.eat("]"):
                return ("array", None)
            self.expect(";")
            n = self.parse_expr()
            self.expect("]")
            return ("array", n)
        if t.kind == "ident" and t.val in self.generics:
            self.next()
            return ("tyvar", self.generics.index(t.val))
        if t.kind == "ident" and t.val == "str":
            self.next()
            return STR
        if t.kind == "ident" and t.val == "Vec" and self.at("<", 1):
            self.next()
            self.next()
            inner = self.parse_type()
            self.expect(">")
            return ("vec", inner)
        if t.kind == "ident" and t.val == "Box" and self.at("<", 1) and self.at("dyn", 2):
            self.next()
            self.next()
            self.next()
            path = [self.ident("trait").val]
            while self.eat("::"):
                path.append(self.ident("trait").val)
            while self.eat("+"):
                if self.is_lifetime():
                    self.next()
                else:
                    self.ident("bound")
            self.expect(">")
            if path[-1] != "Write":
                self.err(f"`Box<dyn {'::'.join(path)}>` is outside the translated subset (only `Box<dyn Write>`: the oracle)", t)
            return SINK
        return super().parse_type()

    def parse_generics(self):
        """`<'a, T: A + B, U>` -> [(name, [bounds])]; lifetimes are skipped"""
        out = []
        self.expect("<")
        while not self.at(">"):
            if self.is_lifetime():
                self.next()
            else:
                if self.at("const"):
                    self.err("const generics are outside the translated subset")
                n = self.ident("type parameter").val
                bounds = []
                if self.eat(":"):
                    while True:
                        if self.is_lifetime():
                            self.next()
                        else:
                            b = self.ident("trait bound")
                            if self.at("<") or self.at("::"):
                                self.err("a bound with arguments / a path is outside the translated subset", b)
                            bounds.append(b.val)
                        if not self.eat("+"):
                            break
                out.append((n, bounds))
            if not self.eat(","):
                break
        self.expect(">")
        return out

    def skip_angle(self, open_tok):
        depth = 0
        while True:
            x = self.next()
            if x.kind == "eof":
                self.err("unbalanced `<`", open_tok)
            depth += (x.val == "<") - (x.val == ">") if x.kind == "punct" else 0
            if depth == 0:
                return

    # -- items --------------------------------------------------------------------------------------
    def parse_program(self):
        prog = Node("program", 1, structs={}, fns=[], consts={}, macros={}, invocations=[], skipped=[], traits={})
        self.parse_items(prog, None)
        return prog

    def parse_items(self, prog, expanded_from):
        while self.peek().kind != "eof":
            t = self.peek()
            if self.at("#"):
                self.next()
                self.eat("!")
                self.expect("[")
                depth = 1
                while depth:
                    x = self.next()
                    if x.kind == "eof":
                        self.err("unterminated attribute", t)
                    depth += (x.val == "[") - (x.val == "]") if x.kind == "punct" else 0
                continue
            if self.at("use"):
                while not self.eat(";"):
                    if self.peek().kind == "eof":
                        self.err("unterminated `use`", t)
                    self.next()
                continue
            self.eat("pub")
            if self.at("struct"):
                self.parse_struct(prog)
            elif self.at("trait"):
                self.parse_trait(prog)
            elif self.at("impl"):
                self.parse_impl(prog, None, expanded_from)
            elif self.at("macro_rules") and self.at("!", 1):
                self.parse_macro_rules(prog)
            elif t.kind == "ident" and self.at("!", 1):
                self.next()
                self.next()
                self.expect("(")
                arg_toks = []
                depth = 1
                while True:
                    a = self.next()
                    if a.kind == "eof":
                        self.err("unterminated macro invocation", t)
                    if a.kind == "punct":
                        depth += (a.val in "([{") - (a.val in ")]}")
                    if depth == 0:
                        break
                    arg_toks.append(a)
                self.eat(";")
                inv = Node("invocation", t.line, name=t.val, args=[a.val for a in arg_toks if not (a.kind == "punct" and a.val == ",")], error=None)
                prog.invocations.append(inv)
                m = prog.macros.get(t.val)
                if m is not None and m.tokens is not None and m.error is None:
                    try:
                        toks = expand_macro(m, arg_toks, self.file, t.line)
                        sub = WParser(self.src, self.file, toks + [Tok("eof", "", t.line, 0)])
                        sub.parse_items(prog, (t.val, len(inv.args)))
                    except TranslateError as e:
                        inv.error = e
            else:
                self.err(f"top-level item starting with `{t.val}` is outside the translated subset")

    def parse_trait(self, prog):
        t = self.expect("trait")
        name = self.ident("trait name").val
        tr = Node("trait", t.line, name=name, methods={}, error=None)
        prog.traits[name] = tr
        if not self.at("{"):
            tr.error = TranslateError(self.file, t.line, f"trait `{name}` with generics / supertraits is outside the translated subset")
            while not self.at("{"):
                if self.peek().kind == "eof":
                    self.err("unterminated trait", t)
                self.next()
        open_i = self.i
        try:
            self.expect("{")
            while not self.at("}"):
                if not self.at("fn"):
                    self.err(f"trait item starting with `{self.peek().val}` is outside the translated subset (method signatures only)")
                fn = self.parse_fn(("traitself",), None, None, [], None)
                if fn.header_error:
                    raise fn.header_error
                tr.methods[fn.name] = fn
            self.expect("}")
        except TranslateError as e:
            tr.error = tr.error or e
            self.i = open_i
            self.skip_braces()

    def parse_impl(self, prog, macro, expanded_from=None):
        """`impl<'a, T: Tr> S<'a> { … }` or `impl<…> Tr for X { … }`; the functions are recorded with the position of their body."""
        t = self.expect("impl")
        generic_err, gens = None, []
        old_generics = self.generics
        if self.at("<"):
            save = self.i
            try:
                gens = self.parse_generics()
            except TranslateError as e:
                generic_err = e
                self.i = save
                self.skip_angle(t)
        self.generics = [g[0] for g in gens]
        try:
            first, trait = None, None
            save = self.i
            try:
                first = self.parse_type()
                if self.eat("for"):
                    trait, first = first, self.parse_type()
            except TranslateError as e:
                generic_err = generic_err or e
                self.i = save
            while not self.at("{"):
                if self.peek().kind == "eof":
                    self.err("unterminated impl", t)
                self.next()
            self.expect("{")
            while not self.at("}"):
                x = self.peek()
                if self.at("#"):
                    self.next()
                    self.expect("[")
                    while not self.eat("]"):
                        self.next()
                    continue
                self.eat("pub")
                if self.at("const"):
                    self.next()
                    cname = self.ident("constant").val
                    self.expect(":")
                    cty = self.parse_type()
                    self.expect("=")
                    ce = self.parse_expr()
                    self.expect(";")
                    prog.consts[cname] = Node("const", x.line, name=cname, ty=cty, expr=ce)
                elif self.at("fn"):
                    fn = self.parse_fn(first, trait, macro, gens, expanded_from)
                    fn.impl_error = generic_err
                    prog.fns.append(fn)
                else:
                    self.err(f"impl item starting with `{x.val}` is outside the translated subset")
            self.expect("}")
        finally:
            self.generics = old_generics

    def parse_fn(self, self_ty, trait, macro, impl_gens=(), expanded_from=None):
        kw = self.expect("fn")
        name = self.ident("function name").val
        fn = Node("fn", kw.line, name=name, self_ty=self_ty, trait=trait, macro=macro, header_error=None, params=[], ret=UNIT,
                  body_start=None, macro_params=list(self.macro_params), impl_error=None, generics=list(impl_gens), parser=self,
                  expanded_from=expanded_from)
        save = self.i
        old_generics = self.generics
        try:
            if self.at("<"):
                fn.generics = list(impl_gens) + self.parse_generics()
            self.generics = [g[0] for g in fn.generics]
            self.expect("(")
            while not self.at(")"):
                if self.at("&") and (self.at("self", 1) or (self.at("mut", 1) and self.at("self", 2))):
                    self.next()
                    mut = bool(self.eat("mut"))
                    self.next()
                    fn.params.append(("self", ("ref", mut, ("self",)), False))
                elif self.at("self"):
                    self.next()
                    fn.params.append(("self", ("self",), False))
                else:
                    m = bool(self.eat("mut"))
                    pn = self.ident("parameter name").val
                    self.expect(":")
                    fn.params.append((pn, self.parse_type(), m))
                if not self.eat(","):
                    break
            self.expect(")")
            if self.eat("->"):
                fn.ret = self.parse_type()
            if self.at("where"):
                self.err("`where` clauses are outside the translated subset")
        except TranslateError as e:
            fn.header_error = e
            self.i = save
        finally:
            self.generics = old_generics
        while not (self.at("{") or self.at(";")):
            if self.peek().kind == "eof":
                self.err("unterminated function", kw)
            self.next()
        if self.eat(";"):
            fn.body_start = None
        else:
            fn.body_start = self.i
            self.skip_braces()
        return fn

    def parse_macro_rules(self, prog):
        """a macro whose matcher has a repetition is kept as tokens (W-I4); every other macro: I5 of the reader"""
        start = self.i
        t = self.expect("macro_rules")
        self.expect("!")
        name = self.ident("macro name").val
        if not (self.at("{") and self.at("(", 1)):
            self.i = start
            super().parse_macro_rules(prog)
            prog.macros[name].tokens = None
            return
        j, depth, rep = self.i + 1, 0, False
        while True:
            x = self.toks[j]
            if x.kind == "eof":
                break
            if x.kind == "punct":
                if x.val == "$" and self.toks[j + 1].kind == "punct" and self.toks[j + 1].val == "(":
                    rep = True
                depth += (x.val == "(") - (x.val == ")")
                if depth == 0:
                    break
            j += 1
        if not rep:
            self.i = start
            super().parse_macro_rules(prog)
            prog.macros[name].tokens = None
            return
        m = Node("macro", t.line, name=name, params=[], error=None, tokens=None)
        prog.macros[name] = m
        open_i = self.i
        try:
            self.expect("{")
            matcher = self.balanced("(", ")")
            self.expect("=>")
            body = self.balanced("{", "}")
            self.eat(";")
            if not self.at("}"):
                self.err("a macro with several rules is outside the translated subset")
            self.expect("}")
            m.tokens = (parse_matcher(matcher, self.file), body)
        except TranslateError as e:
            m.error = e
            self.i = open_i
            self.skip_braces()

    def balanced(self, o, c):
        open_tok = self.expect(o)
        out, depth = [], 1
        while True:
            x = self.next()
            if x.kind == "eof":
                self.err(f"unbalanced `{o}`", open_tok)
            if x.kind == "punct":
                depth += (x.val == o) - (x.val == c)
            if depth == 0:
                return out
            out.append(x)

    # -- blocks and statements (after rs2lean_reader.RParser.parse_block, extended by attributes, `for`, tuple `let`) -------------
    def parse_block(self):
        open_tok = self.expect("{")
        stmts, tail = [], None
        pending_cfg = None
        while not self.at("}"):
            if self.peek().kind == "eof":
                self.err("unbalanced `{`", open_tok)
            if tail is not None:
                self.err("expected `;` or `}` after an expression")
            t = self.peek()
            n0 = len(stmts)
            if self.at("#"):                                                                      # W-P1
                self.next()
                self.expect("[")
                attr = self.ident("attribute")
                if attr.val == "cfg" and self.at("(") and self.at("debug_assertions", 1) and self.at(")", 2) and self.at("]", 3):
                    for _ in range(4):
                        self.next()
                    if pending_cfg is not None:
                        self.err("two attributes on one statement", t)
                    pending_cfg = t
                elif attr.val == "allow":
                    self.balanced("(", ")")
                    self.expect("]")
                else:
                    self.err(f"attribute `#[{attr.val}…]` on a statement is outside the translated subset (only `#[cfg(debug_assertions)]`, `#[allow(…)]`)", t)
                continue
            if self.at("let"):
                self.next()
                if self.at("("):                                                                  # W-S3
                    self.next()
                    names = []
                    while not self.at(")"):
                        if self.at("mut") or self.at("ref") or self.at("&"):
                            self.err("binding modes in a tuple pattern are outside the translated subset")
                        names.append(self.ident("pattern variable").val)
                        if not self.eat(","):
                            break
                    self.expect(")")
                    if self.at(":"):
                        self.err("a type annotation on a tuple pattern is outside the translated subset")
                    self.expect("=")
                    e = self.parse_expr()
                    self.expect(";")
                    stmts.append(Node("lettuple", t.line, names=names, expr=e))
                else:
                    mut = bool(self.eat("mut"))
                    x = self.ident("variable name").val
                    ann = self.parse_type() if self.eat(":") else None
                    if not self.eat("="):
                        self.err("`let` without initialiser is outside the translated subset")
                    if self.at("loop"):
                        self.err("`loop` is outside the translated subset")
                    e = self.parse_expr()
                    if self.at("else"):
                        self.err("`let … else` is outside the translated subset")
                    self.expect(";")
                    stmts.append(Node("let", t.line, name=x, mut=mut, expr=e, ann=ann))
            elif self.at("for"):                                                                  # W-S2
                self.next()
                if self.at("("):
                    self.next()
                    pat = []
                    while not self.at(")"):
                        pat.append(self.ident("pattern variable").val)
                        if not self.eat(","):
                            break
                    self.expect(")")
                else:
                    pat = self.ident("loop variable").val
                self.expect("in")
                it = self.parse_expr(no_struct=True)
                body = self.parse_block()
                self.eat(";")
                stmts.append(Node("for", t.line, pat=pat, iter=it, body=body))
            elif self.at("loop"):
                self.err("`loop` is outside the translated subset")
            elif self.at("while"):
                self.next()
                if self.at("let"):
                    self.err("`while let` is outside the translated subset")
                if self.at("{"):
                    self.err("a block as a `while` condition is outside the translated subset")
                c = Node("condblock", t.line, stmts=[], cond=self.parse_expr(no_struct=True))
                b = self.parse_block()
                self.eat(";")
                stmts.append(Node("while", t.line, cond=c, body=b))
            elif self.at("if"):
                stmts.append(self.parse_if())
                self.eat(";")
            elif self.at("match"):
                self.err("`match` is outside the translated subset")
            elif self.at("return"):
                self.next()
                e = None if (self.at(";") or self.at("}")) else self.parse_expr()
                if not self.at("}"):
                    self.expect(";")
                stmts.append(Node("return", t.line, expr=e))
            elif self.at("break"):
                self.next()
                if not (self.at(";") or self.at("}")):
                    self.err("`break` with a value is outside the translated subset")
                if not self.at("}"):
                    self.expect(";")
                stmts.append(Node("break", t.line, expr=None))
            elif self.at("continue"):
                self.err("`continue` is outside the translated subset")
            elif t.kind == "ident" and t.val in ("debug_assert", "debug_assert_eq", "debug_assert_ne") and self.at("!", 1):
                self.err("`debug_assert!` is outside the translated subset (it is ON in the debug profile this translation is parametrised by)")
            elif t.kind == "ident" and t.val in ("unsafe", "fn", "const", "static", "struct", "enum", "impl", "trait", "mod", "use", "type", "macro_rules"):
                self.err(f"`{t.val}` is outside the translated subset")
            elif self.at("{"):
                self.err("nested bare blocks are outside the translated subset")
            elif self.at(";"):
                self.next()
            else:
                e = self.parse_expr()
                if self.peek().kind == "punct" and self.peek().val in ("=", "+=", "-=", "*=", "/=", "%="):
                    op = self.next()
                    r = self.parse_expr()
                    self.expect(";")
                    stmts.append(Node("assign", t.line, target=e, op=op.val, expr=r))
                elif self.eat(";"):
                    stmts.append(Node("expr", t.line, expr=e))
                else:
                    tail = e
            if pending_cfg is not None:
                if len(stmts) != n0 + 1:
                    self.err("`#[cfg(debug_assertions)]` is only translated on a statement that ends in `;`", pending_cfg)
                stmts[-1] = Node("cfgdbg", pending_cfg.line, stmt=stmts[-1])
                pending_cfg = None
        if pending_cfg is not None:
            self.err("an attribute without a statement", pending_cfg)
        self.expect("}")
        return Node("block", open_tok.line, stmts=stmts, tail=tail)

    # -- expressions --------------------------------------------------------------------------------
    def parse_primary(self):
        t = self.peek()
        if self.at("<"):                                                                          # W-E4 `<T as Tr>::NAME`
            self.next()
            ty = self.parse_type()
            self.expect("as")
            path = [self.ident("trait").val]
            while self.eat("::"):
                path.append(self.ident("trait").val)
            self.expect(">")
            self.expect("::")
            name = self.ident("associated item").val
            if self.at("("):
                self.err("a qualified call `<T as Tr>::f(…)` is outside the translated subset", t)
            return Node("qpath", t.line, ty=ty, trait=path[-1], name=name)
        if self.at("["):                                                                          # E10 `[x; n]`, W-E3 `[a, b]`
            self.next()
            old, self.no_struct = self.no_struct, False
            try:
                if self.at("]"):
                    self.err("an empty array expression is outside the translated subset", t)
                x = self.parse_or()
                if self.eat(";"):
                    n = self.parse_or()
                    self.expect("]")
                    return Node("arrayrep", t.line, x=x, n=n)
                items = [x]
                while self.eat(","):
                    if self.at("]"):
                        break
                    items.append(self.parse_or())
                self.expect("]")
                return Node("arraylit", t.line, items=items)
            finally:
                self.no_struct = old
        return super().parse_primary()


# -- token macros (W-I4) ---------------------------------------------------------------------------

def parse_matcher(toks, file):
    """-> list of ("var", name) | ("lit", tok) | ("rep", [elements], sep or None, op)"""
    def err(tok, msg):
        raise TranslateError(file, tok.line if tok else 1, msg)

    def go(i, end, depth):
        out = []
        while i < end:
            x = toks[i]
            if x.kind == "punct" and x.val == "$":
                y = toks[i + 1] if i + 1 < end else None
                if y is not None and y.kind == "punct" and y.val == "(":
                    if depth > 0:
                        err(x, "nested macro repetitions are outside the translated subset")
                    j, d = i + 2, 1
                    while j < end:
                        if toks[j].kind == "punct":
                            d += (toks[j].val == "(") - (toks[j].val == ")")
                        if d == 0:
                            break
                        j += 1
                    if j >= end:
                        err(x, "unbalanced `$(`")
                    inner = go(i + 2, j, depth + 1)
                    k = j + 1
                    sep = None
                    if k < end and not (toks[k].kind == "punct" and toks[k].val in ("*", "+", "?")):
                        sep = toks[k]
                        k += 1
                    if k >= end or not (toks[k].kind == "punct" and toks[k].val in ("*", "+")):
                        err(x, "a macro repetition must end in `*` or `+`")
                    out.append(("rep", inner, sep, toks[k].val))
                    i = k + 1
                else:
                    if not (y is not None and y.kind == "ident" and i + 3 < end and toks[i + 2].kind == "punct" and toks[i + 2].val == ":"
                            and toks[i + 3].kind == "ident"):
                        err(x, "malformed macro matcher")
                    if toks[i + 3].val not in ("ident", "tt"):
                        err(toks[i + 3], f"macro fragment `:{toks[i + 3].val}` in a macro with a repetition is outside the translated subset (only `:ident`, `:tt`)")
                    out.append(("var", y.val))
                    i += 4
            else:
                out.append(("lit", x))
                i += 1
        return out
    return go(0, len(toks), 0)


def expand_macro(m, args, file, line):
    matcher, body = m.tokens

    def err(msg):
        raise TranslateError(file, line, f"invocation of `{m.name}!`: {msg}")
    bind = {}
    pos = [0]

    def match(elems, depth_list):
        for el in elems:
            if el[0] == "var":
                if pos[0] >= len(args) or args[pos[0]].kind not in ("ident", "int"):
                    return False
                if depth_list is None:
                    bind[el[1]] = args[pos[0]]
                else:
                    bind.setdefault(el[1], []).append(args[pos[0]])
                pos[0] += 1
            elif el[0] == "lit":
                if pos[0] >= len(args) or args[pos[0]].val != el[1].val:
                    return False
                pos[0] += 1
            else:
                _, inner, sep, op = el
                for e in inner:
                    if e[0] == "var":
                        bind.setdefault(e[1], [])
                count = 0
                while pos[0] < len(args):
                    save = pos[0]
                    if count > 0 and sep is not None:
                        if args[pos[0]].val != sep.val:
                            break
                        pos[0] += 1
                    if not match(inner, True):
                        pos[0] = save
                        break
                    count += 1
                if op == "+" and count == 0:
                    return False
        return True
    if not match(matcher, None) or pos[0] != len(args):
        err("the arguments do not match the macro's rule")

    out = []

    def emit(toks, idx):
        i = 0
        while i < len(toks):
            x = toks[i]
            if x.kind == "punct" and x.val == "$" and i + 1 < len(toks):
                y = toks[i + 1]
                if y.kind == "punct" and y.val == "(":
                    if idx is not None:
                        err("nested repetitions in the macro body")
                    j, d = i + 2, 1
                    while j < len(toks):
                        if toks[j].kind == "punct":
                            d += (toks[j].val == "(") - (toks[j].val == ")")
                        if d == 0:
                            break
                        j += 1
                    inner = toks[i + 2:j]
                    k = j + 1
                    sep = None
                    if k < len(toks) and not (toks[k].kind == "punct" and toks[k].val in ("*", "+")):
                        sep = toks[k]
                        k += 1
                    if k >= len(toks) or not (toks[k].kind == "punct" and toks[k].val in ("*", "+")):
                        err("a repetition in the macro body must end in `*` or `+`")
                    names = [inner[q + 1].val for q in range(len(inner) - 1) if inner[q].kind == "punct" and inner[q].val == "$" and inner[q + 1].kind == "ident"
                             and isinstance(bind.get(inner[q + 1].val), list)]
                    if not names:
                        err("a repetition in the macro body that uses no repeated variable")
                    n = len(bind[names[0]])
                    if any(len(bind[v]) != n for v in names):
                        err("repeated variables of different lengths")
                    for r in range(n):
                        if r > 0 and sep is not None:
                            out.append(sep)
                        emit(inner, r)
                    i = k + 1
                    continue
                if y.kind == "ident" and y.val in bind:
                    b = bind[y.val]
                    if isinstance(b, list):
                        if idx is None:
                            err(f"`${y.val}` used outside a repetition")
                        b = b[idx]
                    out.append(Tok(b.kind, b.val, x.line, x.pos))
                    i += 2
                    continue
                err(f"`${y.val}` is not a parameter of the macro")
            out.append(x)
            i += 1
    emit(body, None)
    return out


# ------------------------------------------------------------------------------------------------
# emitter
# ------------------------------------------------------------------------------------------------

LEAN_TY = {USIZE: "Nat", U8: "UInt8", CHAR: "Nat", BOOL: "Bool", STR: "Array UInt8", STRING: "Array UInt8", SINK: "SrcIoW.Sink", ARRAY: "Array UInt8",
           WRES: "SrcIoW.WResult"}


def paren(s):
    return s if re.fullmatch(r"[A-Za-z0-9_.]+", s) else f"({s})"


class WFnEmitter(FnEmitter):
    def __init__(self, tr, fn):
        super().__init__(tr, fn)
        self.gens = list(fn.generics)                                  # [(name, [bounds])]
        self.dicts = []                                                # [(param name, type text, tyvar index, trait, method)]
        for k, (_, bounds) in enumerate(self.gens):
            for b in bounds:
                trait = tr.trait(b, fn.line)
                for mname in trait.methods:
                    self.dicts.append((f"T{k}_{mname}", f"{b}_{mname} T{k}", k, b, mname))

    # header parameters (W-I2)
    def hbind(self):
        s = ""
        if self.gens:
            s += " {" + " ".join(f"T{k}" for k in range(len(self.gens))) + " : Type}"
        s += "".join(f" ({d[0]} : {d[1]})" for d in self.dicts)
        s += "".join(f" ({t} : IntTy)" for t in self.tparams)
        return s

    def hargs(self):
        return [d[0] for d in self.dicts] + list(self.tparams)

    # -- types --------------------------------------------------------------------------------------
    def norm(self, ty, line):
        k = ty[0]
        if k == "ref":
            return self.norm(ty[2], line)
        if k in ("str", "string", "sink", "wres", "tyvar", "iter"):
            return ty
        if k == "vec":
            return ("vec", self.norm(ty[1], line))
        if k == "tuple":
            return ("tuple", tuple(self.norm(t, line) for t in ty[1]))
        if k == "int" and isinstance(ty[1], int):
            return ("int", self.tparams[ty[1]])
        if k == "traitself":
            self.err(line, "`Self` of a trait declaration")
        if k in ("source", "option", "iores"):
            self.err(line, f"type `{k}` is outside the translated subset of the writer")
        return super().norm(ty, line)

    def lean_ty(self, ty, line):
        if ty in LEAN_TY:
            return LEAN_TY[ty]
        k = ty[0]
        if k == "int":
            return "Int"
        if k == "tyvar":
            return f"T{ty[1]}"
        if k == "vec":
            return f"Array {paren(self.lean_ty(ty[1], line))}"
        if k == "tuple":
            return "(" + " × ".join(self.lean_ty(t, line) for t in ty[1]) + ")"
        if k == "iter":
            return "SrcIoW.Chunks" if ty[1] == "chunks" else f"SrcIoW.Enumerate {paren(self.lean_ty(ty[2], line))}"
        if k == "struct":
            return " × ".join(self.lean_ty(t, line) for t in self.comp_tys(ty, line))
        self.err(line, f"no Lean type for `{ty}`")

    def tterm(self, ty):
        return ty[1]

    # -- expressions --------------------------------------------------------------------------------
    def lit(self, e, want):
        if want == CHAR:
            self.err(e.line, "an integer literal where a `char` is expected")
        return super().lit(e, want)

    def arith(self, op, t1, t2, ty, sc, line):
        if is_int(ty) and op in "%/":
            return self.bind(sc, f"SrcIoW.{'irem' if op == '%' else 'idiv'} {self.tterm(ty)} {t1} {t2}")      # W-E1
        return super().arith(op, t1, t2, ty, sc, line)

    def ex(self, e, env, sc, want=None):
        k = e.kind
        if k == "charlit":
            return [], (f"({e.value} : UInt8)" if e.byte else f"({e.value} : Nat)"), (U8 if e.byte else CHAR)       # W-T1
        if k == "bin" and e.op in ("%", "/"):
            steps, t1, t2, ty = self.pair(e.l, e.r, env, sc, want)
            if not is_int(ty):
                self.err(e.line, f"`{e.op}` on values of type `{ty}` has no rule")
            s, names = self.arith(e.op, t1, t2, ty, sc, e.line)
            return steps + s, names[0], ty
        if k == "cast":
            steps, t, ty = self.ex(e.e, env, sc)
            to = self.norm(e.ty, e.line)
            if ty == CHAR and to == U8:                                                         # W-E2
                return steps, f"(UInt8.ofNat {t})", U8
            if is_int(ty) and to == U8:
                return steps, f"(SrcIoW.toU8 {t})", U8
            self.err(e.line, f"cast from `{ty}` to `{to}` has no rule")
        if k == "arraylit":                                                                     # W-E3
            steps, terms = [], []
            for it in e.items:
                s, t, ty = self.ex(it, env, sc, U8)
                if ty != U8:
                    self.err(e.line, f"an array element of type `{ty}` (only `u8`)")
                steps += s
                terms.append(t)
            return steps, "#[" + ", ".join(terms) + "]", ARRAY
        if k == "arrayrep":
            if want not in (None, ARRAY):
                self.err(e.line, "`[x; n]` where no `[u8; N]` is expected")
            return super().ex(e, env, sc, ARRAY)
        if k == "qpath":                                                                        # W-E4
            ty = self.norm(e.ty, e.line)
            if is_int(ty) and e.name == "BASE_10_LEN" and e.trait == "FixedSizeInteger":
                return [], f"(SrcIoW.base10Len {self.tterm(ty)})", USIZE
            self.err(e.line, f"`<… as {e.trait}>::{e.name}` has no rule (only `<$t as FixedSizeInteger>::BASE_10_LEN`)")
        if k == "index" and e.idx.kind == "range":                                              # W-E6
            steps, ta, ty = self.ex(e.e, env, sc)
            if ty != ARRAY:
                self.err(e.line, f"a slice of a value of type `{ty}` has no rule")
            if isinstance(ta, list):
                self.err(e.line, "a slice of a struct")
            lo, hi = "(0 : Nat)", f"(Array.size {ta})"
            if e.idx.lo is not None:
                s, lo, t1 = self.ex(e.idx.lo, env, sc, USIZE)
                if t1 != USIZE:
                    self.err(e.line, "slice bound that is not a `usize`")
                steps += s
            if e.idx.hi is not None:
                s, hi, t2 = self.ex(e.idx.hi, env, sc, USIZE)
                if t2 != USIZE:
                    self.err(e.line, "slice bound that is not a `usize`")
                steps += s
            s, names = self.bind(sc, f"SrcIoW.slice {ta} {lo} {hi}")
            return steps + s, names[0], ARRAY
        if k == "cmp":
            steps, t1, t2, ty = self.pair(e.l, e.r, env, sc)
            if ty == CHAR and e.op not in ("==", "!="):
                self.err(e.line, "ordering of `char`s has no rule")
            if ty not in (USIZE, U8, CHAR) and not is_int(ty):
                self.err(e.line, f"comparison of values of type `{ty}` has no rule")
            op = {"==": "=", "!=": "≠", "<": "<", "<=": "≤", ">": ">", ">=": "≥"}[e.op]
            return steps, f"{t1} {op} {t2}", PROP
        return super().ex(e, env, sc, want)

    def call(self, e, env, sc, want):
        p = e.path
        if len(p) == 2 and (p[0] == "Self" or p[0] in self.tr.prog.structs):
            fn = self.tr.find_fn(p[1], e.line)
            return self.call_user(fn, None, e.args, env, sc, e.line)
        self.err(e.line, f"call of `{'::'.join(p)}` has no rule")

    # -- calls (W-E7, W-E8, W-E9) -------------------------------------------------------------------
    def call_sig(self, head, params, ret, actual, env, sc, line, what, generics=()):
        """arguments left to right, then the `&mut` struct argument is read, then the call; that variable is rebound to the components the
        callee returns.  `params`: [(type in the callee's generic context, is `&mut`)]; type parameters of the callee are read off the
        argument types, `head(bindings)` gives the callee applied to its header parameters."""
        if len(actual) != len(params):
            self.err(line, f"`{what}` called with {len(actual)} arguments, declared with {len(params)}")
        steps, slots, mut_var, tybind = [], [], None, {}
        for a, (pty, pmut) in zip(actual, params):
            if pty[0] == "struct":
                a0 = strip(a)
                if a0.kind != "var" or a0.name not in env or env[a0.name].ty != pty:
                    self.err(line, f"a struct argument of `{what}` that is not a plain variable of that struct")
                if pmut:
                    if mut_var is not None:
                        self.err(line, "two `&mut` struct arguments")
                    mut_var = a0.name
                slots.append(("struct", a0.name))
            else:
                s, t, ty = self.ex(a, env, sc, None if has_tyvar(pty) else pty)
                if isinstance(t, list):
                    self.err(line, "a struct value where none is expected")
                if not unify(pty, ty, tybind):
                    self.err(line, f"argument of type `{ty}` where `{what}` expects `{pty}`")
                steps += s
                slots.append(("term", t))
        for k in range(len(generics)):
            if k not in tybind:
                self.err(line, f"the type parameter `{generics[k][0]}` of `{what}` cannot be read off the arguments")
        terms = []
        for kind, x in slots:
            terms += list(env[x].val) if kind == "struct" else [x]
        ret = subst(ret, tybind)
        npat = (len(self.comp_tys(env[mut_var].ty, line)) if mut_var else 0) + (0 if ret == UNIT else len(self.comp_tys(ret, line)))
        call = " ".join(head(tybind) + ["fuel", "dbg"] + terms)
        if npat == 0:
            s, names = [f"match {call} with", "| .error e => .error e", "| .ok _ =>"], []
        else:
            s, names = self.bind(sc, call, npat)
        steps += s
        if mut_var:
            n = len(env[mut_var].val)
            env[mut_var] = B(env[mut_var].ty, names[:n], env[mut_var].mut)
            names = names[n:]
        if ret == UNIT:
            return steps, None, UNIT
        return steps, (names if ret[0] == "struct" else names[0]), ret

    def call_user(self, fn, recv, args, env, sc, line):
        sig = self.tr.request(fn, line, self.fn)
        actual = ([recv] if recv is not None else []) + list(args)

        def head(tybind):
            out = [sig["lean"]]
            for k, trait, mname in sig["dicts"]:
                out.append(self.dict_term(tybind[k], trait, mname, line))
            if sig["tparams"]:
                self.err(line, f"a direct call of `{fn.name}`, which is generated by a `:ty` macro, has no rule")
            return out
        return self.call_sig(head, sig["params"], sig["ret"], actual, env, sc, line, fn.name, sig["generics"])

    def dict_term(self, ty, trait, mname, line):
        """W-E8: a Lean term of type `<trait>_<mname> ⟦ty⟧`"""
        if ty[0] == "tyvar":
            for d in self.dicts:
                if d[2] == ty[1] and d[3] == trait and d[4] == mname:
                    return d[0]
            self.err(line, f"the type parameter `{self.gens[ty[1]][0]}` is used as `{trait}` without that bound")
        cands = []
        for f in self.tr.prog.fns:
            if f.trait != ("named", trait) or f.name != mname or f.body_start is None:
                continue
            if f.header_error or f.impl_error:
                pat = None
            else:
                pat = WFnEmitter(self.tr, f).self_pattern()
            if pat is None:
                # an impl of this trait whose header is outside the subset could be the one rustc picks: refuse to guess
                self.err(line, f"an `impl {trait} for …` at line {f.line} is outside the translated subset, so the impl for `{ty}` cannot be resolved")
            b = {}
            if is_int(pat) and is_int(ty):
                if self.tr.macro_covers(f, ty):
                    cands.append((f, {}, True))
            elif not is_int(pat) and unify(pat, ty, b):
                cands.append((f, b, False))
        if len(cands) != 1:
            self.err(line, f"{len(cands)} impls of `{trait}` for `{ty}` in this file (exactly one is needed)")
        f, b, is_macro = cands[0]
        sig = self.tr.request(f, line, self.fn)
        parts = [sig["lean"]]
        for k, tr2, m2 in sig["dicts"]:
            parts.append(self.dict_term(b[k], tr2, m2, line))
        if is_macro:
            if len(sig["tparams"]) != 1:
                self.err(line, "a `:ty` macro impl with several parameters has no rule here")
            parts.append(self.tterm(ty))
        return parts[0] if len(parts) == 1 else "(" + " ".join(parts) + ")"

    def self_pattern(self):
        return self.norm(self.fn.self_ty, self.fn.line)

    def mcall(self, e, env, sc, want):
        r0 = strip(e.recv)
        if r0.kind == "var" and r0.name in env and env[r0.name].ty[0] == "struct":               # W-E7
            fn = self.tr.find_fn(e.name, e.line)
            return self.call_user(fn, r0, e.args, env, sc, e.line)
        if e.name == "write_all" and r0.kind == "field":                                          # W-R1: the oracle
            pl = self.place(r0, env, e.line)
            if pl[2] == SINK:
                if len(e.args) != 1:
                    self.err(e.line, "the oracle call takes one argument")
                steps, t, ty = self.ex(e.args[0], env, sc, ARRAY)
                if ty != ARRAY:
                    self.err(e.line, f"`write_all` of a value of type `{ty}`")
                ans, ns = sc.fresh(), sc.fresh()
                steps = steps + [f"match SrcIoW.writeAll {self.read_place(pl, env)} {t} with", f"| ({ans}, {ns}) =>"]
                self.set_place(pl, env, ns)
                return steps, ans, WRES
        if e.name in ("chunks", "iter", "enumerate", "copy_from_slice"):
            self.err(e.line, f"`.{e.name}(…)` is only translated in the forms `for x in e.chunks(n)`, `for (i, x) in e.iter().enumerate()`, `p[a..b].copy_from_slice(e);`")
        steps, t, ty = self.ex(e.recv, env, sc)
        if ty == WRES and e.name == "unwrap" and not e.args:
            return steps + [f"match (match {t} with | SrcIoW.WResult.ok => Except.ok () | SrcIoW.WResult.failed => Except.error Panic.unwrap : Except Panic Unit) with",
                            "| .error e => .error e", "| .ok _ =>"], None, UNIT
        if e.name == "len" and not e.args and (ty in (ARRAY, STR, STRING) or ty[0] == "vec"):      # W-E5
            return steps, f"(Array.size {t})", USIZE
        if e.name == "as_bytes" and not e.args and ty in (STR, STRING):
            return steps, t, ARRAY
        if e.name == "unsigned_abs" and not e.args and is_int(ty):
            return steps, f"(SrcIoW.unsignedAbs {t})", ("int", f"(SrcIoW.unsignedOf {self.tterm(ty)})")
        if ty[0] == "tyvar":                                                                      # W-E9
            for d in self.dicts:
                if d[2] == ty[1] and d[4] == e.name:
                    m = self.tr.trait(d[3], e.line).methods[e.name]
                    em = WFnEmitter(self.tr, m)
                    params = [(em.norm_trait(pty, ty, e.line), pty[0] == "ref" and pty[1]) for _, pty, _ in m.params]
                    ret = em.norm_trait(m.ret, ty, e.line)
                    tmp = f"#recv{sc.n}"
                    env[tmp] = B(ty, t, False)
                    try:
                        s2, v, rty = self.call_sig(lambda _b: [d[0]], params, ret, [Node("var", e.line, name=tmp)] + list(e.args), env, sc, e.line, e.name)
                    finally:
                        del env[tmp]
                    return steps + s2, v, rty
            self.err(e.line, f"method `.{e.name}(…)` on a value of the type parameter `{self.gens[ty[1]][0]}`: no bound provides it")
        self.err(e.line, f"method `.{e.name}(…)` on a value of type `{ty}` has no rule")

    def norm_trait(self, ty, self_ty, line):
        if ty[0] == "ref":
            return self.norm_trait(ty[2], self_ty, line)
        if ty in (("self",), ("traitself",)):
            return self_ty
        return self.norm(ty, line)

    # -- statements ---------------------------------------------------------------------------------
    def seq(self, ss, i, tail, env, sc, ctx, k, kv):
        if i < len(ss):
            s = ss[i]

            def rest(e2):
                return self.seq(ss, i + 1, tail, e2, sc, ctx, k, kv)
            if s.kind == "cfgdbg":                                                                # W-P1
                inner = self.seq([s.stmt], 0, None, dict(env), sc, ctx, rest, None)
                return ["if dbg = true then ("] + indent(inner) + [") else ("] + indent(rest(dict(env))) + [")"]
            if s.kind == "for":
                return self.for_loop(s, env, sc, rest)
            if s.kind == "lettuple":                                                              # W-S3
                lines, t, ty = self.ex(s.expr, env, sc)
                if ty[0] != "tuple" or len(ty[1]) != len(s.names):
                    self.err(s.line, f"a tuple pattern of {len(s.names)} names for a value of type `{ty}`")
                vs = []
                for n, cty in zip(s.names, ty[1]):
                    if n in env:
                        self.err(s.line, f"`let {n}` shadows a variable in scope (outside the translated subset)")
                    v = sc.fresh()
                    vs.append(v)
                    env[n] = B(cty, v, False)
                return lines + [f"match {t} with", "| (" + ", ".join(vs) + ") =>"] + rest(env)
            if s.kind == "assign" and strip(s.target).kind == "index":                            # W-S1
                tg = strip(s.target)
                if s.op != "=":
                    self.err(s.line, f"`{s.op}` on an array element has no rule")
                pl = self.place(tg.e, env, s.line)
                if pl[2] != ARRAY:
                    self.err(s.line, f"a store into a value of type `{pl[2]}` has no rule")
                if not env[pl[0]].mut:
                    self.err(s.line, f"a store into `{pl[0]}`, which is not `mut`")
                lines, tv, ty = self.ex(s.expr, env, sc, U8)
                if ty != U8:
                    self.err(s.line, f"a value of type `{ty}` stored into a `[u8]`")
                s2, ti, ity = self.ex(tg.idx, env, sc, USIZE)
                if ity != USIZE:
                    self.err(s.line, "index that is not a `usize`")
                s3, (v,) = self.bind(sc, f"SrcIoW.store {self.read_place(pl, env)} {ti} {tv}")
                self.set_place(pl, env, v)
                return lines + s2 + s3 + rest(env)
            if s.kind == "assign" and s.op in ("/=", "%="):                                       # W-E1
                pl = self.place(s.target, env, s.line)
                if not env[pl[0]].mut:
                    self.err(s.line, f"assignment to `{pl[0]}`, which is not `mut`")
                lines, t, ty = self.ex(s.expr, env, sc, pl[2])
                if ty != pl[2] or not is_int(ty):
                    self.err(s.line, f"`{s.op}` with operands of types `{pl[2]}` / `{ty}`")
                st, (v,) = self.arith(s.op[0], self.read_place(pl, env), t, ty, sc, s.line)
                self.set_place(pl, env, v)
                return lines + st + rest(env)
            if s.kind == "expr" and s.expr.kind == "mcall" and s.expr.name == "copy_from_slice":   # W-R2
                e = s.expr
                r = strip(e.recv)
                if len(e.args) == 1 and r.kind == "index" and r.idx.kind == "range" and r.idx.lo is not None and r.idx.hi is not None:
                    pl = self.place(r.e, env, s.line)
                    if pl[2] == ARRAY and env[pl[0]].mut:
                        s1, ta, t1 = self.ex(r.idx.lo, env, sc, USIZE)
                        s2, tb, t2 = self.ex(r.idx.hi, env, sc, USIZE)
                        s3, tsrc, t3 = self.ex(e.args[0], env, sc, ARRAY)
                        if t1 != USIZE or t2 != USIZE or t3 != ARRAY:
                            self.err(s.line, "`copy_from_slice` with operands of these types has no rule")
                        st, (v,) = self.bind(sc, f"SrcIoW.copyFromSlice {self.read_place(pl, env)} {ta} {tb} {tsrc}")
                        self.set_place(pl, env, v)
                        return s1 + s2 + s3 + st + rest(env)
                self.err(s.line, "`copy_from_slice` is translated in the form `x.buf[a..b].copy_from_slice(e);` only")
            if s.kind in ("loopstmt", "match", "continue"):
                self.err(s.line, f"`{s.kind}` is outside the translated subset")
        return super().seq(ss, i, tail, env, sc, ctx, k, kv)

    # -- loops --------------------------------------------------------------------------------------
    def loop_def(self, params, state, body_fn, line, val_ty_fn):
        """as the reader's, with the header parameters W-I2 in front and `dbg` after `fuel`"""
        name = "\x00LOOP\x00"
        lsc = Scope()
        lenv, pnames = {}, []
        for n, b in params:
            comps = self.comp_tys(b.ty, line)
            ps = [f"p{len(pnames) + j}" for j in range(len(comps))]
            pnames += ps
            lenv[n] = B(b.ty, ps if b.ty[0] == "struct" else ps[0], b.mut)

        def vals(e2, which):
            out = []
            for n, b in params:
                if n in which:
                    out += list(e2[n].val) if b.ty[0] == "struct" else [e2[n].val]
            return out
        allnames = [n for n, _ in params]
        recurse = lambda e2: [" ".join([name] + self.hargs() + ["fuel", "dbg"] + vals(e2, allnames))]              # noqa: E731
        exit_ = lambda e2, extra=None: [".ok " + self.tuple_of(vals(e2, state) + ([extra] if extra else []))]     # noqa: E731
        body = body_fn(lenv, lsc, recurse, exit_)
        ptys = [self.lean_ty(t, line) for t in self.flat_tys(params, allnames, line)]
        stys = [self.lean_ty(t, line) for t in self.flat_tys(params, state, line)]
        sig = " → ".join(["Nat", "Bool"] + ptys + [f"Except Panic ({' × '.join(stys) if stys else 'Unit'})"])
        text = [f"@[src_def] def {name}{self.hbind()} : {sig}",
                "  | " + ", ".join(["0", "_"] + ["_"] * len(pnames)) + " => .error .fuel",
                "  | " + ", ".join(["fuel + 1", "dbg"] + pnames) + " =>"] + indent(indent(body))
        key = "\n".join(text)
        if key not in self.loop_cache:
            real = f"{self.fn.lean}_loop{self.nloops}"
            self.nloops += 1
            self.loop_cache[key] = real
            self.loop_defs.append(key.replace(name, real))
        return lsc, self.loop_cache[key]

    def call_loop(self, name, budget, params, state, env, sc, val_ty):
        terms = []
        for n, b in params:
            terms += list(env[n].val) if b.ty[0] == "struct" else [env[n].val]
        npat = len(self.flat_tys(params, state, 0))
        call = " ".join([name] + self.hargs() + [budget, "dbg"] + terms)
        if npat == 0:
            lines, names = [f"match {call} with", "| .error e => .error e", "| .ok _ =>"], []
        else:
            lines, names = self.bind(sc, call, npat)
        i = 0
        for n, b in params:
            if n in state:
                k = len(self.comp_tys(b.ty, 0))
                env[n] = B(b.ty, names[i:i + k] if b.ty[0] == "struct" else names[i], b.mut)
                i += k
        return lines, None

    def loop(self, node, env, sc, line, value):
        self.err(line, "`loop` is outside the translated subset")

    def for_loop(self, s, env, sc, rest):                                                        # W-S2
        it = s.iter
        if it.kind == "mcall" and it.name == "chunks" and len(it.args) == 1:
            steps, ta, ty = self.ex(it.recv, env, sc)
            if ty != ARRAY:
                self.err(s.line, f"`.chunks(…)` on a value of type `{ty}` has no rule")
            s2, tn, tyn = self.ex(it.args[0], env, sc, USIZE)
            if tyn != USIZE:
                self.err(s.line, "chunk size that is not a `usize`")
            s3, (itv,) = self.bind(sc, f"SrcIoW.chunks {ta} {tn}")
            steps = steps + s2 + s3
            ity, item_tys = ("iter", "chunks"), [ARRAY]
            if not isinstance(s.pat, str):
                self.err(s.line, "a tuple pattern over `.chunks(…)`")
            pat = [s.pat]
        elif (it.kind == "mcall" and it.name == "enumerate" and not it.args and it.recv.kind == "mcall" and it.recv.name == "iter" and not it.recv.args):
            steps, ta, ty = self.ex(it.recv.recv, env, sc)
            if ty[0] != "vec":
                self.err(s.line, f"`.iter().enumerate()` on a value of type `{ty}` has no rule")
            itv = sc.fresh()
            steps = steps + [f"let {itv} := (SrcIoW.enumerate {ta})"]
            ity, item_tys = ("iter", "enum", ty[1]), [USIZE, ty[1]]
            if isinstance(s.pat, str) or len(s.pat) != 2:
                self.err(s.line, "`.iter().enumerate()` is translated with a pattern `(i, x)` only")
            pat = list(s.pat)
        else:
            self.err(s.line, "`for` is translated over `e.chunks(n)` and `e.iter().enumerate()` only")
        for n in pat:
            if n in env:
                self.err(s.line, f"the loop variable `{n}` shadows a variable in scope (outside the translated subset)")
        env2 = dict(env)
        env2[ITER_VAR] = B(ity, itv, False)
        names = [ITER_VAR] + [n for n in mentioned(s.body, []) if n in env]
        params = [(n, env2[n]) for n in names]
        state = [n for n in names if env2[n].mut]

        def body_fn(lenv, lsc, recurse, exit_):
            lctx = Ctx("for", None, None, None)
            vs = [lsc.fresh() for _ in pat]
            nxt = lsc.fresh()
            e2 = dict(lenv)
            e2[ITER_VAR] = B(ity, nxt, False)
            outer = dict(e2)
            for n, v, t in zip(pat, vs, item_tys):
                e2[n] = B(t, v, False)
            item = vs[0] if len(vs) == 1 else "(" + ", ".join(vs) + ")"
            fn = "SrcIoW.Chunks.next" if ity[1] == "chunks" else "SrcIoW.Enumerate.next"
            body = self.block(s.body, e2, lsc, lctx, lambda e3: recurse(self.leave(outer, e3)), None)
            return [f"match {fn} {lenv[ITER_VAR].val} with", "| none =>"] + indent(exit_(lenv)) + [f"| some ({item}, {nxt}) =>"] + indent(body)
        _, name = self.loop_def(params, state, body_fn, s.line, lambda lsc: None)
        lines, _ = self.call_loop(name, "fuel", params, state, env2, sc, None)
        for n in state:
            env[n] = env2[n]
        return steps + lines + rest(env)

    # -- the function -------------------------------------------------------------------------------
    def emit(self):
        fn = self.fn
        if fn.impl_error:
            raise fn.impl_error
        if fn.header_error:
            raise fn.header_error
        if fn.body_start is None:
            self.err(fn.line, f"`{fn.name}` has no body")
        p = fn.parser
        p.i = fn.body_start
        p.macro_params = list(fn.macro_params)
        p.generics = [g[0] for g in fn.generics]
        body = p.parse_block()
        sc = Scope()
        env, pnames, binders, mut_var = {}, [], [], None
        for pn, pty, pmut in fn.params:
            ty = self.norm(pty, fn.line)
            is_mut_ref = pty[0] == "ref" and pty[1]
            comps = self.comp_tys(ty, fn.line)
            ps = [f"p{len(pnames) + j}" for j in range(len(comps))]
            pnames += ps
            binders += [(x, self.lean_ty(t, fn.line)) for x, t in zip(ps, comps)]
            env[pn] = B(ty, ps if ty[0] == "struct" else ps[0], pmut or is_mut_ref)
            if ty[0] == "struct" and is_mut_ref:
                if mut_var is not None:
                    self.err(fn.line, "two `&mut` struct parameters")
                mut_var = pn
        ret = self.norm(fn.ret, fn.line)
        ret_tys = ([self.lean_ty(t, fn.line) for t in self.comp_tys(env[mut_var].ty, fn.line)] if mut_var else []) + \
                  ([] if ret == UNIT else [self.lean_ty(t, fn.line) for t in self.comp_tys(ret, fn.line)])

        def do_ret(e2, expr, line):
            cur = list(e2[mut_var].val) if mut_var else []
            if expr is None:
                if ret != UNIT:
                    self.err(line, f"`{fn.name}` ends without the value its signature promises")
                return [".ok " + self.tuple_of(cur)]
            st, t, ty = self.ex(expr, e2, sc, ret)
            if ty == UNIT and ret == UNIT:
                return st + [".ok " + self.tuple_of(list(e2[mut_var].val) if mut_var else [])]
            if ty == PROP:
                t, ty = f"(decide ({t}))", BOOL
            if ty != ret:
                self.err(line, f"`{fn.name}` returns a value of type `{ty}`, declared `{ret}`")
            cur2 = list(e2[mut_var].val) if mut_var else []
            return st + [".ok " + self.tuple_of(cur2 + (list(t) if isinstance(t, list) else [t]))]
        ctx = Ctx("fn", do_ret, None, None)
        lines = self.seq(body.stmts, 0, body.tail, env, sc, ctx, lambda e2: do_ret(e2, None, fn.line), lambda e2, tail: do_ret(e2, tail, tail.line))
        groups = []
        for x, t in binders:
            if groups and groups[-1][1] == t:
                groups[-1][0].append(x)
            else:
                groups.append(([x], t))
        head = f"@[src_def] def {fn.lean}{self.hbind()} (fuel : Nat) (dbg : Bool)" + "".join(f" ({' '.join(xs)} : {t})" for xs, t in groups) + \
               f" : Except Panic ({' × '.join(ret_tys) if ret_tys else 'Unit'}) :="
        return self.loop_defs + ["\n".join([head] + indent(lines))]


def has_tyvar(ty):
    if ty[0] == "tyvar":
        return True
    if ty[0] == "vec":
        return has_tyvar(ty[1])
    if ty[0] == "tuple":
        return any(has_tyvar(x) for x in ty[1])
    return False


def unify(pat, ty, b):
    """match the callee-side type `pat` (its own `tyvar`s) against the caller-side type `ty`"""
    if pat[0] == "tyvar":
        if pat[1] in b:
            return b[pat[1]] == ty
        b[pat[1]] = ty
        return True
    if pat[0] != ty[0]:
        return False
    if pat[0] == "vec":
        return unify(pat[1], ty[1], b)
    if pat[0] == "tuple":
        return len(pat[1]) == len(ty[1]) and all(unify(p, t, b) for p, t in zip(pat[1], ty[1]))
    return pat == ty


def subst(ty, b):
    if ty[0] == "tyvar":
        return b[ty[1]]
    if ty[0] == "vec":
        return ("vec", subst(ty[1], b))
    if ty[0] == "tuple":
        return ("tuple", tuple(subst(t, b) for t in ty[1]))
    return ty


class WTranslator(Translator):
    def __init__(self, src, file, struct):
        self.file = file
        self.parser = WParser(src, file)
        self.prog = self.parser.parse_program()
        if struct not in self.prog.structs:
            raise TranslateError(file, 1, f"struct `{struct}` not found")
        self.struct = struct
        self.sigs, self.defs, self.order, self.in_progress = {}, [], [], []
        self.used_consts = set()
        self.used_traits = []
        for fn in self.prog.fns:
            fn.lean = self.lean_name(fn)

    def trait(self, name, line):
        tr = self.prog.traits.get(name)
        if tr is None:
            raise TranslateError(self.file, line, f"the bound `{name}` is not a trait of this file (outside the translated subset)")
        if tr.error:
            raise tr.error
        return tr

    def lean_name(self, fn):                                                                      # W-I3
        if fn.macro:
            return fn.macro
        if fn.trait is not None and fn.self_ty is not None:
            t = fn.self_ty
            while t[0] == "ref":
                t = t[2]
            if t == ("named", self.struct):
                return fn.name
            pre = {"str": "str", "string": "String", "vec": "Vec"}.get(t[0])
            if t[0] == "tuple":
                pre = f"tuple{len(t[1])}"
            if pre is None:
                pre = t[1] if t[0] == "named" else t[0]
            return f"{pre}_{fn.name}"
        return fn.name

    def macro_covers(self, fn, ty):
        """is the impl inside the `:ty` macro of `fn` the impl for the integer type `ty`?  `$t::Unsigned` ↦ the macro all of whose
        invocations are unsigned types (and which has some); a bare `$t`: the macro itself."""
        if not fn.macro:
            return False
        args = [i.args for i in self.prog.invocations if i.name == fn.macro]
        if not args or any(len(a) != 1 or a[0] not in INT_TYPES for a in args):
            return False
        if ty[1].startswith("(SrcIoW.unsignedOf "):
            return all(not INT_TYPES[a[0]][0] for a in args)
        return False

    def find_fn(self, name, line):
        c = [f for f in self.prog.fns if f.name == name and f.trait is None and f.macro is None and f.self_ty == ("named", self.struct)]
        if len(c) != 1:
            raise TranslateError(self.file, line, f"call of `{name}`: {len(c)} functions of that name in `impl {self.struct}`")
        return c[0]

    def request(self, fn, line, caller=None):
        if id(fn) in self.sigs:
            return self.sigs[id(fn)]
        if fn in self.in_progress:
            raise TranslateError(self.file, line, f"recursion through `{fn.name}` is outside the translated subset")
        self.in_progress.append(fn)
        try:
            if fn.impl_error:
                raise fn.impl_error
            if fn.header_error:
                raise fn.header_error
            em = WFnEmitter(self, fn)
            self.used_traits += [(d[3], d[4]) for d in em.dicts]
            sig = {"lean": fn.lean, "params": [(em.norm(pty, fn.line), pty[0] == "ref" and pty[1]) for _, pty, _ in fn.params], "ret": em.norm(fn.ret, fn.line),
                   "dicts": [(d[2], d[3], d[4]) for d in em.dicts], "tparams": list(em.tparams), "generics": list(fn.generics)}
            self.defs += em.emit()
            self.sigs[id(fn)] = sig
            self.order.append(fn)
        finally:
            self.in_progress.pop()
        return sig

    def resolve_all(self, w):
        """`f` (inherent fn of the struct or its own trait impl, e.g. `drop`) | `Type::f` (`str`, `String`, `Vec`) | `m!` (all impls generated by macro m)"""
        if w.endswith("!"):
            m = self.prog.macros.get(w[:-1])
            if m is None:
                raise TranslateError(self.file, 1, f"macro `{w}` not found")
            if m.error:
                raise m.error
            for inv in self.prog.invocations:
                if inv.name == m.name and inv.error:
                    raise inv.error
            c = [f for f in self.prog.fns if f.macro == m.name or (f.expanded_from and f.expanded_from[0] == m.name)]
            if not c:
                raise TranslateError(self.file, m.line, f"macro `{w}` generates no function")
            return c
        if "::" in w:
            tname, fname = w.split("::")
            c = [f for f in self.prog.fns if f.lean == f"{tname}_{fname}" and f.trait is not None and f.macro is None and not f.expanded_from]
        else:
            c = [f for f in self.prog.fns if f.lean == w and f.macro is None and not f.expanded_from and
                 (f.self_ty == ("named", self.struct) or (f.self_ty and f.self_ty[0] == "ref" and f.self_ty[2] == ("named", self.struct)))]
        if len(c) != 1:
            raise TranslateError(self.file, 1, f"requested function `{w}`: {len(c)} candidates in the source")
        return c

    def trait_abbrevs(self):                                                                      # W-I1
        out, seen = [], set()
        for tname, mname in self.used_traits:
            if (tname, mname) in seen:
                continue
            seen.add((tname, mname))
            m = self.prog.traits[tname].methods[mname]
            em = WFnEmitter(self, m)
            ptys, mut_comps = [], None
            for _, pty, _ in m.params:
                ty = em.norm_trait(pty, ("tyvar", 0), m.line)
                if ty == ("tyvar", 0):
                    ptys.append("T")
                else:
                    comps = [em.lean_ty(t, m.line) for t in em.comp_tys(ty, m.line)]
                    ptys += comps
                    if ty[0] == "struct" and pty[0] == "ref" and pty[1]:
                        mut_comps = comps
            ret = em.norm_trait(m.ret, ("tyvar", 0), m.line)
            rtys = (mut_comps or []) + ([] if ret == UNIT else [em.lean_ty(t, m.line) for t in em.comp_tys(ret, m.line)])
            out.append(f"abbrev {tname}_{mname} (T : Type) : Type :=\n  " + " → ".join(["Nat", "Bool"] + ptys + [f"Except Panic ({' × '.join(rtys) if rtys else 'Unit'})"]))
        return out

    def translate(self, wanted):
        for w in wanted:
            for f in self.resolve_all(w):
                self.request(f, 1)
        consts = []
        for c in self.prog.consts.values():
            if c.name in self.used_consts:
                if c.ty != USIZE:
                    raise TranslateError(self.file, c.line, "a constant that is not a `usize`")
                consts.append(f"def {c.name} : Nat := {self.const_term(c.expr)}")
        inst = []
        for m in self.prog.macros.values():
            if m.tokens is None and any(f.macro == m.name for f in self.order):
                rows = []
                for inv in self.prog.invocations:
                    if inv.name == m.name:
                        if len(inv.args) != 1 or inv.args[0] not in INT_TYPES:
                            raise TranslateError(self.file, inv.line, f"invocation `{inv.name}!({', '.join(inv.args)})` is outside the translated subset (one primitive integer type)")
                        s, b = INT_TYPES[inv.args[0]]
                        rows.append(f"IntTy.mk {'true' if s else 'false'} {b}")
                inst.append(f"def {m.name}_instances : List IntTy :=\n  [{', '.join(rows)}]")
            elif m.tokens is not None and any(f.expanded_from and f.expanded_from[0] == m.name for f in self.order):
                rows = [str(len(inv.args)) for inv in self.prog.invocations if inv.name == m.name]
                inst.append(f"def {m.name}_arities : List Nat :=\n  [{', '.join(rows)}]")
        return consts + self.trait_abbrevs() + self.defs + inst

    def not_translated(self):
        done = {id(f) for f in self.order}
        out = []
        for f in self.prog.fns:
            if id(f) not in done and f.body_start is not None:
                why = f.header_error or f.impl_error
                out.append(f"{f.lean} (line {f.line})" + (f": {why.msg}" if why else ": not requested"))
        for m in self.prog.macros.values():
            if m.error:
                out.append(f"macro {m.name}! (line {m.line}): {m.error.msg}")
        for inv in self.prog.invocations:
            if inv.error:
                out.append(f"invocation {inv.name}!(…) (line {inv.line}): {inv.error.msg}")
        return out


HEADER = """import RlibModel.Model.Common
import RlibModel.Generated.AttrSrc
import RlibModel.Generated.IoWritePrelude
/-!
GENERATED by `tools/rs2lean_writer.py` from the source text of `{rel}` on every run of `./check {pid}`
— do not edit by hand.  Translation scheme: the doc comment at the top of `tools/rs2lean_writer.py` (and of `tools/rs2lean_reader.py`,
whose rules it inherits).
The struct is the tuple of its fields (buffer, end, sink — in declaration order); a `&mut self` / `writer: &mut Writer` function returns the
new components; `usize` is `Nat` with checked `+ -` (`SrcIo.uadd/usub`), `u8` is `UInt8`, a `char` is its code point (`Nat`), `&str` /
`String` / `&[u8]` are the `Array UInt8` of their bytes, `$t` values are `Int`s in the range of `(t0 : IntTy)`; the external
`Write::write_all` is the ORACLE `SrcIoW.writeAll` on the explicit sink parameter; slices, `copy_from_slice`, stores, the `chunks` /
`enumerate` iterators, `%` `/` on `$t`, `BASE_10_LEN` are the fixed functions of `Generated/IoWritePrelude.lean`.  Every definition takes
`fuel` (loops) and `dbg` (= built with `debug_assertions`: the `#[cfg(debug_assertions)]` statements); a bound `T: Writable` is a
dictionary parameter `(T<k>_write : Writable_write T<k>)`, passed in front of `fuel`.  Variables are renamed (`p*`, `v*`, `t*`, `T*`): the
text depends on the source only up to renaming, comments and layout.  `Lemmas/{stem}.lean` proves that each definition does what the
hand-written model (`Model/Writer.lean`) does.
-/
set_option linter.unusedVariables false
namespace {ns}
open Rlib

"""


def render(defs, ns, rel, pid, stem, failure=None):
    text = HEADER.format(rel=rel, pid=pid, ns=ns, stem=stem)
    if failure is not None:
        safe = failure.replace("-/", "- /").replace("/-", "/ -")
        text += f"/- TRANSLATION FAILED — no definitions; everything that refers to them stops compiling.\n   {safe} -/\n\n"
    else:
        text += "\n\n".join(defs) + "\n\n"
    return text + f"end {ns}\n"


def run(src_path, out_path, ns, rel, pid, struct, wanted):
    """Translate `src_path` and (re)write `out_path` when its content changes.  -> (info, problems).  A failed translation writes a file
    with no definitions (never a stale one) and reports a problem that starts with the SUBSET prefix of rs2lean.py."""
    stem = os.path.splitext(os.path.basename(out_path))[0]
    problems, info = [], {"functions": [], "loops": [], "not_translated": []}
    try:
        tr = WTranslator(open(src_path).read(), rel, struct)
        defs = tr.translate(wanted)
        info = {"functions": [f.lean for f in tr.order],
                "loops": [m.group(1) for d in defs for m in [re.match(r"@\[src_def\] def (\w+_loop\d+) ", d)] if m],
                "constants": sorted(tr.used_consts), "struct": struct,
                "instances": {m: [" ".join(i.args) for i in tr.prog.invocations if i.name == m] for m in tr.prog.macros
                              if any(f.macro == m or (f.expanded_from and f.expanded_from[0] == m) for f in tr.order)},
                "not_translated": tr.not_translated()}
        text = render(defs, ns, rel, pid, stem)
    except (OSError, TranslateError) as e:
        problems.append(SUBSET + f"rs2lean_writer: {e}" if isinstance(e, TranslateError) else f"rs2lean_writer: {e}")
        text = render([], ns, rel, pid, stem, failure=str(e))
    info["rewritten"] = write_if_changed(out_path, text)
    return info, problems


def main(argv):
    import argparse
    ap = argparse.ArgumentParser()
    ap.add_argument("src")
    ap.add_argument("--out", required=True)
    ap.add_argument("--namespace", required=True)
    ap.add_argument("--struct", default="Writer")
    ap.add_argument("--fns", required=True)
    ap.add_argument("--rel", default=None)
    ap.add_argument("--pid", default="C09")
    a = ap.parse_args(argv)
    info, problems = run(a.src, a.out, a.namespace, a.rel or a.src, a.pid, a.struct, a.fns.split(","))
    print(json.dumps({"info": info, "problems": problems}, indent=1))
    return 1 if problems else 0


if __name__ == "__main__":
    sys.exit(main(sys.argv[1:]))
