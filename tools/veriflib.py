#!/usr/bin/env python3
"""
Generic machinery behind `./check Cxx` (see DESIGN.md §3-§4).

One run:
  1. extract parameters from the repository source (per-property hook, optional);
  2. `lake build` the property's theorem module + native model driver; audit axioms and
     forbidden tokens (every `theorem` in Props/Cxx.lean is one proof obligation);
  3. `cargo build` the Rust harness against the repository's current working tree;
  4. corpus + generated cases -> implementation (`I raw | V view`) and Lean driver
     (`M raw | V view | S spec`); diff;
  5. classify, shrink, write replay + evidence, print the verdict.

Exit codes: 0 property shown on everything explored (KNOWN-FINDING lines allowed),
            1 VIOLATION (line printed), 2 machinery error (never a property verdict).
"""
import hashlib
import importlib.util
import json
import os
import re
import shutil
import subprocess
import sys
import time

VERIF = os.path.dirname(os.path.dirname(os.path.abspath(__file__)))
LEAN = os.path.join(VERIF, "lean")
HARNESS = os.path.join(VERIF, "harness")
ALLOWED_AXIOMS = {"propext", "Classical.choice", "Quot.sound"}
FORBIDDEN = [r"\bsorry\b", r"\badmit\b", r"\baxiom\b", r"\bnative_decide\b", r"\bbv_decide\b",
             r"\bimplemented_by\b", r"\bunsafe\b", r"maxHeartbeats\s+0\b", r"\bextern\b", r"decide\s*\+native",
             r"\bofReduceBool\b", r"\btrustCompiler\b", r"\bunsafeCast\b", r"\bcsimp\b"]
# `partial def` would let a driver run an unproved twin of a proved function: only the IO loop in Common may be partial
PARTIAL_OK = {"RlibModel.Model.Common"}
TRUSTED_BASE = [
    "Lean 4.33.0 kernel + elaborator",
    "axioms: propext, Classical.choice, Quot.sound only (audited with #print axioms on every run)",
    "Mathlib v4.33.0 modules imported by lemma files",
    "hand-written Lean model; tie to /repo = differential correspondence (Rust harness, Lean native driver, this script)",
    "rustc/cargo, std",
]


# prefix of an `extract` problem that only says "the translator of the second tie cannot read this source" (tools/rs2lean.py: SUBSET)
SUBSET_PREFIX = "translator subset (a limitation of the second tie"


class Machinery(Exception):
    """Something in the checking machinery itself failed (exit 2)."""


def log(msg):
    print(f"[check] {msg}", flush=True)


def run(cmd, cwd=None, env=None, timeout=None, stdin=None, stdout=None):
    e = dict(os.environ)
    e["CARGO_NET_OFFLINE"] = "true"
    if env:
        e.update(env)
    return subprocess.run(cmd, cwd=cwd, env=e, timeout=timeout, stdin=stdin,
                          stdout=stdout if stdout is not None else subprocess.PIPE,
                          stderr=subprocess.PIPE, text=True)


def load_config(pid):
    path = os.path.join(VERIF, "checks", f"{pid}.py")
    if not os.path.exists(path):
        raise Machinery(f"no check definition {path}")
    spec = importlib.util.spec_from_file_location(f"check_{pid}", path)
    mod = importlib.util.module_from_spec(spec)
    spec.loader.exec_module(mod)
    return mod


# ----------------------------------------------------------------------------------------------
# Lean side
# ----------------------------------------------------------------------------------------------

def strip_lean_comments(src):
    """Remove block comments (nested) and line comments.  String literals are blanked (so that a `/-` or `--`
    inside a string can neither open a comment nor hide a forbidden token) but kept as `""`."""
    out = []
    i, depth, n = 0, 0, len(src)
    while i < n:
        if depth == 0 and src[i] == '"':
            # string literal: skip to the closing quote, honouring escapes
            j = i + 1
            while j < n and src[j] != '"':
                j += 2 if src[j] == "\\" else 1
            out.append('""')
            out.append("\n" * src.count("\n", i, min(j + 1, n)))
            i = j + 1
        elif depth == 0 and src[i] == "'" and i + 2 < n and (src[i + 2] == "'" or (src[i + 1] == "\\" and i + 3 < n and src[i + 3] == "'")):
            # char literal such as '"' or '\''
            k = i + 3 if src[i + 2] == "'" else i + 4
            out.append("' '")
            i = k
        elif src.startswith("/-", i):
            depth += 1
            i += 2
        elif depth > 0 and src.startswith("-/", i):
            depth -= 1
            i += 2
        elif depth > 0:
            if src[i] == "\n":
                out.append("\n")
            i += 1
        elif src.startswith("--", i):
            while i < n and src[i] != "\n":
                i += 1
        else:
            out.append(src[i])
            i += 1
    return "".join(out)


def local_imports(module, seen=None):
    """Transitive closure of project-local imports (RlibModel.*, Driver.*) of a module."""
    if seen is None:
        seen = {}
    if module in seen:
        return seen
    path = os.path.join(LEAN, module.replace(".", "/") + ".lean")
    if not os.path.exists(path):
        raise Machinery(f"missing Lean module {module}")
    src = open(path).read()
    seen[module] = path
    for m in re.findall(r"^\s*(?:public\s+)?import\s+([\w.]+)", src, flags=re.M):
        if m.startswith("RlibModel.") or m.startswith("Driver."):
            local_imports(m, seen)
    return seen


def scan_forbidden(modules):
    hits = []
    for mod, path in sorted(modules.items()):
        code = strip_lean_comments(open(path).read())
        for ln, line in enumerate(code.split("\n"), 1):
            for pat in FORBIDDEN:
                if re.search(pat, line):
                    hits.append(f"{mod}:{ln}: {line.strip()[:120]}")
            if re.search(r"\bpartial\s+def\b", line) and mod not in PARTIAL_OK:
                hits.append(f"{mod}:{ln}: partial def outside Common: {line.strip()[:100]}")
    return hits


def theorems_of(props_module):
    """(namespace-qualified) names of all `theorem`s declared in a Props file."""
    path = os.path.join(LEAN, props_module.replace(".", "/") + ".lean")
    code = strip_lean_comments(open(path).read())
    names = []
    ns = []
    for line in code.split("\n"):
        m = re.match(r"\s*namespace\s+([\w.]+)", line)
        if m:
            ns.append(m.group(1))
            continue
        m = re.match(r"\s*section\s+([\w.]+)\s*$", line)
        if m:
            ns.append("§" + m.group(1))
            continue
        m = re.match(r"\s*end\s+([\w.]+)\s*$", line)
        if m and ns and ns[-1] in (m.group(1), "§" + m.group(1)):
            ns.pop()
            continue
        m = re.match(r"\s*(?:(?:set_option|open)\b.*?\bin\s+)?(?:@\[[^\]]*\]\s*)*(?:(?:protected|private|nonrec|noncomputable)\s+)*(?:theorem|lemma)\s+([^\s:({\[]+)", line)
        if m:
            names.append(".".join([x for x in ns if not x.startswith("§")] + [m.group(1)]))
    return names


def enclosing_theorem(path, line_no):
    """Name of the `theorem`/`lemma`/`def`/`instance` whose text contains line `line_no` of a Lean file."""
    try:
        lines = open(path).read().split("\n")
    except OSError:
        return None
    for k in range(min(line_no, len(lines)) - 1, -1, -1):
        m = re.match(r"\s*(?:@\[[^\]]*\]\s*)*(?:(?:protected|private|nonrec|noncomputable)\s+)*(theorem|lemma|def|instance|example)\s*([^\s:({\[]*)", lines[k])
        if m:
            return f"{m.group(1)} {m.group(2)}".strip()
    return None


def failing_declarations(lake_output):
    """Map `error: path:line:col` lines of a lake build log to the declarations they are in."""
    out = []
    for m in re.finditer(r"error: ([\w./-]+\.lean):(\d+):(\d+)", lake_output):
        path = m.group(1) if os.path.isabs(m.group(1)) else os.path.join(LEAN, m.group(1))
        decl = enclosing_theorem(path, int(m.group(2)))
        item = f"{m.group(1)}:{m.group(2)} in {decl}" if decl else f"{m.group(1)}:{m.group(2)}"
        if item not in out:
            out.append(item)
    return out[:20]


def lake_build(targets):
    t0 = time.time()
    r = run(["lake", "build"] + targets, cwd=LEAN, timeout=3600)
    return r.returncode == 0, (r.stdout or "") + (r.stderr or ""), time.time() - t0


def audit_axioms(pid, props_module, theorems):
    """Run `#print axioms` on every property theorem; returns {theorem: [axioms]} or raises."""
    d = os.path.join(LEAN, ".audit")
    os.makedirs(d, exist_ok=True)
    path = os.path.join(d, f"{pid}.lean")
    with open(path, "w") as f:
        f.write(f"import {props_module}\n")
        for t in theorems:
            f.write(f"#print axioms {t}\n")
    r = run(["lake", "env", "lean", path], cwd=LEAN, timeout=1800)
    out = (r.stdout or "") + (r.stderr or "")
    res = {}
    # output forms:  'X' depends on axioms: [a, b]      |   'X' does not depend on any axioms
    for m in re.finditer(r"^.*?'(\S+)' depends on axioms: \[([^\]]*)\]", out, flags=re.S | re.M):
        res[m.group(1)] = [a.strip() for a in m.group(2).replace("\n", " ").split(",") if a.strip()]
    for m in re.finditer(r"^.*?'(\S+)' does not depend on any axioms", out, flags=re.M):
        res[m.group(1)] = []
    return r.returncode == 0, res, out


# ----------------------------------------------------------------------------------------------
# Rust side
# ----------------------------------------------------------------------------------------------

def harness_dir(crate, repo):
    """Directory to build the harness crate in.  For the default /repo: in place.  For an
    alternative repository path (mutant worktrees): a scratch copy with the path substituted."""
    if os.path.abspath(repo) == "/repo":
        return os.path.join(HARNESS, crate), None
    key = hashlib.sha1((os.path.abspath(repo) + "|" + crate).encode()).hexdigest()[:10]   # per repo AND crate: concurrent checks do not share it
    root = f"/tmp/verif-alt-{key}"
    dst = os.path.join(root, "harness", crate)
    os.makedirs(os.path.join(root, "harness"), exist_ok=True)
    # refresh sources, keep target/ for incremental builds
    for name in os.listdir(os.path.join(HARNESS, crate)):
        if name == "target":
            continue
        s = os.path.join(HARNESS, crate, name)
        d = os.path.join(dst, name)
        if os.path.isdir(s):
            shutil.rmtree(d, ignore_errors=True)
            shutil.copytree(s, d)
        else:
            os.makedirs(dst, exist_ok=True)
            shutil.copy2(s, d)
    shutil.rmtree(os.path.join(root, "harness", "common"), ignore_errors=True)
    shutil.copytree(os.path.join(HARNESS, "common"), os.path.join(root, "harness", "common"))
    for dirpath, _, files in os.walk(dst):
        if "/target" in dirpath:
            continue
        for fn in files:
            if fn.endswith(".toml") or fn.endswith(".rs") or fn.endswith(".lock"):
                p = os.path.join(dirpath, fn)
                s = open(p).read()
                s2 = s.replace("/repo/", os.path.abspath(repo) + "/")
                if s2 != s:
                    open(p, "w").write(s2)
    return dst, root


def cargo_build(crate_dir, profile):
    t0 = time.time()
    cmd = ["cargo", "build", "--offline"]
    if profile == "release":
        cmd.append("--release")
    r = run(cmd, cwd=crate_dir, timeout=3600)
    return r.returncode == 0, (r.stdout or "") + (r.stderr or ""), time.time() - t0


# ----------------------------------------------------------------------------------------------
# Correspondence
# ----------------------------------------------------------------------------------------------

def parse_impl(line):
    # I raw | V view
    if not line.startswith("I "):
        return None
    body = line[2:]
    k = body.rfind(" | V ")
    if k < 0:
        return body.strip(), body.strip()
    return body[:k].strip(), body[k + 5:].strip()


def parse_model(line):
    # M raw | V view | S spec
    if not line.startswith("M "):
        return None
    body = line[2:]
    ks = body.rfind(" | S ")
    if ks < 0:
        return None
    spec = body[ks + 5:].strip()
    body = body[:ks]
    kv = body.rfind(" | V ")
    if kv < 0:
        return body.strip(), body.strip(), spec
    return body[:kv].strip(), body[kv + 5:].strip(), spec


class Pipeline:
    """Runs case lines through the implementation harness and the Lean driver."""

    def __init__(self, cfg, repo, profile, workdir):
        self.cfg = cfg
        self.repo = repo
        self.profile = profile
        self.workdir = workdir
        self.crate_dir, self.alt_root = harness_dir(cfg.CRATE, repo)
        self.bin = os.path.join(self.crate_dir, "target", profile, cfg.CRATE)
        self.drv = os.path.join(LEAN, ".lake", "build", "bin", cfg.DRIVER)
        self.extra_args = []

    def build(self):
        return cargo_build(self.crate_dir, self.profile)

    def gen(self, seed, tier, out_path):
        with open(out_path, "w") as f:
            r = run([self.bin, "gen", "--seed", str(seed), "--tier", tier] + self.extra_args,
                    stdout=f, timeout=7200)
        if r.returncode != 0:
            raise Machinery(f"generator failed: {r.stderr[-2000:]}")
        stats = {}
        for line in (r.stderr or "").strip().split("\n"):
            line = line.strip()
            if line.startswith("{"):
                try:
                    stats = json.loads(line)
                except Exception:
                    pass
        return stats

    def run_impl(self, cases_path, out_path, timeout=7200, line_flush=False):
        """Returns (rc, stderr); rc = -9 when the harness had to be killed after `timeout` seconds."""
        env = {"VERIF_LINE_FLUSH": "1"} if line_flush else None
        try:
            with open(cases_path) as fin, open(out_path, "w") as fout:
                r = run([self.bin, "run"] + self.extra_args, stdin=fin, stdout=fout, timeout=timeout, env=env)
            return r.returncode, r.stderr
        except subprocess.TimeoutExpired:
            return -9, f"harness killed after {timeout}s (hang)"

    def pinpoint_crash(self, cases_path, tag, timeout):
        """The harness died or hung: re-run line-flushed and return (index, case) of the first unanswered case."""
        out = os.path.join(self.workdir, f"{tag}.pin")
        rc, err = self.run_impl(cases_path, out, timeout=timeout, line_flush=True)
        n_out = sum(1 for _ in open(out))
        with open(cases_path) as f:
            for k, line in enumerate(f):
                if k == n_out:
                    return k, line.rstrip("\n"), rc, err
        return None, None, rc, err

    def run_model(self, cases_path, out_path):
        with open(cases_path) as fin, open(out_path, "w") as fout:
            r = run([self.drv], stdin=fin, stdout=fout, timeout=7200)
        if r.returncode != 0:
            raise Machinery(f"model driver failed rc={r.returncode}: {r.stderr[-2000:]}")

    def eval_model_only(self, case):
        cp = os.path.join(self.workdir, "crash.model.cases")
        mp = os.path.join(self.workdir, "crash.model.out")
        with open(cp, "w") as f:
            f.write(case + "\n")
        self.run_model(cp, mp)
        lines = open(mp).read().split("\n")
        return parse_model(lines[0]) if lines else None

    def eval_cases(self, cases, tag="tmp"):
        """Evaluate a small list of case lines; returns list of dicts."""
        cp = os.path.join(self.workdir, f"{tag}.cases")
        ip = os.path.join(self.workdir, f"{tag}.impl")
        mp = os.path.join(self.workdir, f"{tag}.model")
        with open(cp, "w") as f:
            for c in cases:
                f.write(c + "\n")
        rc, err = self.run_impl(cp, ip, timeout=120)
        self.run_model(cp, mp)
        il = open(ip).read().split("\n")
        ml = open(mp).read().split("\n")
        res = []
        for k, c in enumerate(cases):
            i = parse_impl(il[k]) if k < len(il) else None
            m = parse_model(ml[k]) if k < len(ml) else None
            res.append({"case": c, "impl": i, "model": m,
                        "impl_line": il[k] if k < len(il) else "<missing: harness died>",
                        "model_line": ml[k] if k < len(ml) else "<missing>"})
        return res


def classify(rec):
    """'ok' | 'violation' (impl view != spec, whatever the model says) | 'drift' (impl raw != model raw, views agree)
       | 'machinery' (impl agrees with the spec but the model's own view does not, or a line is unparsable)."""
    i, m = rec["impl"], rec["model"]
    if m is None:
        return "machinery"
    mraw, mview, spec = m
    if i is None:
        # no answer at all from the implementation for this case (crash / hang / harness died)
        return "violation" if spec != "any" and str(rec.get("impl_line", "")).startswith("<") else "machinery"
    iraw, iview = i
    if spec != "any" and iview != spec:
        return "violation"
    if spec != "any" and mview != spec:
        return "machinery"
    if iraw != mraw:
        # outside the property's stated domain (`S any`) the property says nothing, and harmless refactorings routinely
        # change what happens there (overflow behaviour, panic texts): counted in the evidence, not a broken correspondence
        return "drift" if spec != "any" else "ood-drift"
    return "ok"


def shrink_case(pipe, case, sep, want):
    """Greedy one-op-at-a-time shrinking of an op-sequence case `hdr ; op ; op ...`."""
    if not sep or sep not in case:
        return case
    parts = [p.strip() for p in case.split(sep)]
    hdr, ops = parts[0], parts[1:]
    budget = 40
    while budget > 0 and len(ops) > 1:
        budget -= 1
        cands = []
        # try removing chunks (halves first, then single ops)
        n = len(ops)
        chunk = max(1, n // 2)
        seen = set()
        while chunk >= 1:
            for s in range(0, n, chunk):
                cand = ops[:s] + ops[s + chunk:]
                key = tuple(cand)
                if cand and key not in seen:
                    seen.add(key)
                    cands.append(cand)
            if chunk == 1:
                break
            chunk //= 2
        cands = cands[:400]
        lines = [f" {sep} ".join([hdr] + c) for c in cands]
        res = pipe.eval_cases(lines, "shrink")
        hit = None
        for c, r in zip(cands, res):
            if classify(r) == want and "INVALID" not in r["impl_line"]:
                hit = c
                break
        if hit is None:
            break
        ops = hit
    return f" {sep} ".join([hdr] + ops)


def shrink_history(pipe, prefix, failing, want="violation"):
    """The failing case does not fail when run alone in a fresh process: the implementation carries state from one
    call to the next.  Find a short list of earlier cases after which it still fails (all run in one process, in order).
    Returns the list of case lines (ending with `failing`) or None when even the whole prefix does not reproduce it."""
    def fails(hist):
        res = pipe.eval_cases(hist + [failing], "hist")
        return classify(res[-1]) == want
    hist = list(prefix)
    if not fails(hist):
        return None
    budget = 60
    chunk = max(1, len(hist) // 2)
    while budget > 0 and hist and chunk >= 1:
        progressed = False
        i = 0
        while i < len(hist) and budget > 0:
            cand = hist[:i] + hist[i + chunk:]
            budget -= 1
            if fails(cand):
                hist = cand
                progressed = True
            else:
                i += chunk
        if chunk == 1 and not progressed:
            break
        chunk = max(1, chunk // 2) if chunk > 1 else (1 if progressed else 0)
    return hist + [failing]


# ----------------------------------------------------------------------------------------------
# Known findings, evidence, verdicts
# ----------------------------------------------------------------------------------------------

def load_known(pid):
    p = os.path.join(VERIF, "known_findings.json")
    if not os.path.exists(p):
        return []
    data = json.load(open(p))
    return [e for e in data.get("findings", []) if e.get("property") == pid and e.get("status") == "known"]


def match_known(known, case_line, kind="case", cfg=None):
    for e in known:
        m = e.get("match", {})
        if m.get("kind", "case") == "predicate" and kind == "case":
            # a class of inputs with one root cause, decided by the property's own config (checks/Cxx.py: known_match)
            if cfg is not None and hasattr(cfg, "known_match") and cfg.known_match(m.get("name"), case_line):
                return e
            continue
        if m.get("kind", "case") != kind:
            continue
        rx = m.get("case_regex")
        if rx and re.search(rx, case_line):
            return e
        if m.get("case") and m["case"].strip() == case_line.strip():
            return e
    return None


def write_json(path, obj):
    os.makedirs(os.path.dirname(path), exist_ok=True)
    tmp = path + ".tmp"
    with open(tmp, "w") as f:
        json.dump(obj, f, indent=1, sort_keys=True)
        f.write("\n")
    os.replace(tmp, path)


class Verdict:
    def __init__(self, pid):
        self.pid = pid
        self.violations = []       # (replay_path, suffix)
        self.known_lines = []
        self.notes = []

    def violation(self, replay_obj, name_hint, no_input=False):
        h = hashlib.sha1(json.dumps(replay_obj, sort_keys=True).encode()).hexdigest()[:10]
        rel = f"replays/{self.pid}-{name_hint}-{h}.json"
        write_json(os.path.join(VERIF, rel), replay_obj)
        self.violations.append((rel, " no-failing-input-found" if no_input else ""))

    def emit(self):
        for n in self.notes:
            print(n)
        for k in self.known_lines:
            print(f"KNOWN-FINDING: property={self.pid} {k}")
        for rel, suffix in self.violations:
            print(f"VIOLATION property={self.pid} replay={rel}{suffix}")
        return 1 if self.violations else 0
