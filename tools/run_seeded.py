#!/usr/bin/env python3
"""
Run the registered checks against every seeded change under /verif/seeded/<name>/ (patch.diff + meta.json).

Each patch is applied to a scratch git worktree of /repo (never to /repo itself), the property's check is run
with `--repo <worktree>`, and the worktree is removed again.  Results go to seeded/RESULTS.json (and a table on stdout).

usage: tools/run_seeded.py [name ...] [--tier quick|thorough] [--also-unchanged]
"""
import json
import os
import subprocess
import sys
import time

VERIF = os.path.dirname(os.path.dirname(os.path.abspath(__file__)))


def sh(cmd, cwd=None, timeout=3600):
    return subprocess.run(cmd, cwd=cwd, shell=isinstance(cmd, str), stdout=subprocess.PIPE, stderr=subprocess.STDOUT, text=True, timeout=timeout)


def main():
    args = [a for a in sys.argv[1:] if not a.startswith("--")]
    tier = "quick"
    if "--tier" in sys.argv:
        tier = sys.argv[sys.argv.index("--tier") + 1]
        args = [a for a in args if a != tier]
    sd = os.path.join(VERIF, "seeded")
    names = args or sorted(n for n in os.listdir(sd) if os.path.isdir(os.path.join(sd, n)))
    res_path = os.environ.get("SEEDED_RESULTS") or os.path.join(sd, "RESULTS.json")   # parallel workers write their own file (tools/run_seeded_all.py merges)
    results = json.load(open(res_path)) if os.path.exists(res_path) else {}
    for name in names:
        d = os.path.join(sd, name)
        meta = json.load(open(os.path.join(d, "meta.json")))
        pid = meta["property"]
        if not os.path.exists(os.path.join(VERIF, "checks", f"{pid}.py")):
            print(f"{name}: no check for {pid} yet, skipped")
            continue
        wt = f"/tmp/seedrun_{name}"
        sh(f"git -C /repo worktree remove --force {wt}")
        r = sh(f"git -C /repo worktree add --detach {wt} HEAD")
        if r.returncode != 0:
            print(r.stdout)
            continue
        try:
            r = sh(["git", "apply", os.path.join(d, "patch.diff")], cwd=wt)
            if r.returncode != 0:
                results[name] = {"property": pid, "status": "patch-does-not-apply", "detail": r.stdout[-500:]}
                print(f"{name}: patch does not apply: {r.stdout[-300:]}")
                continue
            t0 = time.time()
            r = sh([os.path.join(VERIF, "check"), pid, "--tier", tier, "--repo", wt], cwd=VERIF, timeout=7200)
            lines = [l for l in r.stdout.split("\n") if l.startswith("VIOLATION") or l.startswith("KNOWN-FINDING") or l.startswith("MACHINERY")]
            status = "caught" if r.returncode == 1 and any(l.startswith("VIOLATION") for l in lines) else ("missed" if r.returncode == 0 else f"error rc={r.returncode}")
            replay = None
            for l in lines:
                if l.startswith("VIOLATION") and "replay=" in l:
                    rp = l.split("replay=")[1].split()[0]
                    try:
                        replay = json.load(open(os.path.join(VERIF, rp)))
                    except Exception:
                        replay = rp
            results[name] = {"property": pid, "tier": tier, "status": status, "rc": r.returncode, "lines": lines,
                             "with_input": bool(lines) and not any("no-failing-input-found" in l for l in lines),
                             "replay": replay, "wall_s": round(time.time() - t0, 1)}
            meta.setdefault("runs", {})[tier] = status
            meta["runs"]["with_input"] = results[name]["with_input"] if status == "caught" else meta["runs"].get("with_input", False)
            meta["runs"][f"{tier}_line"] = (lines[-1] if lines else "")[:300]
            with open(os.path.join(d, "meta.json"), "w") as mf:
                json.dump(meta, mf, indent=1)
                mf.write("\n")
            print(f"{name}: {pid} {status} {lines[:1]} ({results[name]['wall_s']}s)")
            if status.startswith("error"):
                print(r.stdout[-1500:])
        finally:
            sh(f"git -C /repo worktree remove --force {wt}")
            sh(f"rm -rf {wt}")
    with open(res_path, "w") as f:
        json.dump(results, f, indent=1, sort_keys=True)
        f.write("\n")
    # restore evidence for the unchanged tree (checks rewrite evidence on every run)
    if "--also-unchanged" in sys.argv:
        for pid in sorted({v["property"] for v in results.values()}):
            sh([os.path.join(VERIF, "check"), pid, "--tier", "quick"], cwd=VERIF)


if __name__ == "__main__":
    main()
