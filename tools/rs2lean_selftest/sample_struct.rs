// sample for tools/rs2lean_generic_struct_selftest.py: constructs of the subset that rlib/rational does not use
use std::ops::{Add, AddAssign, Neg};

use rlib_gcd::{gcd, lcm};
use rlib_num_traits::*;

pub trait Signed: Integer + Neg<Output = Self> {}

#[derive(Clone, PartialEq)]
pub struct Pt<T> {
    pub x: T,
    pub y: T,
}

impl<T: Signed> Pt<T> {
    pub fn mk(x: T, y: T) -> Self {
        Self { y, x }
    }

    // `&mut self` returning a value: (new self, result)
    pub fn bump(&mut self, by: &T) -> T {
        self.x += by;
        std::mem::swap(&mut self.x, &mut self.y);
        self.x.clone() - &self.y
    }

    // a loop over a struct-valued and an integer variable; `if` in expression position; early `return;`
    pub fn walk(&mut self, n: T) {
        if n < T::ZERO {
            return;
        }
        let mut i = T::ZERO;
        while i < n {
            let step = if self.x < self.y { T::ONE } else { -T::ONE };
            self.x += &step;
            i += &T::ONE;
        }
    }

    pub fn use_walk(self, n: T) -> Self {
        let mut p = self;
        p.walk(n);
        let d = p.bump(&T::ONE);
        p.y = d;
        p
    }

    pub fn g(&self) -> T {
        gcd(self.x.clone(), lcm(self.x.clone(), self.y.clone()))
    }

    pub fn same(&self, o: &Self) -> T {
        if *self == *o { T::ONE } else { T::ZERO }
    }

    pub fn sign(&self) -> std::cmp::Ordering {
        let q: Pt<T> = self.clone() + self;
        q.x.cmp(&q.y)
    }
}

impl<T: Signed> Add<&Self> for Pt<T> {
    type Output = Self;
    fn add(self, o: &Self) -> Self {
        Self { x: self.x + &o.x, y: self.y + &o.y }
    }
}
impl<T: Signed> Add for Pt<T> {
    type Output = Self;
    fn add(self, o: Self) -> Self {
        self + &o
    }
}
impl<T: Signed> AddAssign for Pt<T> {
    fn add_assign(&mut self, o: Self) {
        *self = self.clone() + o;
    }
}

impl<T: Signed> Pt<T> {
    pub fn twice(self) -> Self {
        let mut r = self.clone();
        r += self;
        r
    }
}
