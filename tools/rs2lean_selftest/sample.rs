use rlib_num_traits::*;

pub fn pow_mod<T: Integer>(b: T, e: T, m: T) -> T {
    let mut r = T::ONE % &m;
    let mut i = T::ZERO;
    while i < e {
        r = r * &b % &m;
        i += &T::ONE;
    }
    r
}

pub fn collatz_steps<T: Integer>(n: T) -> T {
    let mut n = n;
    let mut s = T::ZERO;
    let two = T::ONE + &T::ONE;
    while n != T::ONE && n > T::ZERO {
        if n.clone() % &two == T::ZERO {
            n = n / &two;
        } else {
            n = n * &(two.clone() + &T::ONE) + &T::ONE;
        }
        s += &T::ONE;
    }
    s
}

pub fn tri<T: Integer>(n: T) -> T {
    let mut i = T::ZERO;
    let mut acc = T::ZERO;
    while i < n {
        let mut j = T::ZERO;
        while j <= i {
            acc += &T::ONE;
            j += &T::ONE;
        }
        i += &T::ONE;
    }
    acc
}

pub fn minmax<T: Integer>(a: T, b: T) -> (T, T) {
    if a <= b {
        (a, b)
    } else {
        (b, a)
    }
}

pub fn clamp_sub<T: Integer>(a: T, b: T) -> Option<T> {
    let mut d = a - &b;
    if d < T::ZERO {
        return None;
    }
    if d > b {
        let d2 = b.clone();
        d = d2;
    }
    Some(d)
}

fn helper<T: Integer>(a: T) -> Option<(T, (T, T))> {
    let (lo, hi) = minmax(a.clone(), -a);
    let c = clamp_sub(hi.clone(), lo.clone())?;
    Some((c, (lo, hi)))
}
