// Sample for tools/rs2lean_reader_selftest.py: a second, differently shaped buffered reader that uses every rule of
// tools/rs2lean_reader.py (struct with a byte buffer and an oracle, constants, retry loop with `Ok(n)` / `Err(_)` arms,
// `while` with an expression and with a block condition, `||`, `break`, value-`if`, `u8` arithmetic, Strings, Option, a `:ty` macro).
use std::io::Read;

pub struct Lexer<'a> {
    input: Box<dyn Read + 'a>,
    window: [u8; Lexer::CAP],
    pos: usize,
    lim: usize,
    done: bool,
}

impl<'a> Lexer<'a> {
    const CAP: usize = 2 * 3 + (1 << 1);

    pub fn start(input: Box<dyn Read + 'a>) -> Self {
        Self { window: [7u8; Lexer::CAP], pos: 0, lim: 0, done: false, input }
    }

    /// read once more (retrying on Interrupted), at the end of the window; any other error counts as end of input
    fn fill(&mut self) -> usize {
        let got = loop {
            match self.input.read(&mut self.window[self.lim..]) {
                Ok(n) => break n,
                Err(e) if e.kind() == std::io::ErrorKind::Interrupted => continue,
                Err(_) => {
                    self.done = true;
                    break 0
                }
            }
        };
        if got == 0 {
            self.done = true;
        }
        self.lim += got;
        got
    }

    /// number of leading digits or dashes in the window (no refill), stops at the first other byte
    pub fn count(&mut self) -> usize {
        let mut k: usize = 0;
        let mut i = self.pos;
        while i < self.lim {
            let c = self.window[i];
            if c.is_ascii_digit() || c == b'-' {
                k += 1;
            } else {
                break;
            }
            i += 1;
        }
        k
    }

    /// the byte at `pos` shifted by one (checked `u8` addition), or `None` when the window is empty after a fill
    pub fn bump(&mut self) -> Option<u8> {
        if self.pos == self.lim {
            self.fill();
        }
        if self.pos >= self.lim {
            None
        } else {
            let c = self.window[self.pos];
            self.pos += 1;
            Some(c + 1)
        }
    }

    /// bytes up to (not including) a `;`, as a String; fills as needed
    pub fn word(&mut self) -> String {
        let mut w = String::new();
        while {
            if self.pos == self.lim {
                self.fill();
            }
            !self.done && self.pos < self.lim
        } {
            let ch = self.window[self.pos] as char;
            self.pos += 1;
            if ch == ';' {
                break;
            }
            w.push(ch);
        }
        w
    }

    pub fn slide(&mut self) {
        self.window.copy_within(self.pos..self.lim, 0);
        self.lim -= self.pos;
        self.pos = 0;
    }
}

pub trait Summable {
    fn sum(lx: &mut Lexer) -> Self;
}

macro_rules! sum_digits {
    ($w:ty) => {
        impl Summable for $w {
            fn sum(lx: &mut Lexer) -> Self {
                let mut acc: $w = 1;
                while lx.pos < lx.lim {
                    acc = acc * 2 + (lx.window[lx.pos] - b'0') as $w;
                    lx.pos += 1;
                }
                acc
            }
        }
    };
}

sum_digits!(i8);
sum_digits!(u16);
