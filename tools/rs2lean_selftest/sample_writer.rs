// Sample for tools/rs2lean_writer_selftest.py: a second, differently shaped buffered writer that uses every rule tools/rs2lean_writer.py
// ADDS to tools/rs2lean_reader.py (other field order, a trait with a dictionary, generic methods with one and two bounds, a function with a
// result, `#[cfg(debug_assertions)]` in the middle of a body, slices with both / one bound, array literals, `chunks`, `enumerate`,
// `%` `/` on `$t`, `unsigned_abs`, BASE_10_LEN, two `:ty` macros, a macro with a `+` repetition).
use std::io::Write;

pub struct Out<'a> {
    dst: Box<dyn Write + 'a>,
    len: usize,
    data: [u8; Out::CAP],
}

pub trait Put {
    fn put(&self, o: &mut Out);
}

impl<'a> Out<'a> {
    const CAP: usize = 2 + 2 * 3;

    pub fn start(dst: Box<dyn Write + 'a>) -> Self {
        Self { data: [7; Out::CAP], len: 0, dst }
    }

    pub fn sync(&mut self) {
        if self.len != 0 {
            self.dst.write_all(&self.data[..self.len]).unwrap();
            self.len = 0;
        }
    }

    /// makes room for `n` bytes (by a sync) and says how much room there is now
    fn room(&mut self, n: usize) -> usize {
        if self.data.len() < self.len + n {
            self.sync();
        }
        self.data.len() - self.len
    }

    pub fn bytes(&mut self, b: &[u8]) {
        let r = self.room(b.len());
        if r == Out::CAP {
            self.data[0] = b'^';
        }
        #[cfg(debug_assertions)]
        self.sync();
        self.data[self.len..self.len + b.len()].copy_from_slice(b);
        self.len += b.len();
    }

    pub fn ch(&mut self, c: char) {
        self.bytes(&[c as u8, b'!']);
    }

    pub fn item<T: Put>(&mut self, t: &T) {
        t.put(self);
    }

    pub fn two<A: Put, B: Put>(&mut self, a: &A, b: &B) {
        a.put(self);
        self.ch(',');
        b.put(self);
    }

    pub fn tail(&mut self, from: usize) {
        let copy = [1, 2, 3, 4];
        self.bytes(&copy[from..]);
        self.bytes(&copy[1..from]);
    }
}

impl Put for &str {
    fn put(&self, o: &mut Out) {
        for c in self.as_bytes().chunks(3) {
            o.bytes(c);
            o.ch('|');
        }
    }
}

impl<T: Put> Put for Vec<T> {
    fn put(&self, o: &mut Out) {
        for (i, x) in self.iter().enumerate() {
            if i != 0 {
                o.ch(';');
            }
            o.item(x);
        }
    }
}

macro_rules! put_nat {
    ($t:ty) => {
        impl Put for $t {
            fn put(&self, o: &mut Out) {
                let mut d = [b'0'; <$t as FixedSizeInteger>::BASE_10_LEN];
                let mut v = *self;
                let mut i: usize = 0;
                while i < 2 {
                    d[i] = (v % 10) as u8 + b'0';
                    v /= 10;
                    i += 1;
                }
                o.bytes(&d[..i]);
            }
        }
    };
}

macro_rules! put_int {
    ($t:ty) => {
        impl Put for $t {
            fn put(&self, o: &mut Out) {
                if self < &0 {
                    o.ch('-');
                }
                o.item(&self.unsigned_abs());
                let q = *self / 7;
                o.item(&q.unsigned_abs());
            }
        }
    };
}

put_nat!(u8);
put_nat!(u16);
put_int!(i16);

macro_rules! put_tuple {
    ($a:ident, $($b:ident),+) => {
        impl<$a: Put, $($b: Put),+> Put for ($a, $($b),+) {
            fn put(&self, o: &mut Out) {
                #[allow(non_snake_case)]
                let ($a, $($b),+) = self;
                o.item($a);
                $(
                    o.ch('+');
                    o.item($b);
                )+
            }
        }
    };
}

put_tuple!(P, Q);
put_tuple!(P, Q, R);
