// Sample for tools/rs2lean_float_selftest.py: a differently shaped little geometry file (ONE file instead of four) that exercises
// every rule of the float translator.  Not part of rlib.
use std::mem::swap;
use std::ops::{Add, Mul, Neg, Sub};

pub const EPS: f64 = 1e-9;

#[derive(Copy, Clone, PartialEq)]
pub struct Point {
    pub x: f64,
    pub y: f64,
}

#[derive(Copy, Clone)]
pub struct Circle {
    pub c: Point,
    pub r: f64,
}

pub enum CircleLineIntersection {
    None,
    Touch(Point),
    Intersect(Point, Point),
}

impl std::fmt::Debug for Point {
    fn fmt(&self, f: &mut std::fmt::Formatter<'_>) -> std::fmt::Result {
        write!(f, "({:?}, {:?})", self.x, self.y)
    }
}

impl Point {
    pub fn new(x: f64, y: f64) -> Self {
        Self { y, x }
    }

    /* squared length /* through powi */ */
    pub fn norm2(&self) -> f64 {
        self.x.powi(2) + self.y * self.y
    }

    pub fn scale_both(self, k: f64) -> (Point, Point) {
        (self * k, self * -2.0)
    }
}

macro_rules! impl_op {
    ($trait:ident, $func:ident) => {
        impl $trait for Point {
            type Output = Point;
            fn $func(self, rhs: Self) -> Self::Output {
                Point::new(self.x.$func(rhs.x), self.y.$func(rhs.y))
            }
        }
        impl $trait<&Point> for &Point {
            type Output = Point;
            fn $func(self, rhs: &Point) -> Point {
                Point { x: self.x.$func(rhs.x), y: self.y.$func(rhs.y) }
            }
        }
    };
}

impl_op!(Add, add);
impl_op!(Sub, sub);

impl Mul<f64> for Point {
    type Output = Point;
    fn mul(self, rhs: f64) -> Point {
        Point::new(self.x * rhs, self.y * rhs)
    }
}

impl Neg for Point {
    type Output = Point;
    fn neg(self) -> Point {
        Point::new(-self.x, -self.y)
    }
}

fn pick(flag: bool, a: f64, b: f64) -> f64 {
    if flag && a != b {
        a
    } else {
        b
    }
}

pub fn assoc(a: f64, b: f64, c: f64) -> f64 {
    a + b - c * a / b
}

pub fn order(mut a: f64, mut b: f64) -> f64 {
    if a < b {
        swap(&mut a, &mut b);
    }
    a - b
}

pub fn phi2(a: f64, b: f64) -> f64 {
    let mut lo = a;
    let mut hi = b;
    if hi < lo {
        let t = lo;
        lo = hi;
        hi = t;
    } else if hi == lo {
        hi += 1.0;
    }
    hi * 2.0 - lo
}

pub fn clamp01(x: f64) -> f64 {
    if x < 0.0 {
        return 0.0;
    }
    if x > 1.0 || !(x == x) {
        return 1.0;
    }
    x.max(0.0)
}

pub fn split(p: &Point, q: &Point) -> Option<Point> {
    let (s, d) = (p + q, p - q);
    let n = d.norm2().sqrt();
    if n < EPS {
        return None;
    }
    let w: f64 = pick(true, n, 0.0);
    let (u, _v) = (-s).scale_both(w);
    Some(u)
}

pub fn classify(c: &Circle, p: Point) -> CircleLineIntersection {
    let off = p - c.c;
    let d = off.norm2().sqrt().abs();
    if d > c.r + EPS {
        CircleLineIntersection::None
    } else if d > c.r - EPS {
        CircleLineIntersection::Touch(p)
    } else {
        let m = if d != 0.0 { off * 2.0 } else { off };
        CircleLineIntersection::Intersect(c.c + m, c.c - m)
    }
}
