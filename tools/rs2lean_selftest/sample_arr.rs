// Self-test sample for tools/rs2lean_typed.py: a struct with a type parameter and a const generic, arrays `[usize; D]`,
// slices, `contains`, `iter().product()`, `assert_eq!`, a `.rev()` loop, `Self::Output`, vector equality.
use std::ops::Index;

pub struct Grid<T, const D: usize> {
    ext: [usize; D],
    cells: Vec<T>,
}

impl<T: Clone, const D: usize> Grid<T, D> {
    pub fn filled(ext: [usize; D], x: T) -> Self {
        assert!(!ext.contains(&0), "zero extent");
        Self {
            ext,
            cells: vec![x; ext.iter().product()],
        }
    }

    pub fn of(ext: [usize; D], cells: &[T]) -> Self {
        assert_eq!(ext.iter().product::<usize>(), cells.len(), "shape {:?} needs {} cells", ext, cells.len());
        Self { ext, cells: cells.to_vec() }
    }

    pub fn volume(&self) -> usize {
        self.ext.iter().product::<usize>()
    }

    // sum of i * ext[i] over i = D-1 .. 0, leaving early is not possible: every step is checked
    pub fn weight(&self) -> usize {
        let mut acc = 0;
        for i in (0..D).rev() {
            acc += i * self.ext[i];
        }
        acc
    }

    pub fn zeros(&self) -> [usize; D] {
        [0; D]
    }
}

impl<T, const D: usize> Index<usize> for Grid<T, D> {
    type Output = T;

    fn index(&self, k: usize) -> &Self::Output {
        &self.cells[k]
    }
}

impl<T: PartialEq, const D: usize> PartialEq for Grid<T, D> {
    fn eq(&self, other: &Self) -> bool {
        self.ext == other.ext && self.cells == other.cells
    }
}
