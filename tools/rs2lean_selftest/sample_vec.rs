// Self-test input of tools/rs2lean_typed.py for the Vec / bool / recursion rules (T4, T5, B1-B3, V1-V8, R4 on `&mut self`, F1)
// and for `break` (S11) and short-circuit conditions whose right operand can panic (S12).
#[derive(Clone, Debug)]
pub struct Bag {
    xs: Vec<u32>,
    flags: Vec<bool>,
}

impl Bag {
    pub fn new(n: usize) -> Self {
        Self {
            flags: vec![false; n],
            xs: vec![7; n],
        }
    }

    pub fn sum(&self) -> u32 {
        let mut s = 0;
        for i in 0..self.xs.len() {
            s += self.xs[i];
        }
        s
    }

    pub fn mark(&mut self, i: usize) -> bool {
        let old = self.flags[i];
        self.flags[i] = true;
        self.xs[i] += 1;
        old
    }

    pub fn twice(&mut self, i: usize) -> bool {
        self.mark(i) == self.mark(i)
    }

    pub fn depth(&mut self, i: usize) -> usize {
        if i == 0 {
            return 0;
        }
        self.xs.push(1);
        self.depth(i - 1) + 1
    }

    pub fn grow(&mut self, n: usize) {
        self.xs.resize(n, 9);
        self.flags.resize(n, true);
    }

    pub fn count(&self) -> usize {
        let mut k = 0;
        for i in 0..self.flags.len() {
            if self.flags[i] {
                k += 1;
            }
        }
        k
    }

    pub fn iota(n: usize) -> Self {
        let f: Vec<bool> = Vec::new();
        Self { xs: (2..n as u32).collect(), flags: f }
    }

    pub fn find(&self, x: u32, lim: usize) -> usize {
        let mut k = 0;
        for i in 0..lim {
            if i >= self.xs.len() || self.xs[i] == x {
                break;
            }
            k += 1;
        }
        k
    }

    pub fn run_len(&self, x: u32, lim: usize) -> usize {
        let mut k = 0;
        for i in 0..lim {
            if i < self.xs.len() && self.xs[i] != x {
                k += 1;
            } else {
                break;
            }
        }
        k
    }
}
