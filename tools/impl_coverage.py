#!/usr/bin/env python3
"""
How much of the anchored Rust code do the correspondence inputs actually execute?

  tools/impl_coverage.py [--tier quick|thorough] [Cxx …]

For every claimed property with a harness crate: copy the harness to a scratch directory, build it with
`cargo +nightly build -C instrument-coverage` (nightly because only that toolchain ships a matching llvm-cov /
llvm-profdata here; the scratch copy and its target directory are removed afterwards), run the SAME cases the check runs
(corpus + generator of the chosen tier, same seed), and report line coverage of every file under <repo>/rlib/ that the
property is anchored in (properties.jsonl `anchors.files`) plus every other rlib file the run touched.

This is not a proof and decides nothing: it measures the differential tie.  The theorems are about the hand-written model;
the model is tied to the code only on the generated cases; a line of the implementation that no case executes is a line whose
agreement with the model was never observed.  Output: docs/impl_coverage.json and docs/IMPL_COVERAGE.md (uncovered lines are
listed with their text so that each can be explained or turned into a generator extension).
"""
import glob
import json
import os
import re
import shutil
import subprocess
import sys

sys.path.insert(0, os.path.dirname(os.path.abspath(__file__)))
import veriflib as V  # noqa: E402

NIGHTLY_BIN = None


def tool(name):
    global NIGHTLY_BIN
    if NIGHTLY_BIN is None:
        r = subprocess.run("rustc +nightly --print sysroot", shell=True, stdout=subprocess.PIPE, text=True)
        NIGHTLY_BIN = glob.glob(os.path.join(r.stdout.strip(), "lib/rustlib/*/bin"))[0]
    return os.path.join(NIGHTLY_BIN, name)


def sh(cmd, **kw):
    e = dict(os.environ, CARGO_NET_OFFLINE="true")
    e.update(kw.pop("env", {}))
    return subprocess.run(cmd, shell=isinstance(cmd, str), stdout=subprocess.PIPE, stderr=subprocess.PIPE, text=True, env=e, **kw)


def anchors():
    res = {}
    for line in open(os.path.join(V.VERIF, "properties.jsonl")):
        d = json.loads(line)
        res[d["id"]] = d.get("anchors", {}).get("files", [])
    return res


def measure(pid, tier, seed, repo="/repo"):
    cfg = V.load_config(pid)
    crate = getattr(cfg, "CRATE", None)
    if not crate:
        return {"property": pid, "skipped": "no harness crate (generated programs)"}
    root = f"/tmp/verif-cov-{pid}"
    shutil.rmtree(root, ignore_errors=True)
    os.makedirs(root + "/harness")
    shutil.copytree(os.path.join(V.HARNESS, "common"), root + "/harness/common")
    shutil.copytree(os.path.join(V.HARNESS, crate), root + f"/harness/{crate}", ignore=shutil.ignore_patterns("target"))
    cdir = root + f"/harness/{crate}"
    out = {"property": pid, "crate": crate, "tier": tier, "files": {}}
    try:
        params = {}
        if hasattr(cfg, "extract"):
            params, _ = cfg.extract(repo)
        profraws = []
        bins = []
        for profile in getattr(cfg, "PROFILES", ["release"]):
            flag = "--release" if profile == "release" else ""
            r = sh(f"cargo +nightly build --offline {flag}", cwd=cdir, env={"RUSTFLAGS": "-C instrument-coverage", "CARGO_TARGET_DIR": root + "/target"})
            if r.returncode != 0:
                out["error"] = "instrumented build failed: " + r.stderr[-600:]
                return out
            binp = f"{root}/target/{'release' if profile == 'release' else 'debug'}/{crate}"
            bins.append(binp)
            extra = cfg.harness_args(params, profile) if hasattr(cfg, "harness_args") else []
            cases = f"{root}/cases.{profile}"
            with open(cases, "w") as f:
                corpus = os.path.join(V.VERIF, "corpus", f"{pid}.txt")
                if os.path.exists(corpus):
                    for line in open(corpus):
                        if line.strip() and not line.startswith("#"):
                            f.write(line.rstrip("\n") + "\n")
                f.flush()
                g = subprocess.run([binp, "gen", "--seed", str(seed), "--tier", tier] + extra, stdout=f, stderr=subprocess.PIPE, text=True,
                                   env=dict(os.environ, LLVM_PROFILE_FILE=f"{root}/gen-%p.profraw"))
                if g.returncode != 0:
                    out["error"] = "generator failed: " + g.stderr[-400:]
                    return out
            out.setdefault("cases", {})[profile] = sum(1 for _ in open(cases))
            with open(cases) as fin, open(f"{root}/impl.{profile}", "w") as fo:
                subprocess.run([binp, "run"] + extra, stdin=fin, stdout=fo, stderr=subprocess.PIPE, text=True, timeout=7200,
                               env=dict(os.environ, LLVM_PROFILE_FILE=f"{root}/run-{profile}-%p.profraw"))
        profraws = glob.glob(f"{root}/run-*.profraw")
        if not profraws:
            out["error"] = "no profile written"
            return out
        r = sh([tool("llvm-profdata"), "merge", "-sparse"] + profraws + ["-o", f"{root}/m.profdata"])
        if r.returncode != 0:
            out["error"] = "llvm-profdata: " + r.stderr[-400:]
            return out
        objs = []
        for b in bins[1:]:
            objs += ["-object", b]
        r = sh([tool("llvm-cov"), "export", "-format=lcov", f"-instr-profile={root}/m.profdata", bins[0]] + objs)
        if r.returncode != 0:
            out["error"] = "llvm-cov: " + r.stderr[-400:]
            return out
        cur = None
        per = {}
        for line in r.stdout.split("\n"):
            if line.startswith("SF:"):
                cur = line[3:]
                per.setdefault(cur, {})
            elif line.startswith("DA:") and cur:
                ln, cnt = line[3:].split(",")[:2]
                per[cur][int(ln)] = max(per[cur].get(int(ln), 0), int(cnt))
        prefix = os.path.abspath(repo) + "/"
        for fn, lines in per.items():
            if not fn.startswith(prefix + "rlib/"):
                continue
            rel = fn[len(prefix):]
            src = open(fn).read().split("\n")
            # a `#[cfg(test)] mod tests` is not compiled into the harness: nothing of it appears in the profile
            missed = sorted(l for l, c in lines.items() if c == 0)
            out["files"][rel] = {"lines_instrumented": len(lines), "lines_executed": len(lines) - len(missed),
                                 "missed": [{"line": l, "text": src[l - 1].strip()[:160] if l - 1 < len(src) else ""} for l in missed]}
        return out
    finally:
        shutil.rmtree(root, ignore_errors=True)


def main():
    args = [a for a in sys.argv[1:]]
    tier = "quick"
    if "--tier" in args:
        k = args.index("--tier")
        tier = args[k + 1]
        del args[k:k + 2]
    ready = open(os.path.join(V.VERIF, "checks", "READY")).read().split()
    pids = args or ready
    anc = anchors()
    jpath = os.path.join(V.VERIF, "docs", "impl_coverage.json")
    allres = json.load(open(jpath)) if os.path.exists(jpath) else {}
    for pid in pids:
        res = measure(pid, tier, 1)
        res["anchored_files"] = anc.get(pid, [])
        allres[pid] = res
        tot = sum(f["lines_instrumented"] for f in res.get("files", {}).values())
        ex = sum(f["lines_executed"] for f in res.get("files", {}).values())
        print(f"{pid}: {res.get('error') or res.get('skipped') or f'{ex}/{tot} instrumented lines executed'}", flush=True)
    V.write_json(jpath, allres)
    with open(os.path.join(V.VERIF, "docs", "IMPL_COVERAGE.md"), "w") as f:
        f.write("# Implementation coverage of the correspondence runs (generated by tools/impl_coverage.py — do not edit)\n\n"
                "Line coverage (LLVM source-based, `-C instrument-coverage`) of the rlib source files while the harness replays the corpus and\n"
                "the generated cases of the named tier. Anchored files are the `anchors.files` of the property; other files are listed when\n"
                "the run touched them. Test modules are not compiled into the harness. A missed line is a line of the implementation whose\n"
                "agreement with the model was never observed by this tier: each one is either explained below the table in the notes of the\n"
                "property or is a to-do for the generator.\n\n")
        f.write("| id | tier | file | executed / instrumented lines | missed lines |\n|---|---|---|---|---|\n")
        for pid in sorted(allres):
            res = allres[pid]
            if res.get("skipped") or res.get("error"):
                f.write(f"| {pid} | {res.get('tier', '')} | – | {res.get('skipped') or res.get('error')} | |\n")
                continue
            for rel in sorted(res["files"]):
                fr = res["files"][rel]
                anchored = any(rel.endswith(a) or a.endswith(rel) for a in res.get("anchored_files", []))
                ms = ", ".join(str(m["line"]) for m in fr["missed"][:40]) + (" …" if len(fr["missed"]) > 40 else "")
                f.write(f"| {pid} | {res['tier']} | {'**' + rel + '**' if anchored else rel} | {fr['lines_executed']} / {fr['lines_instrumented']} | {ms} |\n")
        f.write("\n## Missed lines of anchored files, with their text\n\n")
        for pid in sorted(allres):
            res = allres[pid]
            for rel in sorted(res.get("files", {})):
                fr = res["files"][rel]
                anchored = any(rel.endswith(a) or a.endswith(rel) for a in res.get("anchored_files", []))
                if anchored and fr["missed"]:
                    f.write(f"* **{pid}** `{rel}`\n")
                    for m in fr["missed"]:
                        f.write(f"  - {m['line']}: `{m['text']}`\n")
    return 0


if __name__ == "__main__":
    sys.exit(main())
