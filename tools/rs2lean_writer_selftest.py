#!/usr/bin/env python3
"""
Self-test of tools/rs2lean_writer.py (not part of any check; run by hand after editing the translator — or tools/rs2lean_reader.py, whose
classes it subclasses):

  1. translates tools/rs2lean_selftest/sample_writer.rs (a differently shaped buffered writer: other field order, a `&mut self` function
     with a result, a trait + dictionaries, generic methods with one and two bounds, `#[cfg(debug_assertions)]` in the middle of a body,
     slices with one / two bounds, array literals, stores, `chunks`, `enumerate`, `%` `/` on `$t`, `unsigned_abs`, BASE_10_LEN, two `:ty`
     macros, a token macro with a `+` repetition), elaborates the result with `lake env lean` and compares `#eval`s of the generated
     definitions with values computed by hand;
  2. renaming locals, fields, parameters, type parameters and macro parameters of rlib/io/src/writer.rs, adding comments and changing
     layout give byte-identical Lean text;
  3. every construct outside the subset is rejected with file:line (never skipped).
"""
import os
import re
import subprocess
import sys
import tempfile

HERE = os.path.dirname(os.path.abspath(__file__))
sys.path.insert(0, HERE)
import rs2lean  # noqa: E402
import rs2lean_writer as rw  # noqa: E402

SAMPLE_FNS = ["start", "sync", "room", "bytes", "ch", "item", "two", "tail", "str::put", "Vec::put", "put_nat!", "put_int!", "put_tuple!"]
K0 = "⟨ByteArray.empty, 0⟩"
D7 = "#[7, 7, 7, 7, 7, 7, 7, 7]"
D18 = "#[1, 2, 3, 4, 5, 6, 7, 8]"
U8T, U16T, I16T = "⟨false, 8⟩", "⟨false, 16⟩", "⟨true, 16⟩"
EVALS = [
    ("CAP", "8"),
    (f"sh (start 0 false {K0})", f"some (#[], 0, 0, {D7})"),
    # 3 bytes at fill level 6 of 8: sync first (6 bytes delivered, 1 call), the whole buffer is free => `^` stored, then overwritten by the copy
    (f"sh (bytes 0 false {K0} 6 {D18} #[9, 9, 9])", "some (#[1, 2, 3, 4, 5, 6], 1, 3, #[9, 9, 9, 4, 5, 6, 7, 8])"),
    (f"sh (bytes 0 true {K0} 6 {D18} #[9, 9, 9])", "some (#[1, 2, 3, 4, 5, 6], 1, 3, #[9, 9, 9, 4, 5, 6, 7, 8])"),
    # the `#[cfg(debug_assertions)] self.sync();` in the middle of `bytes`: only the debug profile delivers the two pending bytes first
    (f"sh (bytes 0 false {K0} 2 {D18} #[9])", "some (#[], 0, 3, #[1, 2, 9, 4, 5, 6, 7, 8])"),
    (f"sh (bytes 0 true {K0} 2 {D18} #[9])", "some (#[1, 2], 1, 1, #[9, 2, 3, 4, 5, 6, 7, 8])"),
    (f"(match bytes 0 false {K0} 0 {D7} #[1, 2, 3, 4, 5, 6, 7, 8, 9] with | .error .index => 1 | _ => 0)", "1"),       # 9 bytes into 8
    (f"sh (ch 0 false {K0} 0 {D7} 0x263A)", "some (#[], 0, 2, #[58, 33, 7, 7, 7, 7, 7, 7])"),                          # `c as u8` truncates
    (f"sh (tail 0 false {K0} 0 {D7} 2)", "some (#[], 0, 3, #[3, 4, 2, 7, 7, 7, 7, 7])"),                               # `&a[2..]`, `&a[1..2]`
    (f"(match tail 0 false {K0} 0 {D7} 5 with | .error .index => 1 | _ => 0)", "1"),                                  # `&a[5..]` of 4
    (f"(match tail 0 false {K0} 0 {D7} 0 with | .error .index => 1 | _ => 0)", "1"),                                  # `&a[1..0]`
    # `abcde` in chunks of 3, a `|!` after each; the last `ch` needs a sync
    (f"sh (str_put 9 false #[97, 98, 99, 100, 101] {K0} 0 {D7})", "some (#[97, 98, 99, 124, 33, 100, 101], 1, 2, #[124, 33, 99, 124, 33, 100, 101, 7])"),
    (f"(match str_put 2 false #[97, 98, 99, 100, 101] {K0} 0 {D7} with | .error .fuel => 1 | _ => 0)", "1"),
    (f"sh (put_nat {U8T} 9 false 207 {K0} 0 {D7})", "some (#[], 0, 2, #[55, 48, 7, 7, 7, 7, 7, 7])"),                  # two low digits, low first
    # `-`, then |−15| through `item` at `$t::Unsigned` (the unsigned macro), then |−15 / 7| = 2
    (f"sh (put_int {I16T} 9 false (-15) {K0} 0 {D7})", "some (#[], 0, 6, #[45, 33, 53, 49, 50, 48, 7, 7])"),
    (f"sh (Vec_put (put_nat {U8T}) 9 false #[1, 23] {K0} 0 {D7})", "some (#[], 0, 6, #[49, 48, 59, 33, 51, 50, 7, 7])"),
    (f"sh (tuple2_put (put_nat {U8T}) str_put 9 false ((5 : Int), (#[120] : Array UInt8)) {K0} 0 {D7})", "some (#[], 0, 7, #[53, 48, 43, 33, 120, 124, 33, 7])"),
    (f"sh (two (put_nat {U8T}) (put_nat {U16T}) 9 false {K0} 0 {D7} 9 300)", "some (#[], 0, 6, #[57, 48, 44, 33, 48, 48, 7, 7])"),
    (f"sh (tuple3_put (put_nat {U8T}) (put_nat {U8T}) (put_nat {U8T}) 9 true ((1 : Int), (2 : Int), (3 : Int)) {K0} 0 {D7})",
     "some (#[49, 48, 43, 33, 50, 48, 43, 33], 4, 2, #[51, 48, 7, 7, 7, 7, 7, 7])"),      # debug profile: every `bytes` delivers what is pending first
    ("put_nat_instances", "[{ signed := false, bits := 8 }, { signed := false, bits := 16 }]"),
    ("put_int_instances", "[{ signed := true, bits := 16 }]"),
    ("put_tuple_arities", "[2, 3]"),
]

HEAD = ("use std::io::Write;\npub struct W<'a> { buf: [u8; W::N], end: usize, out: Box<dyn Write + 'a> }\npub trait P { fn p(&self, w: &mut W); }\n"
        "impl<'a> W<'a> {\n    const N: usize = 4;\n    fn wb(&mut self, b: &[u8]) { self.end += b.len(); }\n")
REJECT = [  # (source, wanted, fragment expected in the error message)
    (HEAD + "    fn f(&mut self) { loop { self.end += 1; } }\n}\n", ["f"], ":7: `loop` is outside"),
    (HEAD + "    fn f(&mut self) { for i in 0..3 { self.end += 1; } }\n}\n", ["f"], ":7: `for` is translated over"),
    (HEAD + "    fn f(&mut self, s: &str) { for c in s.as_bytes().chunks(2) { break; } }\n}\n", ["f"], ":7: `break` outside a loop"),
    (HEAD + "    fn f(&mut self, s: &str) { for c in s.chars() { self.end += 1; } }\n}\n", ["f"], ":7: `for` is translated over"),
    (HEAD + "    fn f(&mut self) { #[inline] self.end += 1; }\n}\n", ["f"], ":7: attribute `#[inline…]`"),
    (HEAD + "    fn f(&mut self) -> usize { #[cfg(debug_assertions)] self.end }\n}\n", ["f"], ":7: `#[cfg(debug_assertions)]` is only translated on a statement"),
    (HEAD + "    fn f(&mut self) { debug_assert!(self.end < 4); }\n}\n", ["f"], ":7: `debug_assert!` is outside"),
    (HEAD + "    fn f(&mut self) { self.out.write(&self.buf[..1]).unwrap(); }\n}\n", ["f"], ":7: method `.write(…)` on a value of type `('sink',)`"),
    (HEAD + "    fn f(&mut self) { self.out.flush().unwrap(); }\n}\n", ["f"], ":7: method `.flush(…)`"),
    (HEAD + "    fn f(&mut self, b: &[u8]) { self.buf.copy_from_slice(b); }\n}\n", ["f"], ":7: `copy_from_slice` is translated in the form"),
    (HEAD + "    fn f(&mut self, b: &[u8]) -> usize { b.iter().count() }\n}\n", ["f"], ":7: `.iter(…)` is only translated in the forms"),
    (HEAD + "    fn f<T: Q>(&mut self, t: &T) { t.p(self); }\n}\n", ["f"], ":7: the bound `Q` is not a trait of this file"),
    (HEAD + "    fn f<T>(&mut self, t: &T) { t.p(self); }\n}\n", ["f"], ":7: method `.p(…)` on a value of the type parameter `T`: no bound provides it"),
    (HEAD + "    fn f<T: P>(&mut self, t: &T) { t.p(self); }\n    fn g(&mut self) { self.f(&1u8); }\n}\n", ["g"], ":8: the type of this integer literal cannot be read from its context"),
    (HEAD + "    fn f<T: P>(&mut self, t: &T) { t.p(self); }\n    fn g(&mut self, s: &str) { self.f(&s); }\n}\n", ["g"], ":8: 0 impls of `P` for `('str',)`"),
    (HEAD + "    fn f(&mut self, c: char) -> bool { c < 'a' }\n}\n", ["f"], ":7: ordering of `char`s"),
    (HEAD + "    fn f(&mut self) -> usize { self.end / 2 }\n}\n", ["f"], ":7: `/` on values of type `('usize',)` has no rule"),
    (HEAD + "    fn f(&mut self, b: &[u8]) { self.buf[0] += b[0]; }\n}\n", ["f"], ":7: `+=` on an array element"),
    (HEAD + "    fn f(&mut self) { let (a, b) = self.end; }\n}\n", ["f"], ":7: a tuple pattern of 2 names"),
    (HEAD + "    fn f(&mut self, v: Vec<u32>) { }\n}\n", ["f"], ":7: the concrete integer type `u32` has no rule"),
    (HEAD + "    fn f(&mut self) where Self: Sized { }\n}\n", ["f"], ":7: `where` clauses"),
    (HEAD + "    fn f(&mut self) { self.wb(b\"ab\"); }\n}\n", ["f"], ":7: string literals"),
    (HEAD + "}\nimpl<T: P + Copy> P for Vec<T> { fn p(&self, w: &mut W) { } }\n", ["Vec::p"], ":8: the bound `Copy` is not a trait of this file"),
    (HEAD + "}\npub trait Q: P { fn q(&self); }\nimpl<'a> W<'a> { fn g<T: Q>(&mut self, t: &T) { } }\n", ["g"], ":8: trait `Q` with generics / supertraits"),
    (HEAD + "}\nmacro_rules! m { ($($x:ty),*) => { $( impl P for $x { fn p(&self, w: &mut W) { } } )* } }\nm!(u8, u16);\n", ["m!"], ":8: macro fragment `:ty` in a macro with a repetition"),
    (HEAD + "}\nmacro_rules! m { ($a:ident, $($b:ident),*) => { impl<$a: P> P for ($a, $c) { fn p(&self, w: &mut W) { } } } }\nm!(A, B);\n", ["m!"], "`$c` is not a parameter of the macro"),
    (HEAD + "}\nmacro_rules! m { ($t:ty) => { impl P for $t { fn p(&self, w: &mut W) { w.wb(&[(*self % 10) as u8]); } } } }\nm!(f64);\n", ["m!"], ":9: invocation `m!(f64)`"),
    (HEAD + "}\nmacro_rules! s { ($t:ty) => { impl P for $t { fn p(&self, w: &mut W) { w.g(&self.unsigned_abs()); } } } }\ns!(i8);\n"
            "impl<'a> W<'a> { fn g<T: P>(&mut self, t: &T) { t.p(self); } }\n", ["s!"], "0 impls of `P` for `('int', '(SrcIoW.unsignedOf t0)')`"),
    (HEAD + "}\nmod m {}\n", [], ":8: top-level item starting with `mod`"),
]

WRITER_FNS = ["new", "flush", "reserve", "write_bytes", "write_char", "write", "drop", "str::write", "String::write", "write_unsigned!", "write_signed!",
              "Vec::write", "write_tuple!"]


def main():
    bad = 0
    lean_dir = os.path.join(os.path.dirname(HERE), "lean")
    # 1. sample
    src = open(os.path.join(HERE, "rs2lean_selftest", "sample_writer.rs")).read()
    tr = rw.WTranslator(src, "sample_writer.rs", "Out")
    defs = tr.translate(SAMPLE_FNS)
    text = rw.render(defs, "Rlib.TrWriterTest", "sample_writer.rs", "selftest", "SampleWriter")
    text += ("open Rlib.TrWriterTest\n"
             "def sh (r : Except Rlib.Panic (Rlib.SrcIoW.Sink × Nat × Array UInt8)) := r.toOption.map fun (k, l, d) => (k.data.data, k.calls, l, d)\n"
             + "".join(f"#eval {e}\n" for e, _ in EVALS))
    with tempfile.TemporaryDirectory() as d:
        p = os.path.join(d, "SampleWriter.lean")
        open(p, "w").write(text)
        r = subprocess.run(["lake", "env", "lean", p], cwd=lean_dir, capture_output=True, text=True)
    got = [l for l in r.stdout.split("\n") if l.strip()]
    want = [w for _, w in EVALS]
    if r.returncode != 0 or got != want:
        bad += 1
        print("FAIL sample_writer:", r.returncode, [(g, w) for g, w in zip(got, want) if g != w], r.stdout[-1500:], r.stderr[-800:])
    else:
        print(f"ok   sample_writer.rs: {len(tr.order)} functions, {len(EVALS)} evaluations as expected")
    # 2. renaming / comments / layout
    wr = open("/repo/rlib/io/src/writer.rs").read()
    d0 = rw.WTranslator(wr, "writer.rs", "Writer").translate(WRITER_FNS)
    r2 = wr
    for a, b in [(r"\bstdout\b", "sink_out"), (r"\.buf\b", ".storage"), (r"\bbuf: \[u8", "storage: [u8"), (r"buf: \[0; Writer", "storage: [0; Writer"),
                 (r"\.end\b", ".fill"), (r"\bend: ", "fill: "), (r"\bsize\b", "need"), (r"\bchunk\b", "part"), (r"\bwriter\b", "out"), (r"\$t\b", "$ty"),
                 (r"\bvalue\b", "item"), (r"\bindex\b", "pos"), (r"\(i, item\)", "(idx, item)"), (r"if i != 0", "if idx != 0"),
                 (r"<T: Writable>\(&mut self, t: &T\)", "<Elem: Writable>(&mut self, t: &Elem)"), (r"impl<T: Writable> Writable for Vec<T>", "impl<E: Writable> Writable for Vec<E>"),
                 (r"\$t1\b", "$first"), (r"\bc: char\b", "ch: char"), (r"\[c as u8\]", "[ch as u8]"),
                 (r"pub fn flush\(&mut self\) \{", "pub fn flush(&mut self) { /* hand /* everything */ over */\n   // to the sink\n"), (r"\n        ", "\n\t  ")]:
        assert re.search(a, r2), a
        r2 = re.sub(a, b, r2)
    d2 = rw.WTranslator(r2, "writer.rs", "Writer").translate(WRITER_FNS)
    if d0 != d2 or r2 == wr:
        bad += 1
        print("FAIL rename invariance")
    else:
        print(f"ok   writer.rs with locals / fields / parameters / type parameters / macro parameters renamed, comments, other layout: identical text ({len(d0)} definitions)")
    # 3. rejections
    n = 0
    for src, wanted, frag in REJECT:
        try:
            rw.WTranslator(src, "t.rs", "W").translate(wanted)
            bad += 1
            print("FAIL not rejected:", repr(src[-110:]))
        except rs2lean.TranslateError as e:
            if frag not in str(e) or not str(e).startswith("t.rs:"):
                bad += 1
                print("FAIL wrong message:", e, "| wanted:", frag)
            else:
                n += 1
    print(f"ok   {n} out-of-subset sources rejected with file:line")
    return 1 if bad else 0


if __name__ == "__main__":
    sys.exit(main())
