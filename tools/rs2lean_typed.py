#!/usr/bin/env python3
"""
rs2lean_typed — the typed sibling of tools/rs2lean.py: translates Rust code over the *primitive machine integer types*
(structs with integer fields, `impl` blocks with const generics, operator-trait impls, `macro_rules!` bodies
parametrised by integer types) into Lean 4 definitions over `Int` in which every machine step is explicit:
casts are `IntTy.wrap`, `+ - * /` and unary `-` go through `Rlib.checked` (overflow-checks = true, as the harness
builds rlib), `/ %` by zero is `Panic.divzero`, `assert!` is `Panic.assert`.  Same tokenizer, same discipline as
rs2lean.py: syntax-directed, one rule per construct, anything without a rule is an error `file:line: …`.

    python3 tools/rs2lean_typed.py SRC.rs --namespace Rlib.MintSrc --out lean/RlibModel/Generated/MintSrc.lean --fns new,add,…

TRANSLATION SCHEME (differences from rs2lean.py; items I*, names N1, statements S1–S9, preamble P1–P3 are the same)
==================
Types
  T1  `i8 … i128, u8 … u128, isize, usize`    a value is a Lean `Int` that lies in the type's range; the type itself is the term
                                        `(IntTy.mk <signed> <bits>)` (`isize`/`usize` are 64-bit, as in Model/Common.lean).
                                        A macro parameter `$t:ty` is a Lean parameter `(t : IntTy)` (T1 applies with that term).
  T2  `struct S<const A: u64, …> { f: int, … }`  a value is the tuple of its fields in declaration order (a single `Int` when there is
                                        one field).  `Self` = the struct of the enclosing `impl`.  Const generics become explicit
                                        `Int` parameters `c0, c1, …` of every function of the struct, after `fuel`.
  T4  `bool`                            a Lean `Bool`
  T5  `Vec<t>`, t an integer type or `bool`     a Lean `Array Int` / `Array Bool` (one component, whatever its length); struct fields and
                                        parameters of these types become parameters of that Lean type (consecutive parameters of one
                                        type share a binder)
  T6  `[t; N]` (array), `[t]` (slice), t as in T5 or a type parameter (T7)      read exactly like `Vec<t>` (T5): one `Array` component.  The
                                        length `N` is an invariant of the Rust type that is NOT stored: indexing is the checked V1 (an index
                                        `≥ N` is `Panic.index` because the array a well-typed caller passes has `N` elements), and theorems about
                                        the generated definitions carry `size = N` as a hypothesis where they need it.
  T7  a type parameter `T` of the struct (`struct S<T, const D: usize>`, `impl<T: Clone, const D: usize> S<T, D>`)      an abstract Lean type: every
                                        definition of the struct gets the implicit binder `{E0 … : Type}` (position among the type parameters),
                                        a value of type `T` is one component of type `E<i>`, `Vec<T>` / `[T]` an `Array E<i>`.  Such values can
                                        only be moved, stored (`vec![x; n]`, struct fields), indexed out of a vector and — with the bound
                                        `T: PartialEq` (Lean: `[BEq E<i>]`) — compared as whole vectors (B4).  Bounds `Clone`, `Copy` need nothing;
                                        any other bound makes the impl untranslatable (an error only if one of its functions is requested).
  T8  `Option<int>`                     a Lean `Option Int` (one component); values are only built — `None` = `none`, `Some(e)` = `(some ⟦e⟧)` — and returned
      Lifetime parameters and `&'a` annotations are dropped (they do not change what the code computes).
  T3  integer literals take their type from the context, by unification, default `i32` (two passes: the first only resolves
      literal types, the second emits); a literal that does not fit its type is an error.
Items
  I6  `macro_rules! m { ($a:ident, $b:ident) => { impl … } }` (one rule, `:ident` parameters only) + `m!(X, y);`      expanded by token
      substitution at every item-level invocation and parsed as impl blocks (`impl<const N: usize> $trait for &Bitset<N> { fn $func … }`).
  I3  `impl<const …> S<…> { fn … }`, `impl<const …> Trait for S<…> { fn … }`      one `def` per translated function, named after the
      function.  Receivers: `self`, `&self` → the struct value is a parameter; `&mut self` → additionally the function returns
      the new struct value: `Self'` if the Rust function returns `()`, `(Self' × R')` otherwise.
      `const NAME: Self = e;` inside an impl is inlined where `Self::NAME` is used.
  I5  `type Output = T;` inside an impl is remembered: `Self::Output` in a signature of that impl — or of another trait impl of the same
      struct that does not define it (`IndexMut` uses `Index::Output`) — is that type.  `impl Trait for &S<…>`: the `&` is dropped (R3).
      Other items (`use`, `#[derive/allow/inline]`, `type`, `trait` declarations, impls that are never called) are skipped; a
      `struct` outside T2 (lifetime / type parameters, fields of other types) is an error only if a translated function uses it;
      `#[cfg…]`, `mod`, free `static`/`const`, `unsafe`, `extern` are errors.
  I4  `macro_rules! m { ($a:ty, $b:ty) => { impl … } }` + invocations `m!(i8, u8);`     the body is translated ONCE with the parameters
      as `IntTy` parameters; the list of invocations is emitted as `def m_instances : List (IntTy × …)`.
Expressions (integers; `t` = the static type of the operation, `T` its Lean term)
  M1  literal `n`                        `(n : Int)`
  M2  `e as u`                           `(IntTy.wrap U ⟦e⟧)`                           (never panics)
  M3  `e1 + e2`, `-`, `*`                [bind v ← checked T (⟦e1⟧ + ⟦e2⟧)], term v      (overflow ⇒ `Panic.overflow`)
  M4  `e1 / e2`                          [guard ⟦e2⟧ = 0 ⇒ divzero, bind v ← checked T (Int.tdiv ⟦e1⟧ ⟦e2⟧)]          (`MIN / -1` overflows)
  M5  `e1 % e2`                          [guard ⟦e2⟧ = 0 ⇒ divzero, guard (T.signed = true ∧ ⟦e1⟧ = T.minVal ∧ ⟦e2⟧ = -1) ⇒ overflow], `(Int.tmod ⟦e1⟧ ⟦e2⟧)`
  M6  `-e`                               [bind v ← checked T (-⟦e⟧)]
  M7  `e1.wrapping_add(e2)`, `_sub`, `_mul`   `(IntTy.wrap T (⟦e1⟧ + ⟦e2⟧))` …
  M8  `e1 ^ e2`, `|`, `&`                `(IntTy.wrap T (Int.ofNat (Nat.xor (wrapU T.bits ⟦e1⟧).toNat (wrapU T.bits ⟦e2⟧).toNat)))` … (two's complement)
  M9  `e >> k`, `e << k`                 [guard ¬ (0 ≤ ⟦k⟧ ∧ ⟦k⟧ < T.bits) ⇒ overflow], `(⟦e⟧ / 2 ^ ⟦k⟧.toNat)` (floor = arithmetic shift),
                                        `(IntTy.wrap T (⟦e⟧ * 2 ^ ⟦k⟧.toNat))`
  M10 `e1.max(e2)`, `e1.min(e2)`         `(max ⟦e1⟧ ⟦e2⟧)`, `(min ⟦e1⟧ ⟦e2⟧)`
  M11 `<t>::MIN`, `<t>::MAX`, `t::MIN`…  `(IntTy.minVal T)`, `(IntTy.maxVal T)`
  M12 `assert!(c)`                       [guard ¬ (⟦c⟧) ⇒ `Panic.assert`]; a message `assert!(c, "…", args)` is not translated (it is only
                                        evaluated when the assertion has already failed)
  M12' `assert_eq!(a, b)`                = `assert!(a == b)`: ⟦a⟧, then ⟦b⟧, [guard ¬ (⟦a⟧ = ⟦b⟧) ⇒ `Panic.assert`]   (a message is skipped as in M12)
  M14 `!e` on an integer                `(IntTy.wrap T (-⟦e⟧ - 1))`  (two's complement: `2^bits - 1 - e` for unsigned types)
  M8' `x.bitand(y)`, `.bitor`, `.bitxor`; `p.bitand_assign(y);` …      = `x & y` …; `p &= y;` … (M8; also `p |= e`, `p[i] ^= e` for places, V6)
  M15 `e.count_ones()`                   `(SrcInt.countOnes T ⟦e⟧)` : u32      TRUSTED primitives of `Generated/ArrPrelude.lean` (bit recursion over the
  M16 `e.trailing_zeros()`               `(SrcInt.trailingZeros T ⟦e⟧)` : u32   `T.bits` bits of the two's-complement pattern; `trailing_zeros(0) = bits`)
  M13 `e1.rem_euclid(e2)`                guards as M5, term `(Int.emod ⟦e1⟧ ⟦e2⟧)`   (the non-negative remainder)
Expressions (`bool`)
  B1  `true`, `false`                    `true`, `false`
  B2  a comparison / `!` / `&&` / `||` used as a value (returned, bound by `let`, stored)      `(decide (⟦c⟧))`
  B3  a `bool` value (variable, field, element, call) used as a condition                    `⟦e⟧ = true`
  B4  `v1 == v2`, `!=` on `Vec`s / arrays / slices      integers, `bool`: `⟦v1⟧ = ⟦v2⟧` (a `Prop`; `decide` as a value, B2); elements of a type
                                        parameter with `T: PartialEq`: `(⟦v1⟧ == ⟦v2⟧) = true` through `[BEq E<i>]` (std compares lengths, then
                                        element-wise — `Array`'s `BEq`)
Expressions and statements (`Vec`; the functions `SrcVec.*` are the fixed, hand-written file `Generated/VecPrelude.lean`, imported (P4)
only by generated files that use one of these rules)
  V1  `e[i]`, `i: usize`                 [⟦e⟧, ⟦i⟧, bind x ← SrcVec.index ⟦e⟧ ⟦i⟧], term x       (out of range ⇒ `Panic.index`)
  V2  `e.len()`                          `(SrcVec.len ⟦e⟧)` : usize
  V3  `vec![x; n]`                       `(SrcVec.replicate ⟦n⟧ ⟦x⟧)`       (`x` is evaluated first, then `n`)
  V4  `(a..b).collect()`                 `(SrcVec.range ⟦a⟧ ⟦b⟧)`; only where a `Vec` of integers is expected (field initialiser, annotated `let`,
                                        returned value); `..=`, other adaptors: error
  V5  `Vec::new()`                       `#[]`
  V6  `p[i] = e;`, `p[i] op= e;`         with `p` a variable or a field of a variable (`self.f`).  Rust's order is kept: the assigned value
                                        ⟦e⟧ first (it may call `&mut self` methods, R4 — the vector is read after that), then the index ⟦i⟧,
                                        then [bind a ← SrcVec.store ⟦p⟧ ⟦i⟧ ⟦e⟧] with its own bounds check, and `p` is rebound to `a`.
                                        `op=` (integers only): ⟦e⟧, ⟦i⟧, [bind o ← SrcVec.index ⟦p⟧ ⟦i⟧], the checked operation M3–M5 on `o` and
                                        ⟦e⟧, then the store
  V7  `p.resize(n, x);`                  `p` is rebound to `(SrcVec.resize ⟦p⟧ ⟦n⟧ ⟦x⟧)`
  V8  `p.push(x);`                       `p` is rebound to `(Array.push ⟦p⟧ ⟦x⟧)`
      any other method on a `Vec`, slices, ranges as indices, iterators: error
Arrays, slices, iterator forms (the functions are the fixed, hand-written file `Generated/ArrPrelude.lean`, imported (P5) only by generated
files that use A2 / A3)
  A1  `[x; N]`                           `(SrcVec.replicate ⟦N⟧ ⟦x⟧)` as V3 (`x` first, then `N`); `[a, b, c]`: error
  A2  `e.contains(&x)` (integers)        `(SrcVec.contains ⟦e⟧ ⟦x⟧)` : bool
  A3  `e.iter().product::<t>()`, `e.iter().product()`      [bind v ← SrcVec.product T ⟦e⟧]: std's `fold(1, |a, b| a * b)` with every multiplication
                                        checked (overflow ⇒ `Panic.overflow`), left to right; `t` must be the element type.  `.iter()` in any
                                        other position: error
  A4  `e.to_vec()`, `e.clone()` on a `Vec` / array / slice      ⟦e⟧ (a copy is the same value)
  A5  `e.iter().map(|x| body).sum::<t>()`      [bind v ← SrcVec.sum T (Array.map (fun x => ⟦body⟧) ⟦e⟧)]: std's `fold(0, |a, b| a + b)`, every addition
                                        checked; the closure has one parameter and a body without preamble (cannot panic, no calls); a
                                        closure anywhere else: error
  V9  `p.fill(x);`                       `p` is rebound to `(SrcVec.fill ⟦p⟧ ⟦x⟧)` (same length, every element `x`)
Statements (besides S1–S9, S1' and S7' of rs2lean.py)
  S10 `for i in a..b { B }`, `for _ in a..b { B }`      `let mut #i = a; let #n = b; while #i < #n { let i = #i; B; #i = #i + 1 }` with S7; the step is
                                        not overflow-checked (`#i < #n ≤ MAX`); the bounds are evaluated once, in order; `..=`, `.rev()`,
                                        other iterators: error
  S10' `for i in (a..b).rev() { B }`     `let #n = a; let mut #i = b; while #n < #i { #i = #i - 1; let i = #i; B }` (the step cannot underflow
                                        because `#n < #i`); the bounds are evaluated once, `a` first
  S13 `for P in I { B }`, I ::= `e.iter()` | `e.iter_mut()` | `I.zip(I')` | `I.enumerate()`, `e` a variable or a field of one
                                        `let #m = LEN(I); for #k in 0..#m { <bindings of P at position #k>; B }` (then S10) with LEN(e.iter()) = `e.len()`,
                                        LEN(zip) = `LEN(I).min(LEN(I'))`, LEN(enumerate) = LEN(I).  An element of `e.iter()` is bound by `let x = e[#k]`,
                                        the index of `enumerate` by `let i = #k`; an element `x` of `e.iter_mut()` is the PLACE `e[#k]`: every `x` in
                                        `B` is replaced by it (`*x = v` is `e[#k] = v`, `x.bitand_assign(y)` is `e[#k] &= y`).  The indexing is the
                                        checked V1/V6 (it cannot fail because `#k < LEN`); any other iterator adaptor: error
  S12' `while a && b { B }` where ⟦b⟧ has a preamble      `while a { if !b { break; } B }` (S11): `b` is only evaluated when `a` holds, as in Rust
  S11 `break;` inside a `while` / `for` body (at any depth of `if`s, last statement of its block)      `.ok ⟨the loop's state⟩` — the loop's
                                        definition returns, the code after the loop goes on with that state; `continue`, `break` with
                                        statements after it, `break` outside a loop: error (`loop { if c { break; } … }` stays S7')
  S12 `if a || b { X } else { Y }`, `if a && b { X } else { Y }` where ⟦b⟧ has a preamble (can panic / calls)      short-circuit, by
                                        duplication: `if a { X } else { if b { X } else { Y } }`, `if a { if b { X } else { Y } } else { Y }`;
                                        (when ⟦b⟧ is pure the conjunction / disjunction is emitted as before; elsewhere — `while`
                                        conditions, values — a panicking right operand is still an error)
Expressions (structs)
  R1  `S { f: e, … }`, `Self { f }`      the tuple of the field terms (declaration order; initialisers are evaluated in source order)
  R2  `e.f`                              the component of ⟦e⟧
  R3  `*e`, `&e`, `&mut e`               ⟦e⟧
  R4  `Self::f(args)`, `e.m(args)`       [bind v ← f fuel c0 … <receiver fields> <args>]     resolved among the impls of the struct
                                        in this file (inherent first, then trait impls).  A `&mut self` method can be called — as a
                                        statement or inside an expression — on a `mut` variable or `self` only: the arguments are
                                        translated first, then the receiver is read (`x.m(x.m(a))` runs the inner call first), and the
                                        variable is rebound to the struct value the callee returns, for the rest of the expression and
                                        everything after it (`self.par(u) == self.par(v)`: the second call runs on the state the first
                                        one left).  Not in index expressions or loop conditions (error)
  R5  `e1 + e2` on structs (also `- * / %`, unary `-`, `+=` …)      the function `add` of `impl Add for S` (`sub`, `mul`, `div`, `rem`, `neg`,
                                        `add_assign` …) of this file, as R4; a missing impl is an error
  R6  `x = e`, `*self = e`, `x.f = e`    S3 on the components
  R7  `e1 == e2`, `!=` on structs        component-wise, only with `#[derive(PartialEq)]` on the struct
Loops and fuel as S7/F1, except that the loop's parameters are ordered by first occurrence in the loop's own text (condition,
then body) instead of declaration order, so reordering the `let`s in front of a loop does not change the loop's definition;
the const parameters are passed to every loop definition.
  F1  a method that calls itself (directly, not from inside one of its loops) is defined by structural recursion on the fuel, as in
      rs2lean.py: `def f : Nat → … → Except Panic R | 0, _, … => .error .fuel | fuel + 1, p0, … => ⟦body⟧`, self-calls get `fuel`;
      mutual recursion: error.
"""
import json
import os
import re
import sys

sys.path.insert(0, os.path.dirname(os.path.abspath(__file__)))
from rs2lean import TranslateError, Parser, Node, KEYWORDS, write_if_changed, SUBSET, tie_findings  # noqa: E402,F401

INT_TYPES = {"i8": (True, 8), "i16": (True, 16), "i32": (True, 32), "i64": (True, 64), "i128": (True, 128), "isize": (True, 64),
             "u8": (False, 8), "u16": (False, 16), "u32": (False, 32), "u64": (False, 64), "u128": (False, 128), "usize": (False, 64)}
ATTR_OK = {"derive", "allow", "inline", "doc", "must_use", "warn"}
BINOP_TRAIT = {"+": ("Add", "add"), "-": ("Sub", "sub"), "*": ("Mul", "mul"), "/": ("Div", "div"), "%": ("Rem", "rem")}
ASSIGN_TRAIT = {"+=": ("AddAssign", "add_assign"), "-=": ("SubAssign", "sub_assign"), "*=": ("MulAssign", "mul_assign"),
                "/=": ("DivAssign", "div_assign"), "%=": ("RemAssign", "rem_assign")}
UNIT, BOOL = ("unit",), ("bool",)
USIZE = ("int", "usize")
# std::ops range types (trusted reading of std): their fields; `RangeInclusive` is read through `.start()` / `.end()`;
# `is_empty` is `!(start < end)` for `Range` and `!(start <= end)` for a freshly built `RangeInclusive`
STD_RANGES = {"Range": ["start", "end"], "RangeInclusive": ["start", "end"], "RangeTo": ["end"], "RangeToInclusive": ["end"], "RangeFull": []}


class TVar:
    """type of an integer literal until unification fixes it"""

    def __init__(self):
        self.ref = None


def resolve(t):
    while isinstance(t, TVar) and t.ref is not None:
        t = t.ref
    return t


def is_int(t):
    t = resolve(t)
    return isinstance(t, TVar) or (isinstance(t, tuple) and t[0] == "int")


def is_vec(t):
    t = resolve(t)
    return isinstance(t, tuple) and t[0] == "vec"


def is_struct(t):
    t = resolve(t)
    return isinstance(t, tuple) and t[0] == "struct"


def is_tparam(t):
    t = resolve(t)
    return isinstance(t, tuple) and t[0] == "tparam"


def is_option(t):
    t = resolve(t)
    return isinstance(t, tuple) and t[0] == "option"


def is_scalar(t):
    """one Lean component: an integer, a `bool`, a `Vec` / array / slice, a value of a type parameter (T7) or an `Option<int>` (T8)"""
    return is_int(t) or is_vec(t) or resolve(t) == BOOL or is_tparam(t) or is_option(t)


def is_lifetime(tok):
    return tok.kind == "str" and tok.val.startswith("'") and not (len(tok.val) > 1 and tok.val.endswith("'"))


def subst_vars(node, sub):
    """S13: a copy of the AST below `node` in which every variable `x` with `x in sub` is replaced by `sub[x](line)`"""
    if isinstance(node, Node):
        if node.kind == "var" and node.name in sub:
            return sub[node.name](node.line)
        new = Node(node.kind, node.line)
        for k, v in node.__dict__.items():
            if k not in ("kind", "line"):
                new.__dict__[k] = v if k == "impl" else subst_vars(v, sub)
        return new
    if isinstance(node, list):
        return [subst_vars(x, sub) for x in node]
    if isinstance(node, tuple):
        return tuple(subst_vars(x, sub) for x in node)
    return node


BIT_METHODS = {"bitand": "&", "bitor": "|", "bitxor": "^"}
BIT_ASSIGN_METHODS = {"bitand_assign": "&=", "bitor_assign": "|=", "bitxor_assign": "^="}


# trait bounds a type parameter may carry (T7): `Clone`/`Copy` need nothing in Lean, `PartialEq`/`Eq` become `[BEq E<i>]`
TP_BOUNDS_OK = {"Clone", "Copy", "PartialEq", "Eq"}


# ------------------------------------------------------------------------------------------------
# parser
# ------------------------------------------------------------------------------------------------

class TParser(Parser):
    def __init__(self, src, file):
        super().__init__(src, file, allow_strings=True)   # other items of the file may contain strings; no rule accepts one
        self.structs = {}
        self.macro_params = set()      # `$t` names valid as types in the body being parsed
        self.type_params = set()       # type parameters (T7) of the struct / impl being parsed
        self.last_tparams, self.last_generic_order = [], []

    # -- items ------------------------------------------------------------------------------------
    def parse_program(self):
        prog = Node("program", 1, uses=[], attrs=[], structs=self.structs, impls=[], macros={}, invocations=[], skipped=[])
        pending = []
        while self.peek().kind != "eof":
            t = self.peek()
            if self.at("#"):
                pending.append(self.parse_attr())
                continue
            if self.at("use"):
                while not self.eat(";"):
                    if self.peek().kind == "eof":
                        self.err("unterminated `use`", t)
                    self.next()
                pending = []
                continue
            if self.eat("pub") and self.at("("):
                self.err("`pub(…)` visibility is outside the translated subset")
            if self.at("struct"):
                self.parse_struct(pending)
            elif self.at("type"):
                while not self.eat(";"):
                    self.next()
                prog.skipped.append(f"type alias (line {t.line})")
            elif self.at("trait"):
                while not self.at("{"):
                    if self.peek().kind == "eof":
                        self.err("unterminated trait", t)
                    self.next()
                self.skip_braces()
                prog.skipped.append(f"trait declaration (line {t.line})")
            elif self.at("impl"):
                prog.impls.append(self.parse_impl())
            elif self.at("macro_rules") and self.at("!", 1):
                m = self.parse_macro_rules()
                prog.macros[m.name] = m
            elif t.kind == "ident" and self.at("!", 1) and t.val in prog.macros and getattr(prog.macros[t.val], "subst_body", None):
                prog.impls += self.expand_ident_macro(prog.macros[t.val])                   # I6
            elif t.kind == "ident" and self.at("!", 1) and t.val in prog.macros:
                prog.invocations.append(self.parse_invocation())
            else:
                self.err(f"top-level item starting with `{self.peek().val}` is outside the translated subset")
            pending = []
        return prog

    def parse_macro_rules(self):
        """`macro_rules! name { ($a:ty, $b:ty) => { impl … ; other!($a); } }` — one rule, `ty` fragments only."""
        t = self.expect("macro_rules")
        self.expect("!")
        name = self.ident("macro name").val
        self.expect("{")
        self.expect("(")
        params, frags = [], []
        while not self.at(")"):
            self.expect("$")
            if self.peek().kind != "ident":
                self.err("expected macro parameter")
            p = self.next().val                              # may be a keyword (`$trait`)
            self.expect(":")
            frag = self.ident("fragment specifier")
            if frag.val not in ("ty", "ident"):
                self.err(f"macro fragment `:{frag.val}` is outside the translated subset (only `:ty`, `:ident`)", frag)
            params.append(p)
            frags.append(frag.val)
            if not self.eat(","):
                break
        self.expect(")")
        self.expect("=>")
        if "ident" in frags:                                 # I6: expanded by token substitution at every item-level invocation
            if set(frags) != {"ident"}:
                self.err("a macro mixing `:ident` and `:ty` parameters is outside the translated subset", t)
            start = self.i + 1
            self.skip_braces()
            end = self.i - 1
            self.eat(";")
            if not self.at("}"):
                self.err("a macro with several rules is outside the translated subset")
            self.expect("}")
            return Node("macro", t.line, name=name, params=params, items=[], subst_body=(start, end))
        self.expect("{")
        old, self.macro_params = self.macro_params, set(params)
        items = []
        while not self.at("}"):
            x = self.peek()
            if self.at("#"):
                self.parse_attr()
            elif self.at("impl"):
                imp = self.parse_impl()
                imp.macro_params = set(params)
                items.append(imp)
            elif x.kind == "ident" and self.at("!", 1):
                items.append(self.parse_invocation())
            else:
                self.err(f"macro body item starting with `{x.val}` is outside the translated subset (impl blocks and macro invocations)")
        self.expect("}")
        self.eat(";")
        if not self.at("}"):
            self.err("a macro with several rules is outside the translated subset")
        self.expect("}")
        self.macro_params = old
        return Node("macro", t.line, name=name, params=params, items=items)

    def expand_ident_macro(self, m):
        """I6: `name!(A, b);` for a macro with `:ident` parameters only: the body's tokens with `$p` replaced by the argument
        identifier are appended to the token list and parsed as impl blocks (function bodies are parsed later, from there)."""
        t = self.ident("macro name")
        self.expect("!")
        self.expect("(")
        args = []
        while not self.at(")"):
            args.append(self.ident("macro argument (an identifier)"))
            if not self.eat(","):
                break
        self.expect(")")
        self.eat(";")
        if len(args) != len(m.params):
            self.err(f"`{m.name}!` takes {len(m.params)} arguments", t)
        sub = dict(zip(m.params, args))
        body, out, k = self.toks[m.subst_body[0]:m.subst_body[1]], [], 0
        while k < len(body):
            x = body[k]
            if x.kind == "punct" and x.val == "$":
                if k + 1 >= len(body) or body[k + 1].val not in sub:
                    self.err("`$` that is not a parameter of the macro", x)
                a = sub[body[k + 1].val]
                out.append(type(a)(a.kind, a.val, body[k + 1].line, body[k + 1].pos))
                k += 2
            else:
                out.append(x)
                k += 1
        eof = self.toks[-1]
        back = self.i
        self.i = len(self.toks)
        self.toks += out + [type(eof)("eof", "", eof.line, eof.pos)]
        impls = []
        while self.peek().kind != "eof":
            if self.at("#"):
                self.parse_attr()
            elif self.at("impl"):
                impls.append(self.parse_impl())
            else:
                self.err(f"macro body item starting with `{self.peek().val}` is outside the translated subset (impl blocks)")
        self.i = back
        return impls

    def parse_invocation(self):
        t = self.ident("macro name")
        self.expect("!")
        self.expect("(")
        args = []
        while not self.at(")"):
            args.append(self.parse_type())
            if not self.eat(","):
                break
        self.expect(")")
        self.eat(";")
        return Node("invoke", t.line, name=t.val, args=args)

    def parse_attr(self):
        t = self.expect("#")
        if self.at("!"):
            self.err("inner attributes are outside the translated subset", t)
        self.expect("[")
        name = self.ident("attribute").val
        depth, start = 1, self.i
        while depth:
            x = self.next()
            if x.kind == "eof":
                self.err("unbalanced `[`", t)
            depth += (x.val == "[") - (x.val == "]") if x.kind == "punct" else 0
        if name not in ATTR_OK:
            self.err(f"attribute `#[{name}…]` is outside the translated subset (it may change what the code means)", t)
        return name, [x.val for x in self.toks[start:self.i - 1]]

    def parse_const_generics(self):
        """`<T: Clone, const A: u64, const C: u64>` -> [(name, int type)] for the const parameters; the type parameters (T7) are left in
        `self.last_tparams` = [(name, [bounds])] and all names, in order, in `self.last_generic_order`."""
        out = []
        self.last_tparams, self.last_generic_order = [], []
        if not self.eat("<"):
            return out
        while not self.at(">"):
            if is_lifetime(self.peek()):                     # `'a`: lifetimes do not change what the code computes; dropped
                self.next()
                if not self.eat(","):
                    break
                continue
            if self.eat("const"):
                n = self.ident("const parameter").val
                self.expect(":")
                ty = self.parse_type()
                if ty[0] != "int":
                    self.err("const parameter that is not an integer")
                out.append((n, ty))
            else:
                t = self.peek()
                if t.kind != "ident" or t.val in KEYWORDS:
                    self.err("lifetime parameters are outside the translated subset (const generics and type parameters only)")
                n = self.next().val
                bounds = []
                if self.eat(":"):
                    while True:
                        b = self.ident("trait bound").val
                        while self.eat("::"):
                            b = self.ident("trait bound").val
                        if self.at("<"):
                            self.err("a trait bound with arguments is outside the translated subset")
                        if b not in TP_BOUNDS_OK:
                            self.err(f"bound `{b}` on type parameter `{n}` is outside the translated subset (Clone, Copy, PartialEq, Eq)", t)
                        bounds.append(b)
                        if not self.eat("+"):
                            break
                self.last_tparams.append((n, bounds))
            self.last_generic_order.append(n)
            if not self.eat(","):
                break
        self.expect(">")
        return out

    def parse_struct(self, attrs):
        """A struct outside the subset (lifetime / type parameters, fields of other types) is remembered with its error, which is
        raised only if a translated function uses the struct."""
        t = self.expect("struct")
        name = self.ident("struct name").val
        save = self.i
        try:
            self.parse_struct_body(t, name, attrs)
        except TranslateError as e:
            self.i = save
            while not (self.at("{") or self.at(";")):
                if self.peek().kind == "eof":
                    raise e
                self.next()
            if self.at("{"):
                self.skip_braces()
            else:
                self.next()
            self.structs[name] = Node("struct", t.line, name=name, consts=[], fields=[], derives=[], error=e, tparams=[], generic_order=[])

    def parse_struct_body(self, t, name, attrs):
        consts = self.parse_const_generics()
        tparams, order = self.last_tparams, self.last_generic_order
        if not self.at("{"):
            self.err("unit / tuple structs are outside the translated subset")
        self.next()
        fields = []
        old_tp, self.type_params = self.type_params, {n for n, _ in tparams}
        try:
            while not self.at("}"):
                self.eat("pub")
                f = self.ident("field name").val
                self.expect(":")
                ty = self.parse_type()
                if ty[0] not in ("int", "bool", "vec", "tparam"):
                    self.err(f"field `{f}` is not of a primitive integer type, `bool` or `Vec` of these")
                fields.append((f, ty))
                if not self.eat(","):
                    break
        finally:
            self.type_params = old_tp
        self.expect("}")
        derives = [x for n, toks in attrs if n == "derive" for x in toks if x not in ("(", ")", ",")]
        self.structs[name] = Node("struct", t.line, name=name, consts=consts, fields=fields, derives=derives, error=None,
                                  tparams=tparams, generic_order=order)

    def parse_path_with_args(self):
        """`std::ops::Add`, `Modular<M>`, `Randomable<$t>`  -> (last segment, [argument token texts])"""
        segs = [self.ident("path").val]
        while self.eat("::"):
            segs.append(self.ident("path").val)
        args = []
        if self.eat("<"):
            depth, cur = 1, []
            while True:
                x = self.next()
                if x.kind == "eof":
                    self.err("unbalanced `<`")
                if x.val == "<":
                    depth += 1
                elif x.val == ">":
                    depth -= 1
                    if depth == 0:
                        break
                if x.val == "," and depth == 1:
                    args.append("".join(cur))
                    cur = []
                else:
                    cur.append(x.val)
            if cur:
                args.append("".join(cur))
        return segs[-1], [a for a in args if not a.startswith("'")]      # lifetime arguments are dropped

    def parse_impl(self):
        t = self.expect("impl")
        imp = Node("impl", t.line, consts=[], trait=None, self_name=None, self_args=[], fns=[], consts_def={}, error=None,
                   tparams=[], generic_order=[], assoc={})
        save = self.i
        old_tp = self.type_params
        try:
            imp.consts = self.parse_const_generics()
            imp.tparams, imp.generic_order = self.last_tparams, self.last_generic_order
            self.type_params = {n for n, _ in imp.tparams}
            if self.at("&"):                                 # `impl Trait for &S<…>`: the reference is dropped (R3)
                self.next()
            a = self.parse_path_with_args()
            if self.eat("for"):
                imp.trait = a[0]
                imp.trait_args = a[1]
                if self.at("&"):
                    self.next()
                a = self.parse_path_with_args()
            imp.self_name, imp.self_args = a
            if self.at("where"):
                self.err("`where` clauses are outside the translated subset")
        except TranslateError as e:
            imp.error = e
            self.i = save
        while not self.at("{"):
            if self.peek().kind == "eof":
                self.err("unterminated impl", t)
            self.next()
        self.next()
        while not self.at("}"):
            x = self.peek()
            if self.at("#"):
                self.parse_attr()
                continue
            self.eat("pub")
            if self.at("type"):                              # I5: `type Output = T;` is remembered, `Self::Output` resolves to it
                self.next()
                an = self.peek().val
                self.next()
                if self.eat("="):
                    keep = self.i
                    try:
                        aty = self.parse_type()
                        if self.at(";"):
                            imp.assoc[an] = aty
                    except TranslateError:
                        self.i = keep
                while not self.eat(";"):
                    self.next()
            elif self.at("const") and not self.at("fn", 1):
                self.next()
                n = self.ident("constant name").val
                self.expect(":")
                start = self.i
                while not self.at("="):
                    self.next()
                ty_toks = (start, self.i)
                self.next()
                estart = self.i
                depth = 0
                while not (self.at(";") and depth == 0):
                    y = self.next()
                    if y.kind == "eof":
                        self.err("unterminated const", x)
                    depth += (y.val in "({[") - (y.val in ")}]") if y.kind == "punct" else 0
                self.next()
                imp.consts_def[n] = Node("constdef", x.line, name=n, ty_toks=ty_toks, expr_start=estart)
            elif self.at("fn") or (self.at("const") and self.at("fn", 1)):
                self.eat("const")
                imp.fns.append(self.parse_method_header(imp))
            else:
                self.err(f"impl item starting with `{x.val}` is outside the translated subset")
        self.expect("}")
        self.type_params = old_tp
        return imp

    def parse_method_header(self, imp):
        kw = self.expect("fn")
        name = self.ident("function name").val
        fn = Node("fn", kw.line, name=name, impl=imp, header_error=imp.error, body_start=None, recv=None, params=[], ret=UNIT)
        save = self.i
        try:
            if self.at("<"):
                self.err(f"generic method `{name}` is outside the translated subset")
            self.expect("(")
            first = True
            while not self.at(")"):
                if first and (self.at("self") or (self.at("mut") and self.at("self", 1)) or
                              (self.at("&") and (self.at("self", 1) or (self.at("mut", 1) and self.at("self", 2))))):
                    if self.eat("&"):
                        fn.recv = "refmut" if self.eat("mut") else "ref"
                    else:
                        fn.recv = "mutval" if self.eat("mut") else "val"
                    self.expect("self")
                else:
                    mut = bool(self.eat("mut"))
                    p = self.ident("parameter name")
                    self.expect(":")
                    fn.params.append((p.val, mut, self.parse_type()))
                first = False
                if not self.eat(","):
                    break
            self.expect(")")
            if self.eat("->"):
                fn.ret = self.parse_type()
            if self.at("where"):
                self.err("`where` clauses are outside the translated subset")
            if not self.at("{"):
                self.err("a function without a body is outside the translated subset")
        except TranslateError as e:
            fn.header_error = fn.header_error or e
            self.i = save
            while not self.at("{"):
                if self.peek().kind == "eof":
                    raise e
                self.next()
        fn.body_start = self.i
        self.skip_braces()
        return fn

    def parse_type(self):
        t = self.peek()
        if self.at("&"):
            self.next()
            if is_lifetime(self.peek()):
                self.next()
            self.eat("mut")
            return self.parse_type()
        if self.at("("):
            self.next()
            self.expect(")")
            return UNIT
        if self.at("$"):
            self.next()
            n = self.ident("macro parameter").val
            if n not in self.macro_params:
                self.err(f"`${n}` is not a type parameter of the enclosing macro", t)
            return ("int", "$" + n)
        if self.at("["):                                     # T6: `[t; N]` (array) and `[t]` (slice) are read like `Vec<t>`
            self.next()
            elem = self.parse_type()
            if elem[0] not in ("int", "bool", "tparam"):
                self.err("an array / slice of anything but primitive integers, `bool` or a type parameter is outside the translated subset", t)
            if self.eat(";"):
                n = self.next()
                if n.kind not in ("ident", "int") or n.val in KEYWORDS:
                    self.err("the length of an array type must be a const parameter or a literal", n)
            self.expect("]")
            return ("vec", elem)
        if self.eat("Self"):
            if self.at("::"):                                # I5: `Self::Output`
                self.next()
                return ("assoc", self.ident("associated type").val)
            return ("self",)
        n = self.ident("type")
        if n.val in INT_TYPES:
            return ("int", n.val)
        if n.val == "bool":
            return BOOL
        if n.val in self.type_params:                        # T7
            return ("tparam", n.val)
        if n.val == "Option":                                # T8
            self.expect("<")
            elem = self.parse_type()
            if elem[0] not in ("int", "assoc"):
                self.err("`Option` of anything but a primitive integer is outside the translated subset", n)
            self.expect(">")
            return ("option", elem)
        if n.val == "Vec":                                   # T5
            self.expect("<")
            elem = self.parse_type()
            if elem[0] not in ("int", "bool", "tparam"):
                self.err("`Vec` of anything but primitive integers / `bool` is outside the translated subset", n)
            self.expect(">")
            return ("vec", elem)
        if n.val in self.structs or n.val in STD_RANGES:
            args = []
            if self.at("<"):
                self.i -= 1
                _, args = self.parse_path_with_args()
            return ("struct", n.val, tuple(args))
        self.err(f"type `{n.val}` is outside the translated subset", n)

    # -- expressions (Rust precedence) ---------------------------------------------------------------
    def parse_expr(self, allow_assign=False):
        t = self.peek()
        e = self.parse_range()
        p = self.peek()
        if p.kind == "punct" and p.val in ("=", "+=", "-=", "*=", "/=", "%=", "^=", "&=", "|="):
            op = self.next()
            if not allow_assign:
                self.err("assignment inside an expression is outside the translated subset", op)
            rhs = self.parse_range()
            return Node("assign", t.line, op=op.val, target=e, expr=rhs)
        return e

    def parse_range(self):
        e = self.parse_or()
        if self.at("..") or self.at("..="):
            t = self.next()
            r = self.parse_or()
            return Node("range", t.line, lo=e, hi=r, inclusive=(t.val == "..="))
        return e

    def parse_cmp(self):
        e = self.parse_bitor()
        p = self.peek()
        if p.kind == "punct" and p.val in ("==", "!=", "<", "<=", ">", ">=") and not self.is_shift():
            t = self.next()
            r = self.parse_bitor()
            q = self.peek()
            if q.kind == "punct" and q.val in ("==", "!=", "<", "<=", ">", ">=") and not self.is_shift():
                self.err("chained comparison")
            e = Node("cmp", t.line, op=t.val, l=e, r=r)
        return e

    def is_shift(self):
        a, b = self.peek(), self.peek(1)
        return a.kind == "punct" and a.val in ("<", ">") and b.kind == "punct" and b.val[0] == a.val and b.pos == a.pos + 1

    def parse_bitor(self):
        e = self.parse_bitxor()
        while self.at("|"):
            t = self.next()
            e = Node("bit", t.line, op="|", l=e, r=self.parse_bitxor())
        return e

    def parse_bitxor(self):
        e = self.parse_bitand()
        while self.at("^"):
            t = self.next()
            e = Node("bit", t.line, op="^", l=e, r=self.parse_bitand())
        return e

    def parse_bitand(self):
        e = self.parse_shift()
        while self.at("&"):
            t = self.next()
            e = Node("bit", t.line, op="&", l=e, r=self.parse_shift())
        return e

    def parse_shift(self):
        e = self.parse_add()
        while self.is_shift():
            t = self.next()
            second = self.next()
            if second.val != t.val:
                self.err("shift-assignment is outside the translated subset", t)
            e = Node("shift", t.line, op=t.val * 2, l=e, r=self.parse_add())
        return e

    def parse_add(self):
        e = self.parse_mul()
        while self.peek().kind == "punct" and self.peek().val in ("+", "-"):
            t = self.next()
            e = Node("bin", t.line, op=t.val, l=e, r=self.parse_mul())
        return e

    def parse_mul(self):
        e = self.parse_cast()
        while self.peek().kind == "punct" and self.peek().val in ("*", "/", "%"):
            t = self.next()
            e = Node("bin", t.line, op=t.val, l=e, r=self.parse_cast())
        return e

    def parse_cast(self):
        e = self.parse_unary()
        while self.at("as"):
            t = self.next()
            ty = self.parse_type()
            if ty[0] != "int":
                self.err("cast to a type that is not a primitive integer", t)
            e = Node("cast", t.line, e=e, ty=ty)
        return e

    def parse_unary(self):
        t = self.peek()
        if self.at("-"):
            self.next()
            return Node("neg", t.line, e=self.parse_unary())
        if self.at("!"):
            self.next()
            return Node("not", t.line, e=self.parse_unary())
        if self.at("*"):
            self.next()
            return Node("deref", t.line, e=self.parse_unary())
        if self.at("&") or self.at("&&"):
            tok = self.next()
            mut = bool(self.eat("mut"))
            inner = Node("ref", t.line, e=self.parse_unary(), mut=mut)
            return Node("ref", t.line, e=inner, mut=False) if tok.val == "&&" else inner
        return self.parse_postfix()

    def parse_args(self):
        self.expect("(")
        args = []
        while not self.at(")"):
            args.append(self.parse_expr())
            if not self.eat(","):
                break
        self.expect(")")
        return args

    def parse_postfix(self):
        e = self.parse_primary()
        while True:
            t = self.peek()
            if self.at("?"):
                self.err("`?` is outside the translated subset")
            elif self.at("."):
                self.next()
                if self.peek().kind == "int":
                    self.err("tuple field access is outside the translated subset")
                m = self.ident("field or method name")
                tf = None
                if self.at("::"):
                    if m.val not in ("product", "sum"):
                        self.err("turbofish is outside the translated subset")
                    self.next()                              # A3: `.product::<usize>()`, `.sum::<usize>()`
                    self.expect("<")
                    tf = self.parse_type()
                    self.expect(">")
                if self.at("("):
                    e = Node("mcall", t.line, recv=e, name=m.val, args=self.parse_args(), turbofish=tf)
                else:
                    e = Node("field", t.line, e=e, name=m.val)
            elif self.at("["):                               # V1
                self.next()
                i = self.parse_expr()
                self.expect("]")
                e = Node("index", t.line, e=e, idx=i)
            elif self.at("("):
                self.err("call on an expression is outside the translated subset")
            else:
                return e

    def parse_primary(self):
        t = self.peek()
        if self.at("("):
            self.next()
            if self.at(")"):
                self.err("unit value is outside the translated subset", t)
            e = self.parse_expr()
            if self.at(","):
                self.err("tuples are outside the translated subset", t)
            self.expect(")")
            return e
        if self.at("|"):                                   # A5: a one-parameter closure `|x| e` (only as the argument of `.map`)
            self.next()
            cp = self.ident("closure parameter")
            self.expect("|")
            return Node("closure", t.line, param=cp.val, body=self.parse_expr())
        if self.at("["):                                   # A1: `[x; N]`
            self.next()
            x = self.parse_expr()
            if not self.eat(";"):
                self.err("only the form `[x; N]` of an array expression is in the translated subset", t)
            n = self.parse_expr()
            self.expect("]")
            return Node("vecrep", t.line, x=x, n=n)
        if t.kind == "int":
            self.next()
            m = re.fullmatch(r"(0x[0-9a-fA-F_]+|0b[01_]+|0o[0-7_]+|[0-9][0-9_]*)((?:[iu](?:8|16|32|64|128|size))?)", t.val)
            if not m:
                self.err(f"literal `{t.val}` is outside the translated subset (integers only)", t)
            return Node("lit", t.line, value=int(m.group(1).replace("_", ""), 0), suffix=m.group(2) or None)
        if self.at("<"):                                   # `<$t>::MIN`
            self.next()
            ty = self.parse_type()
            self.expect(">")
            self.expect("::")
            n = self.ident("associated constant").val
            return Node("tyconst", t.line, ty=ty, name=n)
        if self.at("$"):
            self.next()
            n = self.ident("macro parameter").val
            self.expect("::")
            return Node("tyconst", t.line, ty=("int", "$" + n), name=self.ident("associated constant").val)
        if t.kind == "ident" and t.val in ("true", "false"):                                # B1
            self.next()
            return Node("boollit", t.line, value=t.val)
        if t.kind == "ident" and t.val in ("if", "match", "loop", "while", "for", "unsafe", "move", "return", "break", "continue"):
            self.err(f"`{t.val}` in expression position is outside the translated subset")
        if t.kind != "ident" or (t.val in KEYWORDS and t.val not in ("self", "Self")):
            self.err(f"expected an expression, found `{t.val or 'end of file'}`")
        path = [self.next().val]
        while self.at("::"):
            self.next()
            if self.at("<"):
                if not (path[-1] == "Self" or path[-1] in self.structs):
                    self.err("turbofish is outside the translated subset")
                depth = 0                                    # `Bitset::<N>::new()`: the generic arguments of the struct are dropped
                while True:
                    x = self.next()
                    if x.kind == "eof":
                        self.err("unbalanced `<`", t)
                    depth += (x.val == "<") - (x.val == ">") if x.kind == "punct" else 0
                    if depth == 0:
                        break
                continue
            path.append(self.ident("path segment").val)
        if self.at("!") and (self.at("(", 1) or self.at("[", 1) or self.at("{", 1)):
            self.next()
            if path == ["vec"] and self.at("["):                                            # V3: `vec![x; n]`
                self.next()
                x = self.parse_expr()
                if not self.eat(";"):
                    self.err("only the form `vec![x; n]` of `vec!` is in the translated subset", t)
                n = self.parse_expr()
                self.expect("]")
                return Node("vecrep", t.line, x=x, n=n)
            if len(path) != 1 or path[0] not in ("assert", "assert_eq"):
                self.err(f"macro `{'::'.join(path)}!` is outside the translated subset (only `assert!`, `assert_eq!`, `vec![x; n]`)", t)
            if not self.at("("):
                self.err(f"`{path[0]}!` must be written with parentheses", t)
            self.next()
            args = [self.parse_expr()]
            if path[0] == "assert_eq":                                                      # M12': `assert_eq!(a, b)` = `assert!(a == b)`
                self.expect(",")
                args.append(self.parse_expr())
            if self.eat(","):                    # a message and its format arguments: evaluated only when the assertion has already failed
                depth = 0
                while not (self.at(")") and depth == 0):
                    x = self.next()
                    if x.kind == "eof":
                        self.err("unbalanced `(`", t)
                    depth += (x.val in ("(", "[", "{")) - (x.val in (")", "]", "}")) if x.kind == "punct" else 0
            self.expect(")")
            if path[0] == "assert_eq":
                return Node("assert", t.line, cond=Node("cmp", t.line, op="==", l=args[0], r=args[1]))
            return Node("assert", t.line, cond=args[0])
        if self.at("("):
            args = self.parse_args()
            if path in (["std", "mem", "swap"], ["core", "mem", "swap"]):
                if len(args) != 2 or any(a.kind != "ref" or not a.mut or a.e.kind != "var" for a in args):
                    self.err("`swap` must be applied to `&mut x, &mut y` with plain variables", t)
                return Node("swap", t.line, a=args[0].e.name, b=args[1].e.name)
            return Node("call", t.line, path=path, args=args)
        if self.at("{") and len(path) == 1 and (path[0] == "Self" or path[0] in self.structs) and self.looks_like_struct_literal():
            self.next()
            fields = []
            while not self.at("}"):
                f = self.ident("field name")
                if self.eat(":"):
                    fields.append((f.val, self.parse_expr()))
                else:
                    fields.append((f.val, Node("var", f.line, name=f.val)))
                if not self.eat(","):
                    break
            self.expect("}")
            return Node("structlit", t.line, name=path[0], fields=fields)
        if len(path) == 2 and path[0] in INT_TYPES and path[1] in ("MIN", "MAX"):
            return Node("tyconst", t.line, ty=("int", path[0]), name=path[1])
        if len(path) == 1:
            return Node("var", t.line, name=path[0])
        return Node("path", t.line, path=path)

    def looks_like_struct_literal(self):
        a, b = self.peek(1), self.peek(2)
        return (a.kind == "punct" and a.val == "}") or (a.kind == "ident" and b.kind == "punct" and b.val in (":", ",", "}"))


# ------------------------------------------------------------------------------------------------
# emitter
# ------------------------------------------------------------------------------------------------

class Var:
    __slots__ = ("uid", "rust", "val", "mut", "ty")

    def __init__(self, uid, rust, val, mut, ty):
        self.uid, self.rust, self.val, self.mut, self.ty = uid, rust, val, mut, ty

    def with_val(self, val):
        return Var(self.uid, self.rust, val, self.mut, self.ty)


def lookup(env, name):
    for v in reversed(env):
        if v.rust == name:
            return v
    return None


def visible(env):
    seen, out = set(), []
    for v in reversed(env):
        if v.rust not in seen:
            seen.add(v.rust)
            out.append(v)
    return list(reversed(out))


def mentioned(node, acc):
    """identifiers used as variables below `node`, in order of first occurrence in the text (a list without repeats)"""
    if isinstance(node, Node):
        if node.kind == "var" and node.name not in acc:
            acc.append(node.name)
        elif node.kind == "swap":
            for n in (node.a, node.b):
                if n not in acc:
                    acc.append(n)
        for k, v in node.__dict__.items():
            if k != "impl":
                mentioned(v, acc)
    elif isinstance(node, (list, tuple)):
        for x in node:
            mentioned(x, acc)
    return acc


class Ctx:
    def __init__(self, kind, on_fall=None, on_value=None, on_break=None):
        self.kind, self.on_fall, self.on_value, self.on_break = kind, on_fall, on_value, on_break


def flat(val):
    return list(val) if isinstance(val, list) else [val]


def tup(vals):
    return "()" if not vals else vals[0] if len(vals) == 1 else "(" + ", ".join(vals) + ")"


class Unit:
    """One translation unit = the functions of one struct (impl style) or of one macro body."""

    def __init__(self, tr, consts, ty_params, self_struct):
        self.tr, self.consts, self.ty_params, self.self_struct = tr, consts, ty_params, self_struct


class FnEmitter:
    def __init__(self, tr, fn, body, literal_types):
        self.tr, self.fn, self.body, self.file = tr, fn, body, tr.file
        self.lit = literal_types         # id(node) -> TVar (pass 1 fills it, pass 2 reads the resolved types)
        self.defs, self.loop_count, self.uid = [], 0, 0
        self.loop_depth = 0
        self.imp = fn.impl

    def err(self, line, msg):
        raise TranslateError(self.file, line, msg)

    def new_uid(self):
        self.uid += 1
        return self.uid

    def fresh(self, st):
        v = f"v{st['n']}"
        st["n"] += 1
        return v

    # -- types --------------------------------------------------------------------------------------
    def norm_ty(self, ty):
        sub = getattr(self.imp, "subst", {})
        if ty == ("self",):
            return getattr(self.imp, "self_ty", ("struct", self.imp.self_name))
        if ty[0] == "int":
            return sub.get(ty[1], ty)
        if ty[0] == "vec":
            return ("vec", self.norm_ty(ty[1]))
        if ty[0] == "tparam":                                # T7: by position among the impl's type parameters
            if isinstance(ty[1], int):
                return ty
            names = [n for n, _ in getattr(self.imp, "tparams", [])]
            if ty[1] not in names:
                self.err(self.fn.line, f"`{ty[1]}` is not a type parameter of this impl")
            return ("tparam", names.index(ty[1]))
        if ty[0] == "option":                                # T8
            return ("option", self.norm_ty(ty[1]))
        if ty[0] == "assoc":                                 # I5
            a = getattr(self.imp, "assoc", {})
            if ty[1] in a:
                return self.norm_ty(a[ty[1]])
            # `IndexMut::Output` is the supertrait's (`Index`): the one `type <name> = …` among the other impls of this struct
            cands = [i for i in self.tr.impls_of(self.imp.self_name) if ty[1] in getattr(i, "assoc", {})]
            if len(cands) != 1:
                self.err(self.fn.line, f"`Self::{ty[1]}` is not defined by a translatable `type` item of this impl")
            return FnEmitter(self.tr, Node("fn", self.fn.line, name="type", impl=cands[0]), None, self.lit).norm_ty(cands[0].assoc[ty[1]])
        if ty[0] == "struct":
            if ty[1] in STD_RANGES:
                if ty[1] == "RangeFull":
                    return getattr(self.imp, "self_ty", ("struct", "RangeFull", None))
                if len(ty) < 3 or len(ty[2]) != 1:
                    self.err(self.fn.line, f"`{ty[1]}` needs one type argument")
                a = ty[2][0]
                elem = sub.get(a) if a.startswith("$") else ("int", a) if a in INT_TYPES else None
                if elem is None:
                    self.err(self.fn.line, f"`{ty[1]}<{a}>` is outside the translated subset")
                return ("struct", ty[1], elem)
            return ("struct", ty[1])
        return ty

    def lean_ty(self, ty, line):
        ty = resolve(ty)
        if isinstance(ty, TVar):
            return "?"
        if ty[0] != "int":
            self.err(line, "an integer type is required here")
        if ty[1].startswith("$"):
            return "t_" + ty[1][1:]
        s, b = INT_TYPES[ty[1]]
        return f"(IntTy.mk {'true' if s else 'false'} {b})"

    def unify(self, a, b, line):
        a, b = resolve(a), resolve(b)
        if a is b:
            return a
        if isinstance(a, TVar):
            if not (isinstance(b, TVar) or b[0] == "int"):
                self.err(line, "an integer literal is used where a non-integer value is expected")
            a.ref = b
            return b
        if isinstance(b, TVar):
            return self.unify(b, a, line)
        if a[0] == "vec" and b[0] == "vec":
            return ("vec", self.unify(a[1], b[1], line))
        if a != b:
            self.err(line, f"type mismatch: {self.show_ty(a)} vs {self.show_ty(b)} (mixed-type arithmetic needs an explicit `as`)")
        return a

    @staticmethod
    def show_ty(t):
        t = resolve(t)
        if not isinstance(t, TVar) and t[0] == "vec":
            return f"Vec<{FnEmitter.show_ty(t[1])}>"
        if not isinstance(t, TVar) and t[0] == "tparam":
            return f"type parameter #{t[1]}"
        return "{integer}" if isinstance(t, TVar) else t[1] if len(t) > 1 else t[0]

    def fields_of(self, ty, line):
        ty = resolve(ty)
        if isinstance(ty, TVar) or ty[0] != "struct":
            self.err(line, "a struct value is required here")
        if ty[1] in STD_RANGES:
            return [(f, ty[2]) for f in STD_RANGES[ty[1]]]
        s = self.tr.struct(ty[1], line)
        if not getattr(s, "tparams", None):
            return s.fields
        names = [n for n, _ in s.tparams]                    # T7: field types in terms of the struct's own parameter positions

        def pos(t):
            if t[0] == "tparam" and not isinstance(t[1], int):
                return ("tparam", names.index(t[1]))
            if t[0] == "vec":
                return ("vec", pos(t[1]))
            return t
        return [(f, pos(t)) for f, t in s.fields]

    def comps(self, ty, line):
        """the Lean types of the components a value of `ty` is made of (T1, T2, T4, T5)"""
        ty = resolve(ty)
        if isinstance(ty, TVar) or ty[0] == "int":
            return ["Int"]
        if ty == BOOL:
            return ["Bool"]
        if ty[0] == "tparam":
            return [f"E{ty[1]}"]
        if ty[0] == "option":
            return ["Option Int"]
        if ty[0] == "vec":
            el = resolve(ty[1])
            return ["Array Bool" if el == BOOL else f"Array E{el[1]}" if is_tparam(el) else "Array Int"]
        return [c for _, f in self.fields_of(ty, line) for c in self.comps(f, line)]

    def ty_binders(self):
        """T7: the implicit binders `{E0 … : Type} [BEq E0]` of every definition of a struct with type parameters ("" otherwise)"""
        tps = getattr(self.imp, "tparams", [])
        if not tps:
            return ""
        out = " {" + " ".join(f"E{i}" for i in range(len(tps))) + " : Type}"
        for i, (_, bounds) in enumerate(tps):
            if "PartialEq" in bounds or "Eq" in bounds:
                out += f" [BEq E{i}]"
        return out

    def lean_ret(self, ty):
        ty = resolve(ty)
        if ty == UNIT:
            return "Unit"
        return " × ".join(self.comps(ty, self.fn.line))

    def same(self, got, want, line, what):
        """`got` must be the type `want` (integer literals and element types are unified)"""
        if is_int(got) and is_int(want) or is_vec(got) and is_vec(want):
            return self.unify(got, want, line)
        if is_option(got) and is_option(want):
            return ("option", self.unify(resolve(got)[1], resolve(want)[1], line))
        if resolve(got) != resolve(want):
            self.err(line, what)
        return resolve(want)

    # -- expressions --------------------------------------------------------------------------------
    def expr(self, e, env, ctx, st, want=None):
        """-> (preamble, value, type); value = Lean term, or list of terms for a struct with several fields."""
        pre, val, ty = self.expr0(e, env, ctx, st, want)
        if want is not None and (is_int(ty) and is_int(want) or is_vec(ty) and is_vec(want)):
            ty = self.unify(ty, want, e.line)
        return pre, val, ty

    def is_int_expr(self, e, env, ctx, st):
        """dry run (on copies): is `e` an integer-valued expression?  Used to tell `!x` on integers (M14) from `!c` on conditions."""
        if e.kind in ("cmp", "and", "or", "boollit"):
            return False
        if e.kind == "not":
            return self.is_int_expr(e.e, env, ctx, st)
        try:
            _, _, ty = self.expr(e, list(env), ctx, dict(st))
        except TranslateError:
            return False
        return is_int(ty)

    def rebind(self, env, uid, val, st):
        """R4: a `&mut self` method call inside an expression gives its receiver variable a new value.  `env` is the private copy of the
        statement being translated (`stmts` copies it), so the rest of this statement and what follows it see the new value."""
        for i, x in enumerate(env):
            if x.uid == uid:
                env[i] = x.with_val(val)
        st["rebinds"] = st.get("rebinds", 0) + 1

    @staticmethod
    def strip_refs(e):
        while e.kind in ("deref", "ref"):
            e = e.e
        return e

    def place_of(self, e):
        """`x`, `*self`, `x.f`, `self.f` -> the expression itself (a place whose variable can be rebound), else None"""
        t = self.strip_refs(e)
        if t.kind == "var":
            return t
        if t.kind == "field" and self.strip_refs(t.e).kind == "var":
            return t
        return None

    def const_generic(self, name):
        for i, (n, ty) in enumerate(self.imp.consts):
            if n == name:
                return f"c{i}", ty
        return None

    def expr0(self, e, env, ctx, st, want):
        k = e.kind
        if k == "rawval":
            return [], e.val, e.ty
        if k == "incr":                                   # S10: the step of a counted loop; `i < n` holds, so `i + 1` cannot overflow
            pre, v, ty = self.expr(e.e, env, ctx, st)
            return pre, f"({v} + 1)", ty
        if k == "decr":                                   # S10': the step of a `.rev()` loop; `#n < #i` holds, so `#i - 1` cannot underflow
            pre, v, ty = self.expr(e.e, env, ctx, st)
            return pre, f"({v} - 1)", ty
        if k == "lit":                                                                     # M1
            tv = self.lit.setdefault(id(e), TVar())
            if e.suffix:
                self.unify(tv, ("int", e.suffix), e.line)
            t = resolve(tv)
            if not isinstance(t, TVar) and not t[1].startswith("$"):
                s, b = INT_TYPES[t[1]]
                lo, hi = (-(1 << (b - 1)), (1 << (b - 1)) - 1) if s else (0, (1 << b) - 1)
                if not lo <= e.value <= hi:
                    self.err(e.line, f"literal {e.value} does not fit `{t[1]}`")
            return [], f"({e.value} : Int)", tv
        if k == "boollit":                                                                 # B1
            return [], e.value, BOOL
        if k == "index":                                                                   # V1
            p1, v1, t1 = self.expr(e.e, env, ctx, st)
            if not is_vec(t1):
                self.err(e.line, "indexing of a value that is not a `Vec` is outside the translated subset")
            before = st.get("rebinds", 0)
            p2, v2, t2 = self.expr(e.idx, env, ctx, st, USIZE)
            if st.get("rebinds", 0) != before:
                self.err(e.line, "an index expression that changes a variable through `&mut` is outside the translated subset")
            if not is_int(t2):
                self.err(e.line, "an index that is not an integer (ranges / slices are outside the translated subset)")
            self.unify(t2, USIZE, e.line)
            x = self.fresh(st)
            self.tr.uses_vec = True
            return p1 + p2 + [("bind", f"SrcVec.index {v1} {v2}", x)], x, resolve(t1)[1]
        if k == "vecrep":                                                                  # V3
            elem = resolve(want)[1] if want is not None and is_vec(want) else None
            p1, v1, t1 = self.expr(e.x, env, ctx, st, elem)
            if not (is_int(t1) or resolve(t1) == BOOL or is_tparam(t1)):
                self.err(e.line, "`vec![x; n]` with an element that is neither an integer nor a `bool`")
            p2, v2, t2 = self.expr(e.n, env, ctx, st, USIZE)
            if not is_int(t2):
                self.err(e.line, "`vec![x; n]`: the length is not an integer")
            self.unify(t2, USIZE, e.line)
            self.tr.uses_vec = True
            return p1 + p2, f"(SrcVec.replicate {v2} {v1})", ("vec", t1)
        if k == "not" and self.is_int_expr(e.e, env, ctx, st):                              # M14: `!e` on an integer
            pre, v, ty = self.expr(e.e, env, ctx, st, want if want is not None and is_int(want) else None)
            return pre, f"(IntTy.wrap {self.lean_ty(ty, e.line)} (-{v} - 1))", ty
        if k in ("cmp", "and", "or", "not"):                                               # B2
            pre, c = self.cond(e, env, ctx, st)
            return pre, f"(decide ({c}))", BOOL
        if k == "var" and e.name == "None" and lookup(env, "None") is None:                 # T8
            inner = resolve(want)[1] if want is not None and is_option(want) else self.lit.setdefault(id(e), TVar())
            return [], "none", ("option", inner)
        if k == "call" and e.path == ["Some"] and len(e.args) == 1:                         # T8
            inner = resolve(want)[1] if want is not None and is_option(want) else None
            pre, v, ty = self.expr(e.args[0], env, ctx, st, inner)
            if not is_int(ty):
                self.err(e.line, "`Some(e)` with a payload that is not an integer is outside the translated subset")
            return pre, f"(some {v})", ("option", ty)
        if k == "closure":
            self.err(e.line, "a closure is only translated as the argument of `.iter().map(…).sum()`")
        if k == "var":
            v = lookup(env, e.name)
            if v is not None:
                return [], v.val, v.ty
            c = self.const_generic(e.name)
            if c:
                return [], c[0], c[1]
            self.err(e.line, f"unknown variable `{e.name}`")
        if k == "path":
            if len(e.path) == 2 and e.path[0] in ("Self", self.imp.self_name):
                for imp in self.tr.impls_of(self.imp.self_name):
                    if imp.trait is None and e.path[1] in imp.consts_def:
                        cd = imp.consts_def[e.path[1]]
                        ce = self.tr.const_expr(cd)
                        sub = FnEmitter(self.tr, Node("fn", cd.line, name="const", impl=imp), None, self.lit)
                        p, v, ty = sub.expr(ce, [], Ctx("const"), st, ("struct", imp.self_name))
                        if p:
                            self.err(cd.line, f"the initialiser of `{e.path[1]}` can panic: outside the translated subset")
                        return [], v, ty
            self.err(e.line, f"path `{'::'.join(e.path)}` is outside the translated subset")
        if k == "tyconst":                                                                 # M11
            if e.name not in ("MIN", "MAX"):
                self.err(e.line, f"associated constant `{e.name}` is outside the translated subset (MIN, MAX)")
            ty = self.norm_ty(e.ty)
            return [], f"(IntTy.{'minVal' if e.name == 'MIN' else 'maxVal'} {self.lean_ty(ty, e.line)})", ty
        if k in ("ref", "deref"):                                                          # R3
            return self.expr(e.e, env, ctx, st, want)
        if k == "field":                                                                   # R2
            pre, val, ty = self.expr(e.e, env, ctx, st)
            fs = self.fields_of(ty, e.line)
            for i, (n, fty) in enumerate(fs):
                if n == e.name:
                    return pre, flat(val)[i], fty
            self.err(e.line, f"no field `{e.name}`")
        if k == "structlit":                                                               # R1
            sname = self.imp.self_name if e.name == "Self" else e.name
            fs = self.fields_of(("struct", sname), e.line)
            if sorted(n for n, _ in e.fields) != sorted(n for n, _ in fs):
                self.err(e.line, "the struct literal must initialise exactly the fields of the struct")
            pre, got = [], {}
            for n, fe in e.fields:
                p, v, fty = self.expr(fe, env, ctx, st, dict(fs)[n])
                self.same(fty, dict(fs)[n], fe.line, f"field `{n}` is initialised with a value of another type")
                pre += p
                got[n] = v
            vals = [got[n] for n, _ in fs]
            return pre, (vals[0] if len(vals) == 1 else vals), ("struct", sname)
        if k == "cast":                                                                    # M2
            pre, v, ty = self.expr(e.e, env, ctx, st)
            if not is_int(ty):
                self.err(e.line, "`as` applied to a value that is not an integer")
            cty = self.norm_ty(e.ty)
            if isinstance(resolve(ty), TVar):
                self.unify(ty, cty, e.line)       # `1 as u64`: the literal takes the target type (any integer type gives the same value if it fits)
            return pre, f"(IntTy.wrap {self.lean_ty(cty, e.line)} {v})", cty
        if k == "neg":
            pre, v, ty = self.expr(e.e, env, ctx, st, want)
            if is_int(ty):                                                                 # M6
                x = self.fresh(st)
                return pre + [("bind", f"checked {self.lean_ty(ty, e.line)} (-{v})", x)], x, ty
            return self.struct_op(e, "Neg", "neg", [(pre, v, ty)], env, st)
        if k == "bin":
            p1, v1, t1 = self.expr(e.l, env, ctx, st, want if want is not None and is_int(want) else None)
            if is_int(t1):
                p2, v2, t2 = self.expr(e.r, env, ctx, st, t1)
                ty = self.unify(t1, t2, e.line)
                T = self.lean_ty(ty, e.line)
                x = self.fresh(st)
                if e.op in ("+", "-", "*"):                                                # M3
                    return p1 + p2 + [("bind", f"checked {T} ({v1} {e.op} {v2})", x)], x, ty
                if e.op == "/":                                                            # M4
                    return p1 + p2 + [("guard", f"{v2} = 0", "divzero"), ("bind", f"checked {T} (Int.tdiv {v1} {v2})", x)], x, ty
                st["n"] -= 1                                                               # M5 (no fresh name needed)
                return (p1 + p2 + [("guard", f"{v2} = 0", "divzero"),
                                   ("guard", f"{T}.signed = true ∧ {v1} = IntTy.minVal {T} ∧ {v2} = -1", "overflow")],
                        f"(Int.tmod {v1} {v2})", ty)
            p2, v2, t2 = self.expr(e.r, env, ctx, st, t1)
            tr_, fn_ = BINOP_TRAIT[e.op]
            return self.struct_op(e, tr_, fn_, [(p1, v1, t1), (p2, v2, t2)], env, st)
        if k == "bit":                                                                     # M8
            p1, v1, t1 = self.expr(e.l, env, ctx, st, want)
            p2, v2, t2 = self.expr(e.r, env, ctx, st, t1)
            ty = self.unify(t1, t2, e.line)
            T = self.lean_ty(ty, e.line)
            f = {"^": "Nat.xor", "|": "Nat.lor", "&": "Nat.land"}[e.op]
            return p1 + p2, f"(IntTy.wrap {T} (Int.ofNat ({f} (wrapU {T}.bits {v1}).toNat (wrapU {T}.bits {v2}).toNat)))", ty
        if k == "shift":                                                                   # M9
            p1, v1, t1 = self.expr(e.l, env, ctx, st, want)
            p2, v2, t2 = self.expr(e.r, env, ctx, st)
            if not (is_int(t1) and is_int(t2)):
                self.err(e.line, "shift of a value that is not an integer")
            T = self.lean_ty(t1, e.line)
            g = [("guard", f"¬ (0 ≤ {v2} ∧ {v2} < ({T}.bits : Int))", "overflow")]
            if e.op == ">>":
                return p1 + p2 + g, f"({v1} / 2 ^ ({v2}).toNat)", t1
            return p1 + p2 + g, f"(IntTy.wrap {T} ({v1} * 2 ^ ({v2}).toNat))", t1
        if k == "mcall":
            return self.method_call(e, env, ctx, st, want)
        if k == "call":
            return self.path_call(e, env, ctx, st, want)
        if k == "assert":                                                                  # M12
            pre, c = self.cond(e.cond, env, ctx, st)
            return pre + [("guard", f"¬ ({c})", "assert")], "()", UNIT
        if k == "range":
            self.err(e.line, "a range value is only supported as the receiver of a method call")
        self.err(e.line, f"expression `{k}` has no translation rule here")

    def struct_op(self, e, trait, fname, operands, env, st):                               # R5
        t0 = resolve(operands[0][2])
        if isinstance(t0, TVar) or t0[0] != "struct":
            self.err(e.line, "operator applied to a value that is neither an integer nor a struct of this file")
        fn = self.tr.find_fn(t0[1], fname, e.line, trait=trait)
        pre, val, ty, new_self = self.call_fn(fn, operands[0], operands[1:], e.line, st)
        if new_self is not None:
            self.err(e.line, f"`{fname}` takes `&mut self`")
        return pre, val, ty

    def call_fn(self, fn, recv, args, line, st):
        """Common part of R4/R5: `recv`, `args` are translated (preamble, value, type) triples.  -> (pre, value, type, new receiver value or None)"""
        callee = self.tr.request(fn, line, self.fn, self.loop_depth > 0)
        pre, terms = [], []
        if (fn.recv is None) != (recv is None):
            self.err(line, f"`{fn.name}` is {'not ' if fn.recv is None else ''}a method")
        if recv is not None:
            pre += recv[0]
            terms += flat(recv[1])
        if len(args) != len(fn.params):
            self.err(line, f"`{fn.name}` takes {len(fn.params)} arguments, {len(args)} given")
        sub = FnEmitter(self.tr, fn, None, self.lit)
        for (p, v, ty), (_, _, pty) in zip(args, fn.params):
            pty = sub.norm_ty(pty)
            self.same(ty, pty, line, f"argument of `{fn.name}` has the wrong type")
            pre += p
            terms += flat(v)
        consts = [f"c{i}" for i in range(len(self.imp.consts))]
        call = " ".join([callee, "fuel"] + self.tr.extra_params(self) + consts + terms)
        rty = sub.norm_ty(fn.ret)
        self_n = len(sub.comps(sub.norm_ty(("self",)), line)) if fn.recv == "refmut" else 0
        ret_n = 0 if rty == UNIT else len(sub.comps(rty, line))
        names = [self.fresh(st) for _ in range(self_n + ret_n)]
        pre.append(("bind", call, tup(names) if names else "_"))
        new_self = (names[0] if self_n == 1 else names[:self_n]) if self_n else None
        rv = names[self_n:]
        val = "()" if ret_n == 0 else rv[0] if ret_n == 1 else rv
        return pre, val, rty, new_self

    def method_call(self, e, env, ctx, st, want):
        if getattr(e, "turbofish", None) is not None and e.name not in ("product", "sum"):
            self.err(e.line, "turbofish is outside the translated subset")
        if e.name == "product" and not e.args and e.recv.kind == "mcall" and e.recv.name == "iter" and not e.recv.args:   # A3
            p1, v1, t1 = self.expr(e.recv.recv, env, ctx, st)
            if not is_vec(t1) or not is_int(resolve(t1)[1]) or isinstance(resolve(resolve(t1)[1]), TVar):
                self.err(e.line, "`.iter().product()` is only translated on a `Vec` / array / slice of a primitive integer type")
            elem = resolve(resolve(t1)[1])
            if getattr(e, "turbofish", None) is not None:
                self.same(self.norm_ty(e.turbofish), elem, e.line, "`.product::<t>()` with a type that is not the element type")
            x = self.fresh(st)
            self.tr.uses_arr = True
            return p1 + [("bind", f"SrcVec.product {self.lean_ty(elem, e.line)} {v1}", x)], x, elem
        if (e.name == "sum" and not e.args and e.recv.kind == "mcall" and e.recv.name == "map" and len(e.recv.args) == 1 and
                e.recv.args[0].kind == "closure" and e.recv.recv.kind == "mcall" and e.recv.recv.name == "iter" and not e.recv.recv.args):   # A5
            cl = e.recv.args[0]
            p1, v1, t1 = self.expr(e.recv.recv.recv, env, ctx, st)
            if not is_vec(t1) or not is_int(resolve(t1)[1]):
                self.err(e.line, "`.iter().map(…).sum()` is only translated on a `Vec` / array / slice of integers")
            x = self.fresh(st)
            pb, vb, tb = self.expr(cl.body, env + [Var(self.new_uid(), cl.param, x, False, resolve(t1)[1])], ctx, st,
                                   self.norm_ty(e.turbofish) if getattr(e, "turbofish", None) is not None else None)
            if pb:
                self.err(cl.line, "a closure body that can panic or calls a function is outside the translated subset")
            if not is_int(tb) or isinstance(resolve(tb), TVar):
                self.err(cl.line, "the closure of `.map(…).sum()` must return a primitive integer")
            if getattr(e, "turbofish", None) is not None:
                self.same(self.norm_ty(e.turbofish), tb, e.line, "`.sum::<t>()` with a type that is not the closure's result type")
            r = self.fresh(st)
            self.tr.uses_arr = True
            return p1 + [("bind", f"SrcVec.sum {self.lean_ty(tb, e.line)} (Array.map (fun {x} => {vb}) {v1})", r)], r, resolve(tb)
        if e.recv.kind == "range" and e.name == "collect" and not e.args:                  # V4: `(a..b).collect()`
            r = e.recv
            if want is None or not is_vec(want) or r.inclusive:
                self.err(e.line, "`(a..b).collect()` is only translated where a `Vec` of integers is expected (struct field, annotated "
                                 "`let`, returned value)")
            elem = resolve(want)[1]
            pl, vl, tl = self.expr(r.lo, env, ctx, st, elem)
            ph, vh, th = self.expr(r.hi, env, ctx, st, elem)
            if not (is_int(tl) and is_int(th) and is_int(elem)):
                self.err(r.line, "range bounds that are not integers")
            self.unify(self.unify(tl, th, r.line), elem, r.line)
            self.tr.uses_vec = True
            return pl + ph, f"(SrcVec.range {vl} {vh})", ("vec", elem)
        if e.recv.kind == "range":                                                        # `(lo..hi).m(…)`: the range value is built in place
            r = e.recv
            pl, vl, tl = self.expr(r.lo, env, ctx, st)
            ph, vh, th = self.expr(r.hi, env, ctx, st, tl if is_int(tl) else None)
            if not (is_int(tl) and is_int(th)):
                self.err(r.line, "range bounds that are not integers")
            p1, v1, t1 = pl + ph, [vl, vh], ("struct", "RangeInclusive" if r.inclusive else "Range", resolve(self.unify(tl, th, r.line)))
        else:
            p1, v1, t1 = self.expr(e.recv, env, ctx, st)
        if is_int(t1):
            if e.name == "rem_euclid":                                                     # M13
                if len(e.args) != 1:
                    self.err(e.line, "`.rem_euclid` takes one argument")
                p2, v2, t2 = self.expr(e.args[0], env, ctx, st, t1)
                ty = self.unify(t1, t2, e.line)
                T = self.lean_ty(ty, e.line)
                return (p1 + p2 + [("guard", f"{v2} = 0", "divzero"),
                                   ("guard", f"{T}.signed = true ∧ {v1} = IntTy.minVal {T} ∧ {v2} = -1", "overflow")],
                        f"(Int.emod {v1} {v2})", ty)
            if e.name in ("wrapping_add", "wrapping_sub", "wrapping_mul", "max", "min"):
                if len(e.args) != 1:
                    self.err(e.line, f"`.{e.name}` takes one argument")
                p2, v2, t2 = self.expr(e.args[0], env, ctx, st, t1)
                ty = self.unify(t1, t2, e.line)
                if e.name in ("max", "min"):                                               # M10
                    return p1 + p2, f"({e.name} {v1} {v2})", ty
                op = {"wrapping_add": "+", "wrapping_sub": "-", "wrapping_mul": "*"}[e.name]   # M7
                return p1 + p2, f"(IntTy.wrap {self.lean_ty(ty, e.line)} ({v1} {op} {v2}))", ty
            if e.name in BIT_METHODS and len(e.args) == 1:                                 # M8': `x.bitand(y)` = `x & y`
                pre, v, ty = self.expr(Node("bit", e.line, op=BIT_METHODS[e.name], l=Node("rawval", e.line, val=v1, ty=t1), r=e.args[0]),
                                       env, ctx, st, want)
                return p1 + pre, v, ty
            if e.name in ("count_ones", "trailing_zeros") and not e.args:                  # M15, M16 (trusted primitives of ArrPrelude)
                if isinstance(resolve(t1), TVar):
                    self.err(e.line, f"`.{e.name}()` on an integer literal of unknown type")
                self.tr.uses_arr = True
                f = "SrcInt.countOnes" if e.name == "count_ones" else "SrcInt.trailingZeros"
                return p1, f"({f} {self.lean_ty(t1, e.line)} {v1})", ("int", "u32")
            self.err(e.line, f"method `.{e.name}()` on an integer is outside the translated subset")
        t1r = resolve(t1)
        if is_vec(t1r):
            if e.name == "len" and not e.args:                                             # V2
                self.tr.uses_vec = True
                return p1, f"(SrcVec.len {v1})", USIZE
            if e.name == "contains" and len(e.args) == 1 and is_int(t1r[1]):               # A2
                p2, v2, t2 = self.expr(e.args[0], env, ctx, st, t1r[1])
                if not is_int(t2):
                    self.err(e.line, "`.contains(&x)`: `x` is not an integer")
                self.unify(t1r[1], t2, e.line)
                self.tr.uses_arr = True
                return p1 + p2, f"(SrcVec.contains {v1} {v2})", BOOL
            if e.name in ("to_vec", "clone") and not e.args:                               # A4: a copy is the same value
                return p1, v1, t1r
            self.err(e.line, f"method `.{e.name}()` on a `Vec` is outside the translated subset here (`.len()`; `.resize(n, x)` and "
                             "`.push(x)` as statements)")
        if isinstance(t1r, TVar) or t1r[0] != "struct":
            self.err(e.line, f"method `.{e.name}()` on a value that is not a struct of this file is outside the translated subset")
        if t1r[1] == "RangeInclusive" and e.name in ("start", "end") and not e.args:      # accessors of std's RangeInclusive
            return p1, flat(v1)[0 if e.name == "start" else 1], t1r[2]
        fn = self.tr.find_method(t1r, e.name, e.line)
        args = [self.expr(a, env, ctx, st, FnEmitter(self.tr, fn, None, self.lit).norm_ty(pt) if is_int(pt) else None)
                for a, (_, _, pt) in zip(e.args, fn.params)]
        if len(args) != len(e.args):
            self.err(e.line, f"`{fn.name}` takes {len(fn.params)} arguments")
        if fn.recv != "refmut":
            pre, val, ty, _ = self.call_fn(fn, (p1, v1, t1), args, e.line, st)
            return pre, val, ty
        # R4, `&mut self`: the receiver must be a `mut` variable (or `self`); it is read AFTER the arguments have been evaluated
        # (two-phase borrow: `x.m(x.m(a))` runs the inner call first) and rebound to the struct value the callee returns
        rv = self.strip_refs(e.recv)
        var = lookup(env, rv.name) if rv.kind == "var" else None
        if var is None or p1:
            self.err(e.line, f"`{fn.name}` takes `&mut self`: its receiver must be a plain variable in the translated subset")
        if not var.mut:
            self.err(e.line, f"`{fn.name}` takes `&mut self` but `{rv.name}` is not mutable")
        pre, val, ty, new_self = self.call_fn(fn, ([], var.val, var.ty), args, e.line, st)
        self.rebind(env, var.uid, new_self, st)
        return pre, val, ty

    def path_call(self, e, env, ctx, st, want=None):                                       # R4
        if e.path == ["Vec", "new"] and not e.args:                                        # V5
            elem = self.lit.setdefault(id(e), TVar())       # fixed by pass 1 (annotation, `push`, field …); an integer type by default
            if want is not None and is_vec(want):
                self.unify(elem, resolve(want)[1], e.line) if is_int(resolve(want)[1]) else None
                elem = resolve(want)[1] if not is_int(resolve(want)[1]) else elem
            ty = ("vec", elem)
            return [], f"(#[] : {self.comps(ty, e.line)[0]})", ty
        if len(e.path) == 2 and e.path[0] in ("Self", self.imp.self_name):
            fn = self.tr.find_fn(self.imp.self_name, e.path[1], e.line)
            sub = FnEmitter(self.tr, fn, None, self.lit)
            if fn.recv is not None:
                self.err(e.line, "calling a method through its path is outside the translated subset")
            if len(e.args) != len(fn.params):
                self.err(e.line, f"`{fn.name}` takes {len(fn.params)} arguments, {len(e.args)} given")
            args = [self.expr(a, env, ctx, st, sub.norm_ty(pt) if is_int(pt) else None) for a, (_, _, pt) in zip(e.args, fn.params)]
            pre, val, ty, _ = self.call_fn(fn, None, args, e.line, st)
            return pre, val, ty
        self.err(e.line, f"call of `{'::'.join(e.path)}` is outside the translated subset")

    def cond(self, e, env, ctx, st):
        k = e.kind
        if k == "cmp":
            p1, v1, t1 = self.expr(e.l, env, ctx, st)
            p2, v2, t2 = self.expr(e.r, env, ctx, st, t1 if is_int(t1) else None)
            op = {"==": "=", "!=": "≠", "<": "<", "<=": "≤", ">": ">", ">=": "≥"}[e.op]
            if is_int(t1):
                self.unify(t1, t2, e.line)
                return p1 + p2, f"{v1} {op} {v2}"
            if resolve(t1) == BOOL and resolve(t2) == BOOL and e.op in ("==", "!="):
                return p1 + p2, f"{v1} {op} {v2}"
            if is_vec(t1) and is_vec(t2) and e.op in ("==", "!="):                          # B4: `Vec` / array equality
                self.unify(t1, t2, e.line)
                el = resolve(resolve(t1)[1])
                if is_tparam(el):
                    b = getattr(self.imp, "tparams", [])[el[1]][1]
                    if "PartialEq" not in b and "Eq" not in b:
                        self.err(e.line, "`==` on vectors of a type parameter without a `PartialEq` bound")
                    c = f"({v1} == {v2}) = true"
                else:
                    c = f"{v1} = {v2}"
                return p1 + p2, c if e.op == "==" else f"¬ ({c})"
            if not is_struct(t1) or resolve(t1) != resolve(t2) or e.op not in ("==", "!="):                      # R7
                self.err(e.line, "comparison of values that are not integers")
            if "PartialEq" not in self.tr.struct(resolve(t1)[1], e.line).derives:
                self.err(e.line, "`==` on a struct without `#[derive(PartialEq)]` is outside the translated subset")
            c = " ∧ ".join(f"{a} = {b}" for a, b in zip(flat(v1), flat(v2)))
            return p1 + p2, c if e.op == "==" else f"¬ ({c})"
        if k == "not":
            p, c = self.cond(e.e, env, ctx, st)
            return p, f"¬ ({c})"
        if k in ("and", "or"):
            p1, c1 = self.cond(e.l, env, ctx, st)
            p2, c2 = self.cond(e.r, env, ctx, st)
            if p2:
                self.err(e.line, "the right operand of `&&` / `||` can panic or call a function: short-circuit evaluation is outside the translated subset")
            return p1, f"({c1}) {'∧' if k == 'and' else '∨'} ({c2})"
        if k == "mcall" and e.name == "is_empty" and not e.args:
            p, v, ty = self.expr(e.recv, env, ctx, st)
            ty = resolve(ty)
            if isinstance(ty, TVar) or ty[0] != "struct" or ty[1] not in ("Range", "RangeInclusive"):
                self.err(e.line, "`.is_empty()` is only translated for `Range` and `RangeInclusive`")
            return p, f"¬ ({v[0]} {'<' if ty[1] == 'Range' else '≤'} {v[1]})"
        if k in ("var", "field", "index", "mcall", "boollit", "deref", "ref", "call"):     # B3: a `bool` value used as a condition
            p, v, ty = self.expr(e, env, ctx, st)
            if resolve(ty) == BOOL:
                return p, f"{v} = true"
        self.err(e.line, "a condition must be built from comparisons and `bool` values with `!`, `&&`, `||`")

    @staticmethod
    def wrap(pre, body, ind):
        out = []
        for step in pre:
            if step[0] == "guard":
                out.append(f"{ind}if {step[1]} then .error .{step[2]} else")
            else:
                out += [f"{ind}match {step[1]} with", f"{ind}| .error e => .error e", f"{ind}| .ok {step[2]} =>"]
        return out + body

    # -- statements ---------------------------------------------------------------------------------
    def block(self, blk, env, ctx, st, after, ind):
        outer = env

        def leave(env2):
            by_uid = {v.uid: v for v in env2}
            return [by_uid.get(v.uid, v) for v in outer]
        aft = None if after is None else (lambda env2: after(leave(env2)))
        if after is None:
            octx = ctx
            fall = (lambda env2: octx.on_fall(leave(env2))) if octx.on_fall else None
            ctx = Ctx(octx.kind, fall, octx.on_value, octx.on_break)
        return self.stmts(blk.stmts, blk.tail, blk.line, env, ctx, st, aft, ind)

    def bind_names(self, ty, st):
        ty = resolve(ty)
        if is_scalar(ty):
            return self.fresh(st)
        n = len(self.fields_of(ty, self.fn.line))
        names = [self.fresh(st) for _ in range(n)]
        return names[0] if n == 1 else names

    @staticmethod
    def lets(names, val, ind):
        return [f"{ind}let {n} := {v}" for n, v in zip(flat(names), flat(val))]

    def assign(self, target, new_val_fn, env, line):
        """-> env with `target` (var | *self | x.f) rebound; new_val_fn(old value, type) -> (lines, new value)"""
        t = target
        while t.kind in ("deref", "ref"):
            t = t.e
        fld = None
        if t.kind == "field":
            fld, t = t.name, t.e
            while t.kind in ("deref", "ref"):
                t = t.e
        if t.kind != "var":
            self.err(line, "only variables, `*self` and fields of variables can be assigned to in the translated subset")
        v0 = lookup(env, t.name)
        if v0 is None:
            self.err(line, f"assignment to unknown variable `{t.name}`")
        if not v0.mut:
            self.err(line, f"assignment to `{t.name}`, which is not mutable")
        if fld is None:
            lines, nv = new_val_fn(v0.val, v0.ty)
        else:
            fs = self.fields_of(v0.ty, line)
            idx = [i for i, (n, _) in enumerate(fs) if n == fld]
            if not idx:
                self.err(line, f"no field `{fld}`")
            old = flat(v0.val)
            lines, one = new_val_fn(old[idx[0]], fs[idx[0]][1])
            old[idx[0]] = one
            nv = old[0] if len(old) == 1 else old
        return lines, [x.with_val(nv) if x.uid == v0.uid else x for x in env]

    def stmts(self, stmts, tail, line, env, ctx, st, after, ind):
        if not stmts:
            if tail is not None:
                if after is not None:
                    self.err(tail.line, "the value of a block that is not in tail position is dropped: outside the translated subset")
                if ctx.on_value is None:
                    self.err(tail.line, "a `while` body that ends in a value is outside the translated subset")
                env = list(env)
                pre, v, ty = self.expr(tail, env, ctx, st, self.norm_ty(self.fn.ret) if is_scalar(self.norm_ty(self.fn.ret)) else None)
                return self.wrap(pre, [ind + ctx.on_value(env, v, ty, tail.line)], ind)
            if after is not None:
                return after(env)
            if ctx.on_fall is None:
                self.err(line, "control reaches the end of the function body without a value")
            return [ind + x for x in ctx.on_fall(env)]
        s, rest = stmts[0], stmts[1:]
        k = s.kind
        env = list(env)          # private copy: `&mut self` calls inside this statement's expressions rebind their receiver in it (R4)

        def go(env2):
            return self.stmts(rest, tail, line, env2, ctx, st, after, ind)

        if k == "scope":                                                                    # first copy of a `loop` body (S7')
            return self.block(s.body, env, ctx, st, go, ind)
        if k == "break" and ctx.on_break is not None:                                       # S11: leave the innermost `while` / `for`
            if rest:
                self.err(rest[0].line, "statements after `break` are outside the translated subset")
            return [ind + x for x in ctx.on_break(env)]
        if k in ("break", "continue"):
            self.err(s.line, f"`{k}` here is outside the translated subset (`break` inside a `while` / `for` body; `if c {{ break; }}` at the "
                             "head or tail of a `loop`)")
        if k == "for":                                                                      # S10: counted loop
            if s.iter.kind == "mcall" and self.iter_shape(s.iter) is not None:               # S13
                if not hasattr(s, "desugared"):
                    s.desugared = self.iter_for(s)
                return self.stmts(s.desugared + rest, tail, line, env, ctx, st, after, ind)
            it = s.iter
            rev = it.kind == "mcall" and it.name == "rev" and not it.args and it.recv.kind == "range"        # S10'
            if rev:
                it = it.recv
            if it.kind != "range" or it.inclusive or s.pat.kind not in ("pvar", "pwild"):
                self.err(s.line, "only `for i in a..b` / `for _ in a..b` is in the translated subset")
            if not hasattr(s, "tag"):
                self.tr.for_count = getattr(self.tr, "for_count", 0) + 1
                s.tag = self.tr.for_count
            ni, nn = f"#i{s.tag}", f"#n{s.tag}"
            ci, cn = Node("var", s.line, name=ni), Node("var", s.line, name=nn)
            inner = ([Node("let", s.line, pat=s.pat, mut=False, expr=ci, ann=None)] if s.pat.kind == "pvar" else []) + list(s.body.stmts)
            if s.body.tail is not None:
                self.err(s.body.tail.line, "a `for` body that ends in a value is outside the translated subset")
            if rev:     # `let #n = a; let mut #i = b; while #n < #i { #i = #i - 1; let i = #i; B }`
                inner = [Node("expr", s.line, expr=Node("assign", s.line, op="=", target=ci, expr=Node("decr", s.line, e=ci)))] + inner
                des = [Node("let", s.line, pat=Node("pvar", s.line, name=nn), mut=False, expr=it.lo, ann=None),
                       Node("let", s.line, pat=Node("pvar", s.line, name=ni), mut=True, expr=it.hi, ann=None),
                       Node("while", s.line, cond=Node("cmp", s.line, op="<", l=cn, r=ci), body=Node("block", s.line, stmts=inner, tail=None))]
                return self.stmts(des + rest, tail, line, env, ctx, st, after, ind)
            inner.append(Node("expr", s.line, expr=Node("assign", s.line, op="=", target=ci, expr=Node("incr", s.line, e=ci))))
            des = [Node("let", s.line, pat=Node("pvar", s.line, name=ni), mut=True, expr=it.lo, ann=None),
                   Node("let", s.line, pat=Node("pvar", s.line, name=nn), mut=False, expr=it.hi, ann=None),
                   Node("while", s.line, cond=Node("cmp", s.line, op="<", l=ci, r=cn), body=Node("block", s.line, stmts=inner, tail=None))]
            return self.stmts(des + rest, tail, line, env, ctx, st, after, ind)
        if k == "let":
            if s.pat.kind == "ptuple":
                self.err(s.line, "tuple patterns are outside the translated subset")
            ann = self.norm_ty(s.ann) if getattr(s, "ann", None) is not None else None
            pre, v, ty = self.expr(s.expr, env, ctx, st, ann if ann is not None and is_scalar(ann) else None)
            if ann is not None:                                                             # S1': the annotation must be the initialiser's type
                self.same(ty, ann, s.line, "the type annotation of `let` is not the type of its initialiser")
            if s.pat.kind == "pwild":
                return self.wrap(pre, go(env), ind)
            names = self.bind_names(ty, st)
            env2 = env + [Var(self.new_uid(), s.pat.name, names, s.mut, ty)]
            return self.wrap(pre, self.lets(names, v, ind) + go(env2), ind)
        if k == "expr" and s.expr.kind == "assign" and self.strip_refs(s.expr.target).kind == "index":
            return self.index_assign(s.expr, env, ctx, st, go, ind)
        if k == "expr" and s.expr.kind == "mcall" and s.expr.name in BIT_ASSIGN_METHODS and len(s.expr.args) == 1:   # M8': `x.bitand_assign(y);` = `x &= y;`
            des = Node("expr", s.line, expr=Node("assign", s.line, op=BIT_ASSIGN_METHODS[s.expr.name], target=s.expr.recv, expr=s.expr.args[0]))
            return self.stmts([des] + rest, tail, line, env, ctx, st, after, ind)
        if k == "expr" and s.expr.kind == "mcall" and s.expr.name in ("resize", "push", "fill") and self.place_of(s.expr.recv) is not None:
            place = self.place_of(s.expr.recv)
            _, v0, t0 = self.expr(place, env, ctx, st)
            if is_vec(t0):
                return self.vec_stmt(s.expr, place, v0, resolve(t0)[1], env, ctx, st, go, ind)
        if k == "expr" and s.expr.kind == "assign":
            a = s.expr
            box = {}

            def new_val(old, ty):
                if is_int(ty):
                    if a.op == "=":
                        pre, v, t2 = self.expr(a.expr, env, ctx, st, ty)
                        self.unify(ty, t2, a.line)
                    else:
                        if a.op[0] not in "+-*/%|&^":
                            self.err(a.line, f"`{a.op}` is outside the translated subset")
                        rhs = Node("bit" if a.op[0] in "|&^" else "bin", a.line, op=a.op[0], l=Node("rawval", a.line, val=old, ty=ty), r=a.expr)
                        pre, v, _ = self.expr(rhs, env, ctx, st, ty)
                    n = self.fresh(st)
                    box["pre"] = pre
                    return self.lets(n, v, ind), n
                if a.op == "=":
                    pre, v, t2 = self.expr(a.expr, env, ctx, st, ty if is_scalar(ty) else None)
                    self.same(t2, ty, a.line, "assignment of a value of another type")
                    names = self.bind_names(ty, st)
                    box["pre"] = pre
                    return self.lets(names, v, ind), names
                tr_, fn_ = ASSIGN_TRAIT.get(a.op, (None, None))                             # R5: `x op= e` on a struct
                if tr_ is None or not is_struct(ty):
                    self.err(a.line, f"`{a.op}` is outside the translated subset")
                fn = self.tr.find_fn(resolve(ty)[1], fn_, a.line, trait=tr_)
                arg = self.expr(a.expr, env, ctx, st)
                pre, _, _, new_self = self.call_fn(fn, ([], old, ty), [arg], a.line, st)
                if new_self is None:
                    self.err(a.line, f"`{fn_}` does not take `&mut self`")
                box["pre"] = pre
                return [], new_self
            lines, env2 = self.assign(a.target, new_val, env, a.line)
            return self.wrap(box["pre"], lines + go(env2), ind)
        if k == "expr" and s.expr.kind == "swap":
            a, b = lookup(env, s.expr.a), lookup(env, s.expr.b)
            for name, v in ((s.expr.a, a), (s.expr.b, b)):
                if v is None or not v.mut:
                    self.err(s.line, f"`swap` of `{name}`, which is not a `mut` variable in scope")
            self.unify(a.ty, b.ty, s.line) if is_int(a.ty) else None
            env2 = [x.with_val(b.val) if x.uid == a.uid else x.with_val(a.val) if x.uid == b.uid else x for x in env]
            return go(env2)
        if k == "expr":
            pre, _, _ = self.expr(s.expr, env, ctx, st)
            return self.wrap(pre, go(env), ind)
        if k == "return":
            if ctx.on_value is None:
                self.err(s.line, "`return` inside a `while` body is outside the translated subset")
            rt = self.norm_ty(self.fn.ret)
            pre, v, ty = self.expr(s.expr, env, ctx, st, rt if is_scalar(rt) else None)
            return self.wrap(pre, [ind + ctx.on_value(env, v, ty, s.line)], ind)
        if k == "if" and s.cond.kind in ("or", "and") and self.can_panic(s.cond.r, env, ctx, st):   # S12: short-circuit evaluation
            c = s.cond
            if c.kind == "or":      # `if a || b { X } else { Y }`  =  `if a { X } else { if b { X } else { Y } }`
                inner = Node("if", c.r.line, cond=c.r, then=s.then, els=s.els)
                des = Node("if", s.line, cond=c.l, then=s.then, els=Node("block", c.r.line, stmts=[inner], tail=None))
            else:                   # `if a && b { X } else { Y }`  =  `if a { if b { X } else { Y } } else { Y }`
                inner = Node("if", c.r.line, cond=c.r, then=s.then, els=s.els)
                des = Node("if", s.line, cond=c.l, then=Node("block", c.r.line, stmts=[inner], tail=None), els=s.els)
            return self.stmts([des] + rest, tail, line, env, ctx, st, after, ind)
        if k == "if":
            pre, c = self.cond(s.cond, env, ctx, st)
            if not rest and tail is None:
                cont = after
            else:
                def cont(env2):
                    return self.stmts(rest, tail, line, env2, ctx, st, after, ind + "  ")
            a_lines = self.block(s.then, env, ctx, st, cont, ind + "  ")
            if s.els is not None:
                b_lines = self.block(s.els, env, ctx, st, cont, ind + "  ")
            elif cont is not None:
                b_lines = cont(env)
            elif ctx.on_fall is not None:
                b_lines = [ind + "  " + x for x in ctx.on_fall(env)]
            else:
                self.err(s.line, "`if` without `else` at the end of the function body: the function could end without a value")
            return self.wrap(pre, [f"{ind}if {c} then ("] + a_lines + [f"{ind}) else ("] + b_lines + [f"{ind})"], ind)
        if k == "while":
            return self.while_loop(s, env, ctx, st, go, ind)
        self.err(s.line, f"statement `{k}` has no translation rule")

    # -- S13: `for P in I { B }` over slice iterators ---------------------------------------------------
    def iter_shape(self, it):
        """I ::= e.iter() | e.iter_mut() | I.zip(I') | I.enumerate()   ->  a tree, or None when `it` is not of that form"""
        if it.kind != "mcall":
            return None
        if it.name in ("iter", "iter_mut") and not it.args:
            return ("src", it.recv, it.name == "iter_mut")
        if it.name == "zip" and len(it.args) == 1:
            a, b = self.iter_shape(it.recv), self.iter_shape(it.args[0])
            return ("zip", a, b) if a is not None and b is not None else None
        if it.name == "enumerate" and not it.args:
            a = self.iter_shape(it.recv)
            return ("enum", a) if a is not None else None
        return None

    def iter_for(self, s):
        """`for P in I { B }`  =  `let #m = LEN(I); for #k in 0..#m { <bindings of P at position #k>; B }` where LEN(e.iter()) = `e.len()`,
        LEN(I.zip(I')) = `LEN(I).min(LEN(I'))`, LEN(I.enumerate()) = LEN(I); an element of `e.iter()` is bound by `let x = e[#k]`, the index
        of `enumerate` by `let i = #k`, and an element `x` of `e.iter_mut()` is the PLACE `e[#k]`: every `x` in `B` is replaced by it
        (`*x = v` is `e[#k] = v`, `x.bitand_assign(y)` is `e[#k] &= y`).  `e` must be a variable or a field of one."""
        self.tr.for_count = getattr(self.tr, "for_count", 0) + 1
        kname = f"#k{self.tr.for_count}"
        kvar = lambda line: Node("var", line, name=kname)          # noqa: E731
        lets, sub = [], {}

        def length(sh):
            if sh[0] == "src":
                return Node("mcall", s.line, recv=sh[1], name="len", args=[], turbofish=None)
            if sh[0] == "enum":
                return length(sh[1])
            return Node("mcall", s.line, recv=length(sh[1]), name="min", args=[length(sh[2])], turbofish=None)

        def bind(sh, pat):
            if sh[0] == "src":
                if self.place_of(sh[1]) is None:
                    self.err(s.line, "`.iter()` / `.iter_mut()` in a `for` must be applied to a variable or a field of one")
                if pat.kind == "pwild":
                    return
                if pat.kind != "pvar":
                    self.err(pat.line, "the pattern of a `for` over `.iter()` must be a variable (or tuples of variables for `zip` / `enumerate`)")
                elem = lambda line, e=sh[1]: Node("index", line, e=e, idx=kvar(line))     # noqa: E731
                if sh[2]:
                    sub[pat.name] = elem
                else:
                    lets.append(Node("let", pat.line, pat=pat, mut=False, expr=elem(pat.line), ann=None))
                return
            if pat.kind != "ptuple" or len(pat.pats) != 2:
                self.err(pat.line, "the pattern of a `for` over `zip` / `enumerate` must be a pair")
            if sh[0] == "enum":
                if pat.pats[0].kind == "pvar":
                    lets.append(Node("let", pat.line, pat=pat.pats[0], mut=False, expr=kvar(pat.line), ann=None))
                elif pat.pats[0].kind != "pwild":
                    self.err(pat.line, "the index pattern of `enumerate` must be a variable")
                bind(sh[1], pat.pats[1])
            else:
                bind(sh[1], pat.pats[0])
                bind(sh[2], pat.pats[1])
        sh = self.iter_shape(s.iter)
        bind(sh, s.pat)
        if s.body.tail is not None:
            self.err(s.body.tail.line, "a `for` body that ends in a value is outside the translated subset")
        body = Node("block", s.body.line, stmts=lets + subst_vars(list(s.body.stmts), sub), tail=None)
        rng = Node("range", s.line, lo=Node("lit", s.line, value=0, suffix="usize"), hi=length(sh), inclusive=False)
        return [Node("for", s.line, pat=Node("pvar", s.line, name=kname), iter=rng, body=body)]

    def can_panic(self, c, env, ctx, st):
        """does the translation of condition `c` have a preamble (a step that can panic, or a call)?  Dry run on copies."""
        pre, _ = self.cond(c, list(env), ctx, dict(st))
        return bool(pre)

    def index_assign(self, a, env, ctx, st, go, ind):
        """V6: `v[i] = e;` / `v[i] op= e;` with `v` a variable or a field of a variable.  Rust's order: the assigned value `e` first
        (it may call `&mut self` methods: the vector is read afterwards), then the index `i`, then the bounds check of the store."""
        tgt = self.strip_refs(a.target)
        place = self.place_of(tgt.e)
        if place is None:
            self.err(a.line, "only `x[i]` / `x.f[i]` with a variable `x` can be assigned to in the translated subset")
        _, _, t0 = self.expr(place, env, ctx, st)
        if not is_vec(t0):
            self.err(a.line, "indexed assignment to a value that is not a `Vec` is outside the translated subset")
        elem = resolve(t0)[1]
        pre_r, v_r, t_r = self.expr(a.expr, env, ctx, st, elem)
        self.same(t_r, elem, a.line, "assignment of a value of another type")
        before = st.get("rebinds", 0)
        pre_i, v_i, t_i = self.expr(tgt.idx, env, ctx, st, USIZE)
        if st.get("rebinds", 0) != before:
            self.err(a.line, "an index expression that changes a variable through `&mut` is outside the translated subset")
        if not is_int(t_i):
            self.err(a.line, "an index that is not an integer (ranges / slices are outside the translated subset)")
        self.unify(t_i, USIZE, a.line)
        _, v_vec, _ = self.expr(place, env, ctx, st)          # the vector as it is now, after `e` has been evaluated
        steps = pre_r + pre_i
        if a.op != "=":
            if a.op[0] not in "+-*/%|&^" or not is_int(elem):
                self.err(a.line, f"`{a.op}` on an element is outside the translated subset")
            old = self.fresh(st)
            steps.append(("bind", f"SrcVec.index {v_vec} {v_i}", old))
            rhs = Node("bit" if a.op[0] in "|&^" else "bin", a.line, op=a.op[0], l=Node("rawval", a.line, val=old, ty=elem),
                       r=Node("rawval", a.line, val=v_r, ty=elem))
            p, v_r, _ = self.expr(rhs, env, ctx, st, elem)
            steps += p
        new = self.fresh(st)
        steps.append(("bind", f"SrcVec.store {v_vec} {v_i} {v_r}", new))
        self.tr.uses_vec = True
        lines, env2 = self.assign(place, lambda old_, ty_: ([], new), env, a.line)
        return self.wrap(steps, lines + go(env2), ind)

    def vec_stmt(self, e, place, v0, elem, env, ctx, st, go, ind):
        """V7 `v.resize(n, x);`, V8 `v.push(x);` with `v` a variable or a field of a variable: the place is rebound"""
        want = [USIZE, elem] if e.name == "resize" else [elem]                              # `push`, `fill` (V9)
        if len(e.args) != len(want):
            self.err(e.line, f"`.{e.name}` takes {len(want)} argument(s)")
        pre, vals = [], []
        for a, w in zip(e.args, want):
            p, v, t = self.expr(a, env, ctx, st, w)
            self.same(t, w, a.line, f"argument of `.{e.name}` has the wrong type")
            pre += p
            vals.append(v)
        term = (f"(SrcVec.resize {v0} {vals[0]} {vals[1]})" if e.name == "resize" else f"(SrcVec.fill {v0} {vals[0]})" if e.name == "fill"
                else f"(Array.push {v0} {vals[0]})")
        self.tr.uses_vec = True
        if e.name == "fill":
            self.tr.uses_arr = True
        n = self.fresh(st)
        lines, env2 = self.assign(place, lambda old_, ty_: (self.lets(n, term, ind), n), env, e.line)
        return self.wrap(pre, lines + go(env2), ind)

    def while_loop(self, s, env, ctx, st, go, ind):
        if s.cond.kind == "and" and getattr(s, "split", None) is None:                      # S12': `while a && b { B }`, `b` can panic / calls
            s.split = False
            if self.can_panic(s.cond.r, env, Ctx("loop"), st):
                exit_ = Node("if", s.cond.r.line, cond=Parser.negate(s.cond.r), then=Node("block", s.cond.r.line, stmts=[Node("break", s.cond.r.line)], tail=None), els=None)
                s.split = Node("while", s.line, cond=s.cond.l, body=Node("block", s.body.line, stmts=[exit_] + list(s.body.stmts), tail=s.body.tail))
        if getattr(s, "split", None):
            s = s.split
        names = mentioned(s.body, mentioned(s.cond, []))
        vis = {v.rust: v for v in visible(env)}
        vars_ = [vis[n] for n in names if n in vis]      # in order of first occurrence in the loop: independent of where they were declared
        for v in vars_:
            t = resolve(v.ty)
            if not (is_scalar(t) or t[0] == "struct"):
                self.err(s.line, f"variable `{v.rust}` used in a `while` loop is neither an integer, a `bool`, a `Vec` nor a struct")
        state = [v for v in vars_ if v.mut]
        name = f"{self.fn.lean_name}_loop{self.loop_count}"
        self.loop_count += 1
        k = 0
        lenv, ptypes = [], []
        for v in vars_:
            n = len(flat(v.val))
            ps = [f"p{k + i}" for i in range(n)]
            k += n
            lenv.append(Var(v.uid, v.rust, ps if isinstance(v.val, list) else ps[0], v.mut, v.ty))
            ptypes += self.comps(v.ty, s.line)
        nparams = k
        lst = {"n": 0}
        extra = self.tr.extra_params(self)
        consts = [f"c{i}" for i in range(len(self.imp.consts))]

        def vals_of(env2, vs):
            return [t for v in vs for t in flat(next(x.val for x in env2 if x.uid == v.uid))]

        def again(env2):
            return [" ".join([name, "fuel"] + extra + consts + vals_of(env2, vars_))]
        lctx = Ctx("loop", again, None, lambda env2: [".ok " + tup(vals_of(env2, state))])
        self.loop_depth += 1
        before = lst.get("rebinds", 0)
        pre, c = self.cond(s.cond, lenv, lctx, lst)
        if lst.get("rebinds", 0) != before:
            self.err(s.line, "a loop condition that changes a variable through `&mut` is outside the translated subset")
        body = self.block(s.body, lenv, lctx, lst, None, "      ")
        self.loop_depth -= 1
        inner = self.wrap(pre, ["    if " + c + " then ("] + body + ["    ) else (", "      .ok " + tup(vals_of(lenv, state)), "    )"], "    ")
        stypes = [c_ for v in state for c_ in self.comps(v.ty, s.line)]
        state_ty = "Unit" if not stypes else " × ".join(stypes)
        nfix = len(extra) + len(consts)
        sig = " → ".join(["Nat"] + ["IntTy"] * len(extra) + ["Int"] * len(consts) + ptypes + [f"Except Panic ({state_ty})"])
        text = [f"def {name}{self.ty_binders()} : {sig}",
                "  | " + ", ".join(["0"] + ["_"] * (nfix + nparams)) + " => .error .fuel",
                "  | " + ", ".join(["fuel + 1"] + extra + consts + [f"p{i}" for i in range(nparams)]) + " =>"] + inner
        self.defs.append("\n".join(text))
        fresh, env2 = {}, []
        for x in env:
            if any(x.uid == v.uid for v in state):
                fresh[x.uid] = self.bind_names(x.ty, st) if not isinstance(x.val, list) else [self.fresh(st) for _ in x.val]
                env2.append(x.with_val(fresh[x.uid]))
            else:
                env2.append(x)
        outs = [t for v in state for t in flat(fresh[v.uid])]
        call = " ".join([name, "fuel"] + extra + consts + vals_of(env, vars_))
        return [f"{ind}match {call} with", f"{ind}| .error e => .error e", f"{ind}| .ok {tup(outs) if outs else '_'} =>"] + go(env2)

    # -- the function -------------------------------------------------------------------------------
    def emit(self):
        fn = self.fn
        env, k = [], 0
        if fn.recv is not None:
            sty = self.norm_ty(("self",))
            n = len(self.fields_of(sty, fn.line))
            ps = [f"p{i}" for i in range(n)]
            k = n
            env.append(Var(self.new_uid(), "self", ps[0] if n == 1 else ps, fn.recv in ("refmut", "mutval"), sty))
        for name, mut, ty in fn.params:
            ty = self.norm_ty(ty)
            if is_scalar(ty):
                val, k = f"p{k}", k + 1
            elif ty[0] == "struct":
                n = len(self.fields_of(ty, fn.line))
                ps = [f"p{k + i}" for i in range(n)]
                val, k = (ps[0] if n == 1 else ps), k + n
            else:
                self.err(fn.line, f"parameter `{name}` has a type outside the translated subset")
            env.append(Var(self.new_uid(), name, val, mut, ty))
        st = {"n": 0}
        rt = self.norm_ty(fn.ret)
        ptypes = [c for v in env for c in self.comps(v.ty, fn.line)]
        self_uid = env[0].uid if fn.recv == "refmut" else None

        def self_vals(env2):
            return flat(next(x.val for x in env2 if x.uid == self_uid)) if self_uid is not None else []

        def on_value(env2, v, ty, line):
            if rt == UNIT:
                self.err(line, "a value is returned from a function declared without a return type")
            self.same(ty, rt, line, "the returned value does not have the declared return type")
            return ".ok " + tup(self_vals(env2) + flat(v))
        on_fall = (lambda env2: [".ok " + tup(self_vals(env2))]) if (rt == UNIT and self_uid is not None) else None
        ctx = Ctx("fn", on_fall, on_value)
        fn.recursive = False
        lines = self.stmts(self.body.stmts, self.body.tail, self.body.line, env, ctx, st, None, "  ")
        parts = (self.comps(env[0].ty, fn.line) if self_uid is not None else []) + ([] if rt == UNIT else [self.lean_ret(rt)])
        ret = " × ".join(parts) if parts else "Unit"
        extra = self.tr.extra_params(self)
        consts = [f"c{i}" for i in range(len(self.imp.consts))]
        names = consts + [f"p{i}" for i in range(k)]
        types = ["Int"] * len(consts) + ptypes
        if fn.recursive:                                                                    # F1: structural recursion on the fuel
            sig = " → ".join(["Nat"] + ["IntTy"] * len(extra) + types + [f"Except Panic ({ret})"])
            head = [f"def {fn.lean_name}{self.ty_binders()} : {sig}",
                    "  | " + ", ".join(["0"] + ["_"] * (len(extra) + len(names))) + " => .error .fuel",
                    "  | " + ", ".join(["fuel + 1"] + extra + names) + " =>"]
            return self.defs + ["\n".join(head + ["  " + x for x in lines])]
        groups = []                                                                         # consecutive parameters of one type share a binder
        for n_, t_ in zip(names, types):
            if groups and groups[-1][1] == t_:
                groups[-1][0].append(n_)
            else:
                groups.append(([n_], t_))
        binders = (f" ({' '.join(extra)} : IntTy)" if extra else "") + "".join(f" ({' '.join(ns)} : {t_})" for ns, t_ in groups)
        head = [f"def {fn.lean_name}{self.ty_binders()} (fuel : Nat){binders} : Except Panic ({ret}) :="]
        return self.defs + ["\n".join(head + lines)]


class Translator:
    def __init__(self, src, file):
        self.file = file
        self.parser = TParser(src, file)
        self.prog = self.parser.parse_program()
        self.done, self.order, self.in_progress = {}, [], []

    # -- lookups ------------------------------------------------------------------------------------
    def struct(self, name, line):
        if name not in self.prog.structs:
            raise TranslateError(self.file, line, f"struct `{name}` is not defined in this file")
        if self.prog.structs[name].error is not None:
            raise self.prog.structs[name].error
        return self.prog.structs[name]

    def impls_of(self, sname):
        return [i for i in self.prog.impls if i.self_name == sname]

    def find_fn(self, sname, fname, line, trait=None):
        cands = [f for i in self.impls_of(sname) for f in i.fns if f.name == fname and (trait is None or i.trait == trait)]
        if trait is None and any(f.impl.trait is None for f in cands):
            cands = [f for f in cands if f.impl.trait is None]
        if not cands:
            for i in self.prog.impls:            # an impl whose header is outside the subset (its self type is then unknown) defines the name:
                if i.error is not None and i.self_name is None and any(f.name == fname for f in i.fns):      # report that error
                    raise i.error
            what = f"`impl {trait} for {sname}`" if trait else f"a function `{fname}` of `{sname}`"
            raise TranslateError(self.file, line, f"{what} is not defined in this file: outside the translated subset")
        if len(cands) > 1:
            raise TranslateError(self.file, line, f"`{fname}` is defined by several impls of `{sname}`: ambiguous")
        return cands[0]

    def const_expr(self, cd):
        self.parser.i = cd.expr_start
        return self.parser.parse_expr()

    def extra_params(self, em):
        return []

    def find_method(self, ty, name, line):
        if ty[1] in STD_RANGES:
            raise TranslateError(self.file, line, f"no translated impl provides `.{name}()` for `{ty[1]}`")
        return self.find_fn(ty[1], name, line)

    def lean_name_of(self, fn):
        return fn.name

    # -- driver -------------------------------------------------------------------------------------
    def check_impl(self, fn):
        imp = fn.impl
        if fn.header_error:
            raise fn.header_error
        s = self.struct(imp.self_name, imp.line)
        order = getattr(imp, "generic_order", None) or [n for n, _ in imp.consts]
        s_order = getattr(s, "generic_order", None) or [n for n, _ in s.consts]
        ic, sc = {n for n, _ in imp.consts}, {n for n, _ in s.consts}
        if ([t for _, t in imp.consts] != [t for _, t in s.consts] or imp.self_args != order or
                [n in ic for n in order] != [n in sc for n in s_order]):
            raise TranslateError(self.file, imp.line, f"impl of `{s.name}` must repeat the struct's const parameters in order")

    def request(self, fn, line, caller, in_loop=False):
        """Make sure `fn` is translated (callees first); -> its Lean name.  F1: a function may call itself (not from inside one of
        its loops): it is then defined by structural recursion on `fuel`."""
        if fn is caller:
            if in_loop:
                raise TranslateError(self.file, line, f"recursive call of `{fn.name}` inside a loop body is outside the translated subset")
            fn.recursive = True
            return fn.lean_name
        if fn in self.in_progress:
            raise TranslateError(self.file, line, f"mutual recursion through `{fn.name}` is outside the translated subset")
        self.translate_fn(fn)
        return fn.lean_name

    def translate_fn(self, fn):
        if id(fn) in self.done:
            return
        self.check_impl(fn)
        fn.lean_name = self.lean_name_of(fn)
        for other in self.order:
            if other.lean_name == fn.lean_name:
                raise TranslateError(self.file, fn.line, f"two translated functions are called `{fn.lean_name}`")
        self.parser.i = fn.body_start
        self.parser.macro_params = getattr(fn.impl, "macro_params", set())
        self.parser.type_params = {n for n, _ in getattr(fn.impl, "tparams", [])}
        body = self.parser.parse_block()
        self.in_progress.append(fn)
        lit = {}
        FnEmitter(self, fn, body, lit).emit()                       # pass 1: resolves literal types (output discarded)
        for tv in lit.values():
            if isinstance(resolve(tv), TVar):
                resolve(tv).ref = ("int", "i32")                    # Rust's default integer type
        done_before = set(self.done)
        defs = FnEmitter(self, fn, body, lit).emit()                # pass 2
        assert set(self.done) == done_before
        self.in_progress.pop()
        self.done[id(fn)] = defs
        self.order.append(fn)

    def translate(self, sname, wanted):
        for w in wanted:
            trait, _, name = w.rpartition("::")
            self.translate_fn(self.find_fn(sname, name, 1, trait=trait or None))
        return [d for f in self.order for d in self.done[id(f)]]


class MacroTranslator(Translator):
    """I4: the impls inside `macro_rules!` bodies, expanded symbolically.  The parameters of the top macro (the one invoked at
    item level with concrete types) are the atoms `$a0, $a1, …` = the Lean parameters `(t_a0 t_a1 … : IntTy)` of every
    definition; a nested invocation `inner!($x)` instantiates the inner macro's impls with its parameter bound to that atom.
    Each instantiated `impl Trait<$x> for RangeKind<$x>` gives one definition `RangeKind_a<i>_<fn>`."""

    def __init__(self, src, file, top):
        super().__init__(src, file)
        if top not in self.prog.macros:
            raise TranslateError(file, 1, f"`macro_rules! {top}` not found")
        m = self.prog.macros[top]
        self.top = m
        self.atoms = [f"a{i}" for i in range(len(m.params))]
        self.instances = []
        self.expand(m, {"$" + p: ("int", "$" + a) for p, a in zip(m.params, self.atoms)}, [top])
        self.invocations = [inv for inv in self.prog.invocations if inv.name == top]
        for inv in self.invocations:
            if len(inv.args) != len(m.params) or any(a[0] != "int" or a[1].startswith("$") for a in inv.args):
                raise TranslateError(file, inv.line, f"`{top}!` must be invoked with {len(m.params)} primitive integer types")

    def expand(self, macro, subst, stack):
        for it in macro.items:
            if it.kind == "invoke":
                if it.name not in self.prog.macros:
                    raise TranslateError(self.file, it.line, f"`{it.name}!` is not a macro of this file")
                if it.name in stack:
                    raise TranslateError(self.file, it.line, "recursive macro")
                m2 = self.prog.macros[it.name]
                if len(it.args) != len(m2.params):
                    raise TranslateError(self.file, it.line, f"`{it.name}!` takes {len(m2.params)} arguments")
                args = [subst.get(a[1], a) if a[0] == "int" else a for a in it.args]
                self.expand(m2, {"$" + p: a for p, a in zip(m2.params, args)}, stack + [it.name])
                continue
            inst = Node("impl", it.line, **{k: v for k, v in it.__dict__.items() if k not in ("kind", "line", "fns")})
            inst.subst = subst
            inst.fns = []
            targ = it.trait_args[0] if it.trait and getattr(it, "trait_args", None) else None
            elem = subst.get(targ) if targ and targ.startswith("$") else ("int", targ) if targ in INT_TYPES else None
            ok = (it.error is None and it.self_name in STD_RANGES and elem is not None and
                  (it.self_args == [targ] or (it.self_name == "RangeFull" and not it.self_args)))
            inst.self_ty = ("struct", it.self_name, elem) if ok else None
            if not ok and it.error is None:
                inst.error = TranslateError(self.file, it.line, "impl inside a macro that is not `impl Trait<$t> for RangeKind<$t>`")
            for f in it.fns:
                g = Node("fn", f.line, **{k: v for k, v in f.__dict__.items() if k not in ("kind", "line", "impl")})
                g.impl = inst
                g.header_error = f.header_error or inst.error
                inst.fns.append(g)
            self.instances.append(inst)

    def extra_params(self, em):
        return ["t_" + a for a in self.atoms]

    def check_impl(self, fn):
        if fn.header_error:
            raise fn.header_error

    def find_method(self, ty, name, line):
        cands = [f for i in self.instances if i.self_ty == ty for f in i.fns if f.name == name]
        if len(cands) != 1:
            raise TranslateError(self.file, line, f"{'no' if not cands else 'more than one'} impl in this file provides `.{name}()` for "
                                                  f"`{ty[1]}<{FnEmitter.show_ty(ty[2]) if ty[2] else ''}>`")
        return cands[0]

    def lean_name_of(self, fn):
        return f"{fn.impl.self_name}_{fn.impl.self_ty[2][1][1:]}_{fn.name}"

    def translate_all(self, fn_names):
        for inst in self.instances:
            for f in inst.fns:
                if f.name in fn_names:
                    self.translate_fn(f)
        defs = [d for f in self.order for d in self.done[id(f)]]
        rows = []
        for inv in self.invocations:
            tys = [f"IntTy.mk {'true' if INT_TYPES[a[1]][0] else 'false'} {INT_TYPES[a[1]][1]}" for a in inv.args]
            rows.append(tys[0] if len(tys) == 1 else "(" + ", ".join(tys) + ")")
        ty = " × ".join("IntTy" for _ in self.atoms)
        doc = (f"/-- the invocations `{self.top.name}!(…)` of the source, in order: the types every definition above is instantiated at -/\n")
        defs.append(doc + f"def instances : List ({ty}) :=\n  [" + ",\n   ".join(rows) + "]")
        return defs


HEADER = """import RlibModel.Model.Common
/-!
GENERATED by `tools/rs2lean_typed.py` from the source text of `{rel}` on every run of `./check {pid}`
— do not edit by hand.  Translation scheme: the doc comments at the top of `tools/rs2lean.py` and `tools/rs2lean_typed.py`.
Machine integers are `Int`s; every cast is `IntTy.wrap`, every `+ - * /` goes through `checked` (overflow ⇒ `Panic.overflow`),
`/ %` by zero is `Panic.divzero`; const generics are the parameters `c0 …`; a struct value is the tuple of its fields;
loops run on an explicit `fuel`.  Variables are renamed (`p*`, `v*`): the text depends on the source only up to renaming,
comments and layout.  `Lemmas/{stem}.lean` proves that each definition returns what the hand-written model returns.
-/
set_option linter.unusedVariables false
namespace {ns}
open Rlib

"""


VEC_NOTE = ("`Vec<int>` / `Vec<bool>` values are `Array Int` / `Array Bool`; indexing, stores, `len`, `resize`, `vec![x; n]`, `(a..b).collect()` are the\n"
            "fixed, hand-written functions `Rlib.SrcVec.*` of `Generated/VecPrelude.lean` (an index out of range is `Panic.index`).\n")


ARR_NOTE = ("Arrays `[t; N]` and slices `[t]` are read like `Vec<t>` (the length `N` is an invariant of the Rust type, carried as a hypothesis by the\n"
            "theorems, not stored); `contains`, `iter().product()` … are the fixed, hand-written functions of `Generated/ArrPrelude.lean`; a type\n"
            "parameter `T` of the struct is the implicit Lean type `E0` (values of it are only moved around).\n")


def render(defs, ns, rel, pid, stem, failure=None, vec=False, arr=False):
    text = HEADER.format(rel=rel, pid=pid, ns=ns, stem=stem)
    if vec or arr:                                                                          # P4: only files that use a V rule import the prelude
        imports = "import RlibModel.Generated.VecPrelude\n" + ("import RlibModel.Generated.ArrPrelude\n" if arr else "")   # P5
        text = text.replace("import RlibModel.Model.Common\n", "import RlibModel.Model.Common\n" + imports, 1)
        text = text.replace("-/\nset_option", VEC_NOTE + (ARR_NOTE if arr else "") + "-/\nset_option", 1)
    if failure is not None:
        safe = failure.replace("-/", "- /").replace("/-", "/ -")
        text += f"/- TRANSLATION FAILED — no definitions; everything that refers to them stops compiling.\n   {safe} -/\n\n"
    else:
        text += "\n\n".join(defs) + "\n\n"
    return text + f"end {ns}\n"


def run(src_path, out_path, ns, rel, pid, struct, wanted, macro=None):
    """`struct` + `wanted`: impl style (I3).  `macro` + `wanted`: the impls inside `macro_rules! <macro>` and the macros it invokes (I4)."""
    stem = os.path.splitext(os.path.basename(out_path))[0]
    problems, info = [], {"functions": []}
    try:
        if macro:
            tr = MacroTranslator(open(src_path).read(), rel, macro)
            defs = tr.translate_all(wanted)
        else:
            tr = Translator(open(src_path).read(), rel)
            defs = tr.translate(struct, wanted)
        info = {"functions": [f.lean_name for f in tr.order],
                "loops": [m.group(1) for d in defs for m in [re.match(r"def (\w+_loop\d+) ", d)] if m],
                "struct": struct, "macro": macro, "skipped_items": tr.prog.skipped}
        if macro:
            info["instances"] = ["/".join(a[1] for a in inv.args) for inv in tr.invocations]
        text = render(defs, ns, rel, pid, stem, vec=getattr(tr, "uses_vec", False), arr=getattr(tr, "uses_arr", False))
    except (OSError, TranslateError) as e:
        problems.append(SUBSET + f"rs2lean_typed: {e}" if isinstance(e, TranslateError) else f"rs2lean_typed: {e}")
        text = render([], ns, rel, pid, stem, failure=str(e))
    info["rewritten"] = write_if_changed(out_path, text)
    return info, problems


def main(argv):
    import argparse
    ap = argparse.ArgumentParser()
    ap.add_argument("src")
    ap.add_argument("--out", required=True)
    ap.add_argument("--namespace", required=True)
    ap.add_argument("--struct", default=None)
    ap.add_argument("--macro", default=None)
    ap.add_argument("--fns", required=True)
    ap.add_argument("--rel", default=None)
    ap.add_argument("--pid", default="Cxx")
    a = ap.parse_args(argv)
    info, problems = run(a.src, a.out, a.namespace, a.rel or a.src, a.pid, a.struct, a.fns.split(","), a.macro)
    print(json.dumps({"info": info, "problems": problems}, indent=1))
    return 1 if problems else 0


if __name__ == "__main__":
    sys.exit(main(sys.argv[1:]))
