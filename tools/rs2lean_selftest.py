#!/usr/bin/env python3
"""
Self-test of tools/rs2lean.py (not part of any check; run by hand after editing the translator):

  1. translates tools/rs2lean_selftest/sample.rs (nested loops, if/else with assignments falling through, `&&`, `?`,
     tuples, shadowing, block-local variables), elaborates the result with `lake env lean` and compares `#eval`s of the
     generated definitions with values computed by hand;
  2. renaming every variable of rlib/gcd/src/lib.rs and adding comments gives byte-identical Lean text;
  3. every construct outside the subset is rejected with file:line (never skipped);
  4. the same three kinds of test for tools/rs2lean_typed.py: sample_vec.rs (Vec / bool / `&mut self` calls inside expressions /
     recursion on fuel / `break` / short-circuit conditions) elaborated and evaluated; rename invariance on rlib/{mint,rand,dsu,sieve};
     out-of-subset sources rejected with file:line;
  6. rlib/bitset/src/bitset.rs and bits_iter.rs (`:ident` macros expanded by substitution, `for` over iter()/iter_mut()/zip/enumerate, `|= &= ^=`,
     `!` on integers, count_ones / trailing_zeros, `Option`, lifetimes, `while a && b` with a panicking `b`) elaborated and evaluated;
  5. sample_arr.rs (a struct with a type parameter and a const generic, arrays `[usize; D]`, slices, `contains`, `iter().product()`,
     `assert_eq!`, a `.rev()` loop, `Self::Output`, vector equality) elaborated and evaluated; rename invariance on rlib/tensor.
"""
import os
import re
import subprocess
import sys
import tempfile

HERE = os.path.dirname(os.path.abspath(__file__))
sys.path.insert(0, HERE)
import rs2lean  # noqa: E402

EVALS = [  # (Lean expression, expected output of #eval)
    ("(pow_mod 100 3 13 1000).toOption", "some 323"),            # 3^13 = 1594323
    ("(collatz_steps 200 27).toOption", "some 111"),
    ("(tri 100 10).toOption", "some 55"),
    ("(minmax 0 5 (-2)).toOption", "some (-2, 5)"),
    ("(clamp_sub 0 10 3).toOption", "some (some 3)"),
    ("(clamp_sub 0 4 3).toOption", "some (some 1)"),
    ("(clamp_sub 0 2 3).toOption", "some none"),
    ("(helper 0 (-4)).toOption", "some (some (-4, -4, 4))"),
    ("(match pow_mod 100 3 13 0 with | .error .divzero => 1 | _ => 0)", "1"),
    ("(match tri 5 10 with | .error .fuel => 1 | _ => 0)", "1"),
]

GCD = "pub fn f<T: Integer>(a: T, b: T) -> T {\n"
REJECT = [  # (source, fragment expected in the error message)
    (GCD + "    let x = a as T;\n    x\n}\n", ":2: `as` casts"),
    (GCD + "    loop { }\n}\n", ":2: `loop`"),
    (GCD + "    for i in a { }\n    b\n}\n", ":2: `for`"),
    (GCD + "    a.pow(b)\n}\n", ":2: method `pow`"),
    (GCD + "    a << b\n}\n", ":2: shift"),
    (GCD + "    a & b\n}\n", ":2: binary `&`"),
    (GCD + "    let mut a = a;\n    while a != b {\n        return a;\n    }\n    a\n}\n", ":4: `return` inside a `while`"),
    (GCD + "    let c = a == b;\n    a\n}\n", ":2: boolean values"),
    (GCD + "    if a == b || a / &b == b { return a; }\n    b\n}\n", ":2: the right operand"),
    (GCD + "    other(a, b)\n}\n", ":2: call of `other`"),
    (GCD + "    println!(\"x\");\n    a\n}\n", "literals"),
    (GCD + "    a + 1\n}\n", ":2: integer literal"),
    (GCD + "    if a == b { a }\n}\n", "without `else`"),
    (GCD + "    a = b;\n    a\n}\n", ":2: assignment to `a`, which is not declared `mut`"),
    ("pub fn f<T: Copy>(a: T) -> T {\n    a\n}\n", ":1: type parameter `T` is not bounded by `Integer`"),
    ("pub fn f(a: i64) -> i64 {\n    a\n}\n", ":1: expected `<`"),
    ("struct S;\n" + GCD + "    a\n}\n", ":1: top-level item"),
    ("#[inline]\n" + GCD + "    a\n}\n", ":1: top-level item"),
    ("pub fn f<T: Integer>(a: T) -> T {\n    g(a)\n}\npub fn g<T: Integer>(a: T) -> T {\n    f(a)\n}\n", "mutual recursion"),
]


def main():
    bad = 0
    # 1. sample
    src = open(os.path.join(HERE, "rs2lean_selftest", "sample.rs")).read()
    defs, info = rs2lean.translate_source(src, "sample.rs")
    text = rs2lean.render(defs, "Rlib.TrTest", "sample.rs", "selftest", "Sample")
    text += "open Rlib.TrTest\n" + "".join(f"#eval {e}\n" for e, _ in EVALS)
    with tempfile.TemporaryDirectory() as d:
        p = os.path.join(d, "Sample.lean")
        open(p, "w").write(text)
        r = subprocess.run(["lake", "env", "lean", p], cwd=os.path.join(os.path.dirname(HERE), "lean"), capture_output=True, text=True)
    got = [l for l in r.stdout.split("\n") if l.strip()]
    want = [w for _, w in EVALS]
    if r.returncode != 0 or got != want:
        bad += 1
        print("FAIL sample:", r.returncode, got, want, r.stderr[-500:])
    else:
        print(f"ok   sample.rs: {len(info['functions'])} functions, {len(info['loops'])} loops, {len(EVALS)} evaluations as expected")
    # 2. renaming / comments
    g = open("/repo/rlib/gcd/src/lib.rs").read()
    d0, _ = rs2lean.translate_source(g, "lib.rs")
    g2 = g
    for old, new in (("b_abs", "q9"), ("y0", "k1"), ("x0", "k2"), ("m1", "mod_a"), ("m2", "mod_b"), ("a1", "ra"), ("a2", "rb"),
                     ("a", "alpha"), ("b", "beta"), ("c", "gamma"), ("g", "gg"), ("x", "xx")):
        g2 = re.sub(rf"\b{old}\b", new, g2)
    g2 = g2.replace("pub fn lcm", "// a comment\n/* and /* a nested */ one */\npub   fn   lcm").replace("%=", " %=  ")
    # cosmetic forms that must normalise to the same text: `loop { if c { break; } … }` for `while !c`, `let x: T = …` annotations
    g2 = g2.replace("    while beta != T::ZERO {\n        alpha  %=   &beta;", "    loop {\n        if beta == T::ZERO {\n            break;\n        }\n        alpha %= &beta;")
    g2 = g2.replace("let q9 = beta.abs();", "let q9: T = beta.abs();").replace("let (k1, k2) = egcd(", "let (k1, k2): (T, T) = egcd(")
    assert "loop {" in g2 and "q9: T" in g2 and "(T, T) = egcd" in g2
    d1, _ = rs2lean.translate_source(g2, "lib.rs")
    if d0 != d1 or g2 == g:
        bad += 1
        print("FAIL renaming changes the generated text")
    else:
        print("ok   renaming all variables + comments + spacing + loop/break for while + let annotations: identical text")
    # 3. rejections
    for s, frag in REJECT:
        try:
            rs2lean.translate_source(s, "t.rs")
            bad += 1
            print("FAIL accepted:", s.replace("\n", " ⏎ "))
        except rs2lean.TranslateError as e:
            if frag not in str(e) or not re.match(r"t\.rs:\d+: ", str(e)):
                bad += 1
                print(f"FAIL wrong message {e!s} (wanted {frag!r}) for:", s.replace("\n", " ⏎ "))
    print(f"{'ok  ' if not bad else 'FAIL'} {len(REJECT)} out-of-subset sources rejected with file:line")
    bad += typed_selftest()
    return 1 if bad else 0


MINT_FNS = ["new", "Add::add", "Sub::sub", "Neg::neg", "Mul::mul", "pow", "inv", "Div::div"]
TY = "pub struct S<const M: u32> {\n    v: u32,\n}\nimpl<const M: u32> S<M> {\n    pub fn f(&self, d: u64) -> Self {\n"
TY_REJECT = [  # (body of `f`, fragment expected in the error) for tools/rs2lean_typed.py
    ("        match d { _ => *self }\n", ":6: `match`"),
    ("        let x = d as f64;\n        *self\n", ":6: type `f64`"),
    ("        Self { v: self.v.pow(2) }\n", ":6: method `.pow()`"),
    ("        Self { v: self.v + d }\n", ":6: type mismatch: u64 vs u32"),
    ("        Self { v: 4294967296 }\n", ":6: literal 4294967296 does not fit `u32`"),
    ("        let t = (self.v, d);\n        *self\n", ":6: tuples"),
    ("        *self + *self\n", ":6: `impl Add for S` is not defined in this file"),
    ("        Self::g(d)\n", ":6: a function `g` of `S` is not defined"),
    ("        unsafe { *self }\n", ":6: `unsafe`"),
    ("        let c = d == 0;\n        if c == 1 { return *self; }\n        *self\n", ":7: comparison of values that are not integers"),
    ("        let t = Self { v: 0 };\n        t.g(d);\n        *self\n    }\n    pub fn g(&mut self, d: u64) {\n        self.v = 1;\n", ":7: `g` takes `&mut self` but `t` is not mutable"),
    ("        let v: Vec<u64> = Vec::new();\n        if v[d] == 0 { return *self; }\n        *self\n", ":7: type mismatch: u64 vs usize"),
    ("        let v: Vec<u64> = Vec::new();\n        v.clear();\n        *self\n", ":7: method `.clear()` on a `Vec`"),
    ("        let v = vec![1, 2];\n        *self\n", ":6: only the form `vec![x; n]`"),
    ("        let v = (0..d).collect();\n        *self\n", ":6: `(a..b).collect()` is only translated where"),
    ("        let v: Vec<Vec<u64>> = Vec::new();\n        *self\n", ":6: `Vec` of anything but"),
    ("        let mut v: Vec<u64> = Vec::new();\n        v[0..1] = 0;\n        *self\n", ":7: a range value"),
    ("        let mut k = d;\n        while k > 0 {\n            k = k - 1;\n            self.f(k);\n        }\n        *self\n", ":9: recursive call of `f` inside a loop"),
    ("        if d == 0 {\n            break;\n        }\n        *self\n", ":7: `break` here is outside"),
    ("        let mut k = d;\n        while k > 0 {\n            k = k - 1;\n            continue;\n        }\n        *self\n", ":9: `continue` here is outside"),
    ("        let mut k = d;\n        while k > 0 {\n            break;\n            k = k - 1;\n        }\n        *self\n", ":9: statements after `break`"),
    ("        for i in 0..=d { }\n        *self\n", ":6: only `for i in a..b`"),
    ("        loop { if d == 0 { return *self; } }\n", ":6: `loop` without"),
    ("        let x: u32 = d;\n        *self\n", ":6: type mismatch"),
]


VEC_FNS = ["new", "sum", "mark", "twice", "depth", "grow", "count", "iota", "find", "run_len"]
VEC_EVALS = [  # tools/rs2lean_selftest/sample_vec.rs: Vec / bool / `&mut self` calls inside expressions / recursion on fuel
    ("(new 0 3).toOption", "some (#[7, 7, 7], #[false, false, false])"),
    ("(sum 9 #[7, 7, 7] #[]).toOption", "some 21"),
    ("(match sum 3 #[7, 7, 7] #[] with | .error .fuel => 1 | _ => 0)", "1"),
    ("(match sum 9 #[4294967295, 1] #[] with | .error .overflow => 1 | _ => 0)", "1"),
    ("(mark 0 #[7, 7] #[false, false] 1).toOption", "some (#[7, 8], #[false, true], false)"),
    ("(match mark 0 #[7, 7] #[false, false] 2 with | .error .index => 1 | _ => 0)", "1"),
    ("(match mark 0 #[7, 7] #[false, false] (-1) with | .error .index => 1 | _ => 0)", "1"),
    ("(twice 0 #[7, 7] #[false, false] 1).toOption", "some (#[7, 9], #[false, true], false)"),   # 2nd call runs on the state the 1st left
    ("(depth 4 #[] #[] 3).toOption", "some (#[1, 1, 1], #[], 3)"),
    ("(match depth 3 #[] #[] 3 with | .error .fuel => 1 | _ => 0)", "1"),
    ("(grow 0 #[1, 2, 3] #[false] 2).toOption", "some (#[1, 2], #[false, true])"),
    ("(count 9 #[] #[true, false, true]).toOption", "some 2"),
    ("(iota 0 5).toOption", "some (#[2, 3, 4], #[])"),
    ("(iota 0 1).toOption", "some (#[], #[])"),
    ("(find 20 #[5, 6, 7] #[] 6 10).toOption", "some 1"),
    ("(find 20 #[5, 6, 7] #[] 99 10).toOption", "some 3"),      # `i >= len || xs[i] == x`: the index is not evaluated past the end
    ("(find 20 #[5, 6, 7] #[] 99 2).toOption", "some 2"),
    ("(run_len 20 #[5, 6, 7] #[] 7 10).toOption", "some 2"),
    ("(run_len 20 #[5, 6, 7] #[] 99 10).toOption", "some 3"),    # `i < len && xs[i] != x`
]


def vec_selftest(T):
    """elaborates the translation of sample_vec.rs and compares #evals with hand-computed values; rename invariance on rlib/dsu"""
    bad = 0
    with tempfile.TemporaryDirectory() as d:
        out = os.path.join(d, "SampleVec.lean")
        info, problems = T.run(os.path.join(HERE, "rs2lean_selftest", "sample_vec.rs"), out, "Rlib.TrTestVec", "sample_vec.rs", "selftest", "Bag", VEC_FNS)
        text = open(out).read() + "open Rlib.TrTestVec\n" + "".join(f"#eval {e}\n" for e, _ in VEC_EVALS)
        open(out, "w").write(text)
        r = subprocess.run(["lake", "env", "lean", out], cwd=os.path.join(os.path.dirname(HERE), "lean"), capture_output=True, text=True)
    got = [l for l in r.stdout.split("\n") if l.strip()]
    want = [w for _, w in VEC_EVALS]
    if problems or r.returncode != 0 or got != want:
        bad += 1
        print("FAIL typed sample_vec:", problems, r.returncode, [(g, w) for g, w in zip(got, want) if g != w], r.stdout[-600:], r.stderr[-300:])
    else:
        print(f"ok   typed: sample_vec.rs: {len(info['functions'])} functions, {len(info['loops'])} loops, {len(VEC_EVALS)} evaluations as expected")
    dsu = open("/repo/rlib/dsu/src/lib.rs").read()
    fns = ["new", "reset", "par", "un", "check", "size"]
    d0 = T.Translator(dsu, "lib.rs").translate("DSU", fns)
    d2 = dsu
    for old, new in (("u", "a"), ("v", "b"), ("i", "k"), ("n", "cnt")):
        d2 = re.sub(rf"\b{old}\b", new, d2)
    d2 = d2.replace("    pub fn par", "    // find\n    /* with /* path */ compression */\n    pub   fn   par")
    d2 = d2.replace("p: (0..cnt).collect(),\n            sz: vec![1; cnt],", "sz: vec![1; cnt],\n            p: (0..cnt).collect(),")
    assert "sz: vec![1; cnt],\n            p:" in d2
    if d0 != T.Translator(d2, "lib.rs").translate("DSU", fns):
        bad += 1
        print("FAIL typed: renaming changes the generated text of dsu")
    else:
        print("ok   typed: dsu with variables renamed, comments, struct-literal fields reordered: identical text")
    sv = open("/repo/rlib/sieve/src/lib.rs").read()
    sfns = ["new", "min_prime", "is_prime", "primes"]
    s0 = T.Translator(sv, "lib.rs").translate("Sieve", sfns)
    s2 = sv
    for old, new in (("isp", "flags"), ("mnp", "least"), ("primes", "plist"), ("i", "idx"), ("j", "k"), ("cnt", "c2")):
        s2 = re.sub(rf"\b{old}\b", new, s2)
    s2 = s2.replace("pub fn plist(&self)", "pub fn primes(&self)").replace("    pub fn new", "    // linear sieve\n    pub   fn   new")
    if s0 != T.Translator(s2, "lib.rs").translate("Sieve", sfns) or s2 == sv:
        bad += 1
        print("FAIL typed: renaming changes the generated text of sieve")
    else:
        print("ok   typed: sieve (nested `for` with `break`, short-circuit `||`) with variables and fields renamed: identical text")
    return bad


ARR_FNS = ["filled", "of", "volume", "weight", "zeros", "Index::index", "PartialEq::eq"]
ARR_EVALS = [  # tools/rs2lean_selftest/sample_arr.rs; `c0` = the const generic D
    ("(filled 0 2 #[2, 3] (7 : Int)).toOption", "some (#[2, 3], #[7, 7, 7, 7, 7, 7])"),
    ("(match filled 0 2 #[2, 0] (7 : Int) with | .error .assert => 1 | _ => 0)", "1"),
    ("(match filled 0 2 #[4294967296, 4294967296] (7 : Int) with | .error .overflow => 1 | _ => 0)", "1"),
    ("(of 0 2 #[2, 2] (#[1, 2, 3, 4] : Array Int)).toOption", "some (#[2, 2], #[1, 2, 3, 4])"),
    ("(match of 0 2 #[2, 2] (#[1, 2, 3] : Array Int) with | .error .assert => 1 | _ => 0)", "1"),
    ("(volume 0 3 #[2, 3, 4] (#[] : Array Int)).toOption", "some 24"),
    ("(weight 9 3 #[5, 6, 7] (#[] : Array Int)).toOption", "some 20"),           # 2*7 + 1*6 + 0*5
    ("(match weight 3 3 #[5, 6, 7] (#[] : Array Int) with | .error .fuel => 1 | _ => 0)", "1"),
    ("(match weight 9 3 #[5, 6] (#[] : Array Int) with | .error .index => 1 | _ => 0)", "1"),   # an array shorter than D: the checked index
    ("(zeros 0 3 #[1, 1, 1] (#[] : Array Int)).toOption", "some #[0, 0, 0]"),
    ("(index 0 1 #[2] (#[8, 9] : Array Int) 1).toOption", "some 9"),
    ("(match index 0 1 #[2] (#[8, 9] : Array Int) 2 with | .error .index => 1 | _ => 0)", "1"),
    ("(eq 0 2 #[2, 3] (#[1, 2] : Array Int) #[3, 2] #[1, 2]).toOption", "some false"),
    ("(eq 0 2 #[2, 3] (#[1, 2] : Array Int) #[2, 3] #[1, 2]).toOption", "some true"),
]
GR = "pub struct G<T, const D: usize> {\n    ext: [usize; D],\n    cells: Vec<T>,\n}\n"
ARR_REJECT = [  # (source after the struct, fragment expected in the error)
    ("impl<T, const D: usize> G<T, D> {\n    pub fn f(&self) -> usize {\n        self.ext.iter().count()\n    }\n}\n", ":7: method `.iter()` on a `Vec`"),
    ("impl<T, const D: usize> G<T, D> {\n    pub fn f(&self) -> usize {\n        self.ext.len::<usize>()\n    }\n}\n", ":7: turbofish"),
    ("impl<T, const D: usize> G<T, D> {\n    pub fn f(&self) -> [usize; D] {\n        [1, 2]\n    }\n}\n", ":7: only the form `[x; N]`"),
    ("impl<T: std::fmt::Debug, const D: usize> G<T, D> {\n    pub fn f(&self) -> usize {\n        0\n    }\n}\n", ":5: bound `Debug`"),
    ("impl<T, const D: usize> G<T, D> {\n    pub fn f(&self, o: &Self) -> bool {\n        self.cells == o.cells\n    }\n}\n", ":7: `==` on vectors of a type parameter without"),
    ("impl<T, const D: usize> G<T, D> {\n    pub fn f(&self) -> usize {\n        for x in self.ext.iter().rev() { }\n        0\n    }\n}\n", ":7: only `for i in a..b`"),
]


def arr_selftest(T):
    bad = 0
    with tempfile.TemporaryDirectory() as d:
        out = os.path.join(d, "SampleArr.lean")
        info, problems = T.run(os.path.join(HERE, "rs2lean_selftest", "sample_arr.rs"), out, "Rlib.TrTestArr", "sample_arr.rs", "selftest", "Grid", ARR_FNS)
        text = open(out).read() + "open Rlib.TrTestArr\n" + "".join(f"#eval {e}\n" for e, _ in ARR_EVALS)
        open(out, "w").write(text)
        r = subprocess.run(["lake", "env", "lean", out], cwd=os.path.join(os.path.dirname(HERE), "lean"), capture_output=True, text=True)
    got = [l for l in r.stdout.split("\n") if l.strip()]
    want = [w for _, w in ARR_EVALS]
    if problems or r.returncode != 0 or got != want:
        bad += 1
        print("FAIL typed sample_arr:", problems, r.returncode, [(g, w) for g, w in zip(got, want) if g != w], r.stdout[-600:], r.stderr[-300:])
    else:
        print(f"ok   typed: sample_arr.rs: {len(info['functions'])} functions, {len(info['loops'])} loops, {len(ARR_EVALS)} evaluations as expected")
    ten = open("/repo/rlib/tensor/src/lib.rs").read()
    tfns = ["from_vec", "from_slice", "new", "get_index", "dims", "dim", "Index::index", "IndexMut::index_mut", "PartialEq::eq"]
    t0 = T.Translator(ten, "lib.rs").translate("Tensor", tfns)
    a, b = ten.index("pub fn get_index"), ten.index("pub fn dims")
    body = ten[a:b]
    for old, new in (("result", "acc"), ("sz", "stride"), ("i", "k"), ("idx", "at")):
        body = re.sub(rf"\b{old}\b", new, body)
    t2 = ten[:a] + body.replace("let mut acc", "// offset\n        /* so /* far */ */\n        let   mut acc") + ten[b:]
    t2 = re.sub(r"\bT\b", "Elem", re.sub(r"\bD\b", "RANK", t2)).replace("Self { dims, data }", "Self { data, dims }")
    if t0 != T.Translator(t2, "lib.rs").translate("Tensor", tfns) or t2 == ten or "RANK" not in t2:
        bad += 1
        print("FAIL typed: renaming changes the generated text of tensor")
    else:
        print("ok   typed: tensor with variables, the type parameter and the const generic renamed, comments, struct-literal fields reordered: identical text")
    n = 0
    for body, frag in ARR_REJECT:
        try:
            T.Translator(GR + body, "t.rs").translate("G", ["f"])
            bad += 1
            print("FAIL typed accepted:", body.strip())
        except T.TranslateError as e:
            n += 1
            if frag not in str(e):
                bad += 1
                print(f"FAIL typed: wrong message {e!s} (wanted {frag!r})")
    print(f"{'ok  ' if n == len(ARR_REJECT) else 'FAIL'} typed: {n} out-of-subset array / type-parameter sources rejected with file:line")
    return bad


BITSET_FNS = ["new", "from_u64", "set", "remove", "flip", "test", "clear", "count", "BitAnd::bitand", "BitOr::bitor", "BitXor::bitxor",
              "BitAndAssign::bitand_assign", "BitOrAssign::bitor_assign", "BitXorAssign::bitxor_assign", "Not::not"]
BITSET_EVALS = [  # rlib/bitset/src/bitset.rs: `:ident` macros, `for` over iter()/iter_mut()/zip/enumerate, `|= &= ^=`, `!`, shifts, count_ones
    ("(set 0 2 #[0, 0] 65).toOption", "some #[0, 2]"),
    ("(match set 0 2 #[0, 0] 128 with | .error .index => 1 | _ => 0)", "1"),
    ("(remove 0 1 #[7] 1).toOption", "some #[5]"),
    ("(flip 0 1 #[7] 3).toOption", "some #[15]"),
    ("(test 0 2 #[0, 2] 65).toOption", "some true"),
    ("(clear 0 2 #[7, 9]).toOption", "some #[0, 0]"),
    ("(count 0 2 #[7, 18446744073709551615]).toOption", "some 67"),
    ("(from_u64 0 2 5).toOption", "some #[5, 0]"),
    ("(bitand 9 2 #[6, 1] #[3, 1]).toOption", "some #[2, 1]"),
    ("(bitor 9 2 #[6, 1] #[3, 0]).toOption", "some #[7, 1]"),
    ("(bitxor 9 2 #[6, 1] #[3, 1]).toOption", "some #[5, 0]"),
    ("(bitand_assign 9 2 #[6, 1] #[3, 1]).toOption", "some #[2, 1]"),
    ("(bitor_assign 9 2 #[6, 1] #[3, 0]).toOption", "some #[7, 1]"),
    ("(bitxor_assign 9 2 #[6, 1] #[3, 1]).toOption", "some #[5, 0]"),
    ("(Rlib.TrTestBits.not 9 1 #[1]).toOption", "some #[18446744073709551614]"),
    ("(match bitand 2 2 #[6, 1] #[3, 1] with | .error .fuel => 1 | _ => 0)", "1"),
]
BITSITER_EVALS = [  # rlib/bitset/src/bits_iter.rs: lifetimes dropped, `Option`, `while a && b` with a panicking `b`, trailing_zeros
    ("(next 9 2 #[0, 5] 0).toOption", "some (#[0, 5], 65, some 64)"),
    ("(next 9 2 #[0, 5] 65).toOption", "some (#[0, 5], 67, some 66)"),
    ("(next 9 2 #[0, 5] 67).toOption", "some (#[0, 5], 128, none)"),
    ("(next 9 1 #[0] 0).toOption", "some (#[0], 64, none)"),
    ("(new 0 1 #[3]).toOption", "some (#[3], 0)"),
]


def bitset_selftest(T):
    bad = 0
    for src, struct, fns, ns, evals in (("bitset.rs", "Bitset", BITSET_FNS, "Rlib.TrTestBits", BITSET_EVALS),
                                        ("bits_iter.rs", "BitsIter", ["new", "next"], "Rlib.TrTestBitsIter", BITSITER_EVALS)):
        with tempfile.TemporaryDirectory() as d:
            out = os.path.join(d, "S.lean")
            info, problems = T.run("/repo/rlib/bitset/src/" + src, out, ns, src, "selftest", struct, fns)
            text = open(out).read() + f"open {ns}\n" + "".join(f"#eval {e}\n" for e, _ in evals)
            open(out, "w").write(text)
            r = subprocess.run(["lake", "env", "lean", out], cwd=os.path.join(os.path.dirname(HERE), "lean"), capture_output=True, text=True)
        got = [l for l in r.stdout.split("\n") if l.strip()]
        want = [w for _, w in evals]
        if problems or r.returncode != 0 or got != want:
            bad += 1
            print(f"FAIL typed {src}:", problems, r.returncode, [(g, w) for g, w in zip(got, want) if g != w], r.stdout[-600:], r.stderr[-300:])
        else:
            print(f"ok   typed: rlib/bitset {src}: {len(info['functions'])} functions, {len(info['loops'])} loops, {len(evals)} evaluations as expected")
    return bad


def typed_selftest():
    import rs2lean_typed as T
    bad = vec_selftest(T)
    bad += arr_selftest(T)
    bad += bitset_selftest(T)
    mint = open("/repo/rlib/mint/src/lib.rs").read()
    d0 = T.Translator(mint, "lib.rs").translate("Modular", MINT_FNS)
    m2 = mint
    for old, new in (("res", "acc"), ("rhs", "other"), ("k", "quot"), ("x", "xx"), ("y", "yy"), ("d", "expo")):
        m2 = re.sub(rf"\b{old}\b", new, m2)
    m2 = m2.replace("const M: u32", "const MODULUS: u32").replace("<M>", "<MODULUS>")
    m2 = re.sub(r"\bM\b", "MODULUS", m2).replace("pub fn inv", "// inverse\n    /* by extended /* Euclid */ */\n    pub   fn   inv")
    d1 = T.Translator(m2, "lib.rs").translate("Modular", MINT_FNS)
    if d0 != d1 or m2 == mint:
        bad += 1
        print("FAIL typed: renaming changes the generated text")
    else:
        print("ok   typed: mint with variables and the const generic renamed + comments: identical text")
    rnd = open("/repo/rlib/rand/src/randomable.rs").read()
    r0 = T.MacroTranslator(rnd, "r.rs", "make_randomable").translate_all(["gen_from_u64"])
    r2 = rnd.replace("$it", "$s").replace("$ut", "$u").replace("$t", "$e")
    r2 = re.sub(r"\blen\b", "span", re.sub(r"\brng\b", "word", r2))
    if r0 != T.MacroTranslator(r2, "r.rs", "make_randomable").translate_all(["gen_from_u64"]) or r2 == rnd:
        bad += 1
        print("FAIL typed: renaming macro parameters changes the generated text")
    else:
        print("ok   typed: randomable.rs with macro parameters and variables renamed: identical text")
    n = 0
    for body, frag in TY_REJECT:
        src = TY + body + "    }\n}\n"
        try:
            T.Translator(src, "t.rs").translate("S", ["f"])
            bad += 1
            print("FAIL typed accepted:", body.strip())
        except T.TranslateError as e:
            n += 1
            if frag not in str(e):
                bad += 1
                print(f"FAIL typed: wrong message {e!s} (wanted {frag!r})")
    print(f"{'ok  ' if n == len(TY_REJECT) else 'FAIL'} typed: {n} out-of-subset sources rejected with file:line")
    return bad


if __name__ == "__main__":
    sys.exit(main())
