#!/usr/bin/env python3
"""
Self-test of tools/rs2lean.py (not part of any check; run by hand after editing the translator):

  1. translates tools/rs2lean_selftest/sample.rs (nested loops, if/else with assignments falling through, `&&`, `?`,
     tuples, shadowing, block-local variables), elaborates the result with `lake env lean` and compares `#eval`s of the
     generated definitions with values computed by hand;
  2. renaming every variable of rlib/gcd/src/lib.rs and adding comments gives byte-identical Lean text;
  3. every construct outside the subset is rejected with file:line (never skipped).
"""
import os
import re
import subprocess
import sys
import tempfile

HERE = os.path.dirname(os.path.abspath(__file__))
sys.path.insert(0, HERE)
import rs2lean  # noqa: E402

EVALS = [  # (Lean expression, expected output of #eval)
    ("(pow_mod 100 3 13 1000).toOption", "some 323"),            # 3^13 = 1594323
    ("(collatz_steps 200 27).toOption", "some 111"),
    ("(tri 100 10).toOption", "some 55"),
    ("(minmax 0 5 (-2)).toOption", "some (-2, 5)"),
    ("(clamp_sub 0 10 3).toOption", "some (some 3)"),
    ("(clamp_sub 0 4 3).toOption", "some (some 1)"),
    ("(clamp_sub 0 2 3).toOption", "some none"),
    ("(helper 0 (-4)).toOption", "some (some (-4, -4, 4))"),
    ("(match pow_mod 100 3 13 0 with | .error .divzero => 1 | _ => 0)", "1"),
    ("(match tri 5 10 with | .error .fuel => 1 | _ => 0)", "1"),
]

GCD = "pub fn f<T: Integer>(a: T, b: T) -> T {\n"
REJECT = [  # (source, fragment expected in the error message)
    (GCD + "    let x = a as T;\n    x\n}\n", ":2: `as` casts"),
    (GCD + "    loop { }\n}\n", ":2: `loop`"),
    (GCD + "    for i in a { }\n    b\n}\n", ":2: `for`"),
    (GCD + "    a.pow(b)\n}\n", ":2: method `pow`"),
    (GCD + "    a << b\n}\n", ":2: shift"),
    (GCD + "    a & b\n}\n", ":2: binary `&`"),
    (GCD + "    let mut a = a;\n    while a != b {\n        return a;\n    }\n    a\n}\n", ":4: `return` inside a `while`"),
    (GCD + "    let c = a == b;\n    a\n}\n", ":2: boolean values"),
    (GCD + "    if a == b || a / &b == b { return a; }\n    b\n}\n", ":2: the right operand"),
    (GCD + "    other(a, b)\n}\n", ":2: call of `other`"),
    (GCD + "    println!(\"x\");\n    a\n}\n", "literals"),
    (GCD + "    a + 1\n}\n", ":2: integer literal"),
    (GCD + "    if a == b { a }\n}\n", "without `else`"),
    (GCD + "    a = b;\n    a\n}\n", ":2: assignment to `a`, which is not declared `mut`"),
    ("pub fn f<T: Copy>(a: T) -> T {\n    a\n}\n", ":1: type parameter `T` is not bounded by `Integer`"),
    ("pub fn f(a: i64) -> i64 {\n    a\n}\n", ":1: expected `<`"),
    ("struct S;\n" + GCD + "    a\n}\n", ":1: top-level item"),
    ("#[inline]\n" + GCD + "    a\n}\n", ":1: top-level item"),
    ("pub fn f<T: Integer>(a: T) -> T {\n    g(a)\n}\npub fn g<T: Integer>(a: T) -> T {\n    f(a)\n}\n", "mutual recursion"),
]


def main():
    bad = 0
    # 1. sample
    src = open(os.path.join(HERE, "rs2lean_selftest", "sample.rs")).read()
    defs, info = rs2lean.translate_source(src, "sample.rs")
    text = rs2lean.render(defs, "Rlib.TrTest", "sample.rs", "selftest", "Sample")
    text += "open Rlib.TrTest\n" + "".join(f"#eval {e}\n" for e, _ in EVALS)
    with tempfile.TemporaryDirectory() as d:
        p = os.path.join(d, "Sample.lean")
        open(p, "w").write(text)
        r = subprocess.run(["lake", "env", "lean", p], cwd=os.path.join(os.path.dirname(HERE), "lean"), capture_output=True, text=True)
    got = [l for l in r.stdout.split("\n") if l.strip()]
    want = [w for _, w in EVALS]
    if r.returncode != 0 or got != want:
        bad += 1
        print("FAIL sample:", r.returncode, got, want, r.stderr[-500:])
    else:
        print(f"ok   sample.rs: {len(info['functions'])} functions, {len(info['loops'])} loops, {len(EVALS)} evaluations as expected")
    # 2. renaming / comments
    g = open("/repo/rlib/gcd/src/lib.rs").read()
    d0, _ = rs2lean.translate_source(g, "lib.rs")
    g2 = g
    for old, new in (("b_abs", "q9"), ("y0", "k1"), ("x0", "k2"), ("m1", "mod_a"), ("m2", "mod_b"), ("a1", "ra"), ("a2", "rb"),
                     ("a", "alpha"), ("b", "beta"), ("c", "gamma"), ("g", "gg"), ("x", "xx")):
        g2 = re.sub(rf"\b{old}\b", new, g2)
    g2 = g2.replace("pub fn lcm", "// a comment\n/* and /* a nested */ one */\npub   fn   lcm").replace("%=", " %=  ")
    # cosmetic forms that must normalise to the same text: `loop { if c { break; } … }` for `while !c`, `let x: T = …` annotations
    g2 = g2.replace("    while beta != T::ZERO {\n        alpha  %=   &beta;", "    loop {\n        if beta == T::ZERO {\n            break;\n        }\n        alpha %= &beta;")
    g2 = g2.replace("let q9 = beta.abs();", "let q9: T = beta.abs();").replace("let (k1, k2) = egcd(", "let (k1, k2): (T, T) = egcd(")
    assert "loop {" in g2 and "q9: T" in g2 and "(T, T) = egcd" in g2
    d1, _ = rs2lean.translate_source(g2, "lib.rs")
    if d0 != d1 or g2 == g:
        bad += 1
        print("FAIL renaming changes the generated text")
    else:
        print("ok   renaming all variables + comments + spacing + loop/break for while + let annotations: identical text")
    # 3. rejections
    for s, frag in REJECT:
        try:
            rs2lean.translate_source(s, "t.rs")
            bad += 1
            print("FAIL accepted:", s.replace("\n", " ⏎ "))
        except rs2lean.TranslateError as e:
            if frag not in str(e) or not re.match(r"t\.rs:\d+: ", str(e)):
                bad += 1
                print(f"FAIL wrong message {e!s} (wanted {frag!r}) for:", s.replace("\n", " ⏎ "))
    print(f"{'ok  ' if not bad else 'FAIL'} {len(REJECT)} out-of-subset sources rejected with file:line")
    bad += typed_selftest()
    return 1 if bad else 0


MINT_FNS = ["new", "Add::add", "Sub::sub", "Neg::neg", "Mul::mul", "pow", "inv", "Div::div"]
TY = "pub struct S<const M: u32> {\n    v: u32,\n}\nimpl<const M: u32> S<M> {\n    pub fn f(&self, d: u64) -> Self {\n"
TY_REJECT = [  # (body of `f`, fragment expected in the error) for tools/rs2lean_typed.py
    ("        match d { _ => *self }\n", ":6: `match`"),
    ("        let x = d as f64;\n        *self\n", ":6: type `f64`"),
    ("        Self { v: self.v.pow(2) }\n", ":6: method `.pow()`"),
    ("        Self { v: self.v + d }\n", ":6: type mismatch: u64 vs u32"),
    ("        Self { v: 4294967296 }\n", ":6: literal 4294967296 does not fit `u32`"),
    ("        let t = (self.v, d);\n        *self\n", ":6: tuples"),
    ("        *self + *self\n", ":6: `impl Add for S` is not defined in this file"),
    ("        Self::g(d)\n", ":6: a function `g` of `S` is not defined"),
    ("        unsafe { *self }\n", ":6: `unsafe`"),
    ("        let c = d == 0;\n        *self\n", ":6: boolean values"),
    ("        self.f(d)\n", ":6: recursion"),
    ("        for i in 0..=d { }\n        *self\n", ":6: only `for i in a..b`"),
    ("        loop { if d == 0 { return *self; } }\n", ":6: `loop` without"),
    ("        let x: u32 = d;\n        *self\n", ":6: type mismatch"),
]


def typed_selftest():
    import rs2lean_typed as T
    bad = 0
    mint = open("/repo/rlib/mint/src/lib.rs").read()
    d0 = T.Translator(mint, "lib.rs").translate("Modular", MINT_FNS)
    m2 = mint
    for old, new in (("res", "acc"), ("rhs", "other"), ("k", "quot"), ("x", "xx"), ("y", "yy"), ("d", "expo")):
        m2 = re.sub(rf"\b{old}\b", new, m2)
    m2 = m2.replace("const M: u32", "const MODULUS: u32").replace("<M>", "<MODULUS>")
    m2 = re.sub(r"\bM\b", "MODULUS", m2).replace("pub fn inv", "// inverse\n    /* by extended /* Euclid */ */\n    pub   fn   inv")
    d1 = T.Translator(m2, "lib.rs").translate("Modular", MINT_FNS)
    if d0 != d1 or m2 == mint:
        bad += 1
        print("FAIL typed: renaming changes the generated text")
    else:
        print("ok   typed: mint with variables and the const generic renamed + comments: identical text")
    rnd = open("/repo/rlib/rand/src/randomable.rs").read()
    r0 = T.MacroTranslator(rnd, "r.rs", "make_randomable").translate_all(["gen_from_u64"])
    r2 = rnd.replace("$it", "$s").replace("$ut", "$u").replace("$t", "$e")
    r2 = re.sub(r"\blen\b", "span", re.sub(r"\brng\b", "word", r2))
    if r0 != T.MacroTranslator(r2, "r.rs", "make_randomable").translate_all(["gen_from_u64"]) or r2 == rnd:
        bad += 1
        print("FAIL typed: renaming macro parameters changes the generated text")
    else:
        print("ok   typed: randomable.rs with macro parameters and variables renamed: identical text")
    n = 0
    for body, frag in TY_REJECT:
        src = TY + body + "    }\n}\n"
        try:
            T.Translator(src, "t.rs").translate("S", ["f"])
            bad += 1
            print("FAIL typed accepted:", body.strip())
        except T.TranslateError as e:
            n += 1
            if frag not in str(e):
                bad += 1
                print(f"FAIL typed: wrong message {e!s} (wanted {frag!r})")
    print(f"{'ok  ' if n == len(TY_REJECT) else 'FAIL'} typed: {n} out-of-subset sources rejected with file:line")
    return bad


if __name__ == "__main__":
    sys.exit(main())
