#!/bin/bash
# usage: tools/confirm_round.sh <round-prefix e.g. /tmp/mut3> <worker-id> Cxx [Cyy ...]   — confirms every m* directory delivered for the listed properties
pre=$1; w=$2; shift 2
cd "$(dirname "$0")/.."
for pid in "$@"; do
  for d in ${pre}_${pid}_out/m*/; do
    [ -f "$d/patch.diff" ] || continue
    k=$(basename $d)
    [ -d seeded/${pid}_$k ] && continue
    CONFIRM_WT=/tmp/confirm_wt_$w python3 tools/confirm_mutant.py $pid ${d%/} $k > /tmp/confirm_${pid}_$k.log 2>&1
    echo "$pid $k rc=$? $(tail -1 /tmp/confirm_${pid}_$k.log)"
  done
done
