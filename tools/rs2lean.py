#!/usr/bin/env python3
"""
rs2lean — translate a small subset of Rust (generic integer functions over the `Integer` trait of
rlib_num_traits, as used by rlib/gcd/src/lib.rs) into Lean 4 definitions over `Int`.

    python3 tools/rs2lean.py SRC.rs --namespace Rlib.GcdSrc --out lean/RlibModel/Generated/GcdSrc.lean [--fns gcd,lcm,egcd,crt]

The translation is deliberately syntax-directed and dumb: one rule per construct, no optimisation, no
reordering, so that the emitted text can be compared with the source by eye.  Anything that has no rule is
an error `file:line: …` (exit 1) — an unsupported construct is a broken correspondence, never skipped.

Pipeline: tokenizer (comments and whitespace dropped) -> recursive-descent parser -> AST -> emitter.

TRANSLATION SCHEME
==================
Semantic domain.  A value of the generic type `T` is a Lean `Int` (unbounded: machine overflow is NOT part of
this translation, see docs/notes/translator.md).  `Option<X>` is `Option X'`, `(X, Y)` is `X' × Y'`.
Every function and every loop returns `Except Rlib.Panic _`; the only panics this subset can raise are
`divzero` (`/`, `%` by zero) and `fuel` (the translation's own recursion budget).

Items
  I1  `use path;`                       ignored (listed in the summary).  Any other top-level item that is not a
                                        `fn` is an error (a local trait/impl/macro could change what the functions mean).
  I2  `[pub] fn f<T: B1 + B2…>(x1: T, …, xn: T) -> R { body }` with `Integer` among the bounds and
      R ∈ { T, Option<R>, (R, …, R) }   `def f (fuel : Nat) (p0 … p(n-1) : Int) : Except Panic R' := ⟦body⟧`
                                        when `f` does not call itself, and
                                        `def f : Nat → Int → … → Except Panic R'
                                           | 0, _, … => .error .fuel
                                           | fuel + 1, p0, …, p(n-1) => ⟦body⟧`      when it does (structural recursion on fuel).
      Only the requested functions (`--fns`, default all) and the functions they call are translated; callees are
      emitted first; mutual recursion is an error.  Function names are kept; everything else is renamed (N1).
Names
  N2  after each function `f`: `abbrev f_callee0 := @g0`, `f_callee1 := …` for the distinct functions and loops `f` calls directly, in
      order of first call; every `def` is tagged `@[src_def]` (a simp set declared in Generated/AttrSrc.lean).  Both exist only
      so that the equivalence proofs need not mention the names of private helpers.
  N1  parameters are `p0, p1, …` in order; every binding occurrence of a local (a `let`, an assignment to a `mut`
      variable, a pattern variable, the result of a call, the state coming out of a loop) gets the next fresh
      `v0, v1, …` of its function (SSA).  The environment maps each Rust variable in scope to its current Lean name;
      `let` of an existing name shadows it; variables declared inside a `{ block }` disappear at its end while
      assignments to outer `mut` variables made inside it persist.  No Rust identifier other than function names
      reaches the output, so a pure rename of variables yields byte-identical Lean text.
Expressions — ⟦e⟧ = (preamble, pure Lean term).  The preamble is a list of steps executed in Rust's evaluation order
(operands left to right, arguments left to right) before the term is used:
  E1  `x`                               the current Lean name of `x`
  E2  `T::ZERO`, `T::ONE`               `(0 : Int)`, `(1 : Int)`
  E3  `&e`, `&mut e`, `e.clone()`       ⟦e⟧       (references to and copies of an integer are the integer)
  E4  `e.abs()`, `e.into_abs()`         `(Int.natAbs ⟦e⟧ : Int)`
  E5  `-e`                              `(-⟦e⟧)`
  E6  `e1 + e2`, `e1 - e2`, `e1 * e2`   `(⟦e1⟧ + ⟦e2⟧)` …   preamble = preamble(e1) ++ preamble(e2)
  E7  `e1 / e2`, `e1 % e2`              preamble(e1) ++ preamble(e2) ++ [guard ⟦e2⟧ = 0],  term `(Int.tdiv ⟦e1⟧ ⟦e2⟧)` / `(Int.tmod ⟦e1⟧ ⟦e2⟧)`
                                        (Rust integer division truncates towards zero; by zero it panics)
  E8  `g(e1, …, ek)`                    preamble(e1) ++ … ++ preamble(ek) ++ [bind v ← g fuel ⟦e1⟧ … ⟦ek⟧],  term `v`
  E9  `e?`                              preamble(e) ++ [try v ← ⟦e⟧],  term `v`     (only where `return` is allowed and R is an Option)
  E10 `Some(e)`, `None`, `(e1, …, ek)`  `(some ⟦e⟧)`, `none`, `(⟦e1⟧, …, ⟦ek⟧)`
  E11 `(e)`                             ⟦e⟧
Preamble steps wrap the rest of the computation K:
  P1  guard c                           `if c then .error .divzero else K`
  P2  bind v ← call                     `match call with | .error e => .error e | .ok v => K`
  P3  try v ← t                         `match t with | none => .ok none | some v => K`          (Rust: `return None`)
Conditions (only in `if` / `while`) — ⟦c⟧ = (preamble, Lean Prop, decidable):
  C1  `e1 == e2`, `!=`, `<`, `<=`, `>`, `>=`     `⟦e1⟧ = ⟦e2⟧`, `≠`, `<`, `≤`, `>`, `≥`
  C2  `!c`, `c1 && c2`, `c1 || c2`      `¬ (⟦c⟧)`, `(⟦c1⟧) ∧ (⟦c2⟧)`, `(⟦c1⟧) ∨ (⟦c2⟧)`; the right operand of `&&`/`||` must have an
                                        empty preamble (otherwise short-circuiting would matter: error)
Statements — ⟦s ; rest⟧, `rest` = the statements that follow up to the end of the function / loop body:
  S1  `let [mut] x = e;`                preamble(e) wrapped around `let v := ⟦e⟧` ⟦rest⟧ with x ↦ v
  S1' `let x: R = e;`                   the annotation must be a type of I2's shapes and agree with the type of `e` where that is known; then S1
  S2  `let (q1, …, qk) = e;`            preamble(e) around `match ⟦e⟧ with | (q1', …, qk') => ⟦rest⟧`  (`_` stays `_`, patterns nest)
  S3  `x = e;`  `x op= e;` (x `mut`)    as S1 for `x op e`, then x ↦ v                     (op ∈ + - * / %)
  S4  `std::mem::swap(&mut x, &mut y);` no code: the Lean names of x and y are exchanged in the environment
  S5  `return e;`                       preamble(e) around `.ok ⟦e⟧`; the rest is dropped.  Not allowed inside `while`.
  S6  `if c { A } [else { B }]`         preamble(c) around `if ⟦c⟧ then (⟦A ; rest⟧) else (⟦B ; rest⟧)`   — the continuation is
                                        duplicated into both branches (a branch that ends in `return` drops it, S5)
  S7  `while c { B }`                   a separate definition for the loop, emitted before the function:
                                          `def f_loopK : Nat → Int → … → Except Panic (state)
                                             | 0, _, … => .error .fuel
                                             | fuel + 1, p0, …, pm => preamble(c) around
                                                 `if ⟦c⟧ then (⟦B ; f_loopK fuel <current names of the variables>⟧) else (.ok (<state>))`
                                        parameters = the variables in scope that are mentioned in `c` or `B` (declaration order),
                                        state = the `mut` ones among them (a tuple; a single value if one; `()` if none);
                                        all of them must be of type T.  At the loop:  [bind (v…) ← f_loopK fuel <variables>]
                                        and every state variable ↦ its fresh v.  `break`, `continue`, `return` in a loop: error.
  S7' `loop { if c { break; } B }`      S7 for `while !c { B }`;  `loop { B  if c { break; } }` = `{ B }` followed by S7 for `while !c { B }`;
                                        `!` is pushed into a comparison (`!(b == 0)` from a `break` test becomes `b != 0`), so these forms give
                                        the text of the `while` form.  Any other `loop` / `break` / `continue` / `for`: error.
  S8  `e;`                              preamble(e) around ⟦rest⟧ (the value is dropped)
  S9  tail expression `e` of the function body (or of a branch in tail position)      preamble(e) around `.ok ⟦e⟧`
Fuel
  F1  every call and every loop entry passes on the identifier `fuel`: in a non-recursive function that is its fuel
      parameter, in a recursive function or a loop it is the predecessor bound by the `fuel + 1` pattern.  Running out
      is `.error .fuel`; Lemmas/GcdSrc.lean proves explicit sufficient budgets.

What the translator does not look at: types other than the shapes in I2 (rustc type-checks the file; the harness build
fails otherwise), trait implementations (`Integer` for the primitive types is assumed to be the primitive `+ - * / %`,
`abs`, comparison), overflow, ownership.
"""
import json
import os
import re
import sys


class TranslateError(Exception):
    def __init__(self, file, line, msg):
        super().__init__(f"{file}:{line}: {msg}")
        self.file, self.line, self.msg = file, line, msg


# ------------------------------------------------------------------------------------------------
# tokenizer
# ------------------------------------------------------------------------------------------------

PUNCT = ["...", "..=", "::", "->", "=>", "==", "!=", "<=", ">=", "&&", "||", "+=", "-=", "*=", "/=", "%=", "^=", "&=", "|=", "..",
         "+", "-", "*", "/", "%", "=", "<", ">", "!", "&", "|", "^", ".", ",", ";", ":", "(", ")", "{", "}", "[", "]", "?", "#", "@", "$", "~"]
# `<<`, `>>` (and `<<=`, `>>=`) are never produced: `Neg<Output = T>>` must close two generic lists.  The expression
# parser rejects two adjacent `<`/`>` as an unsupported shift.


class Tok:
    __slots__ = ("kind", "val", "line", "pos")

    def __init__(self, kind, val, line, pos):
        self.kind, self.val, self.line, self.pos = kind, val, line, pos

    def __repr__(self):
        return f"{self.kind}:{self.val}@{self.line}"


def tokenize(src, file, allow_strings=False):
    """`allow_strings`: string / char literals and lifetimes become opaque tokens (kind `str`) instead of errors — for files
    in which only some items are translated; the parsers have no rule that accepts such a token."""
    toks = []
    i, n, line = 0, len(src), 1
    while i < n:
        c = src[i]
        if c == "\n":
            line += 1
            i += 1
        elif c in " \t\r":
            i += 1
        elif src.startswith("//", i):
            while i < n and src[i] != "\n":
                i += 1
        elif src.startswith("/*", i):
            depth, start = 1, line
            i += 2
            while i < n and depth > 0:
                if src.startswith("/*", i):
                    depth += 1
                    i += 2
                elif src.startswith("*/", i):
                    depth -= 1
                    i += 2
                else:
                    if src[i] == "\n":
                        line += 1
                    i += 1
            if depth > 0:
                raise TranslateError(file, start, "unterminated block comment")
        elif c.isalpha() or c == "_":
            j = i
            while j < n and (src[j].isalnum() or src[j] == "_"):
                j += 1
            if src[i:j] in ("r", "b", "br") and j < n and src[j] in "\"'#":
                if not allow_strings:
                    raise TranslateError(file, line, "string / byte literals are outside the translated subset")
                m = re.match(r"(?:br?|r)(#*)\"", src[i:]) if "r" in src[i:j] else None
                if m:                                    # raw string: ends at `"` followed by the same number of `#`
                    end = src.find('"' + m.group(1), i + m.end())
                    if end < 0:
                        raise TranslateError(file, line, "unterminated raw string")
                    end += 1 + len(m.group(1))
                    toks.append(Tok("str", src[i:end], line, i))
                    line += src.count("\n", i, end)
                    i = end
                    continue
                i = j                                    # `b"…"` / `b'…'`: the prefix is dropped, the literal follows
                continue
            toks.append(Tok("ident", src[i:j], line, i))
            i = j
        elif c.isdigit():
            j = i
            while j < n and (src[j].isalnum() or src[j] == "_"):
                j += 1
            toks.append(Tok("int", src[i:j], line, i))
            i = j
        elif c in "\"'":
            if not allow_strings:
                raise TranslateError(file, line, "string / char literals and lifetimes are outside the translated subset")
            if c == '"':
                j = i + 1
                while j < n and src[j] != '"':
                    j += 2 if src[j] == "\\" else 1
                if j >= n:
                    raise TranslateError(file, line, "unterminated string literal")
                j += 1
            else:
                m = re.match(r"'(?:\\(?:u\{[0-9a-fA-F_]+\}|x[0-9a-fA-F]{2}|.)|[^\\'])'", src[i:])
                m = m or re.match(r"'[A-Za-z_][A-Za-z0-9_]*", src[i:])
                if not m:
                    raise TranslateError(file, line, "malformed char literal / lifetime")
                j = i + m.end()
            toks.append(Tok("str", src[i:j], line, i))
            line += src.count("\n", i, j)
            i = j
        else:
            for p in PUNCT:
                if src.startswith(p, i):
                    toks.append(Tok("punct", p, line, i))
                    i += len(p)
                    break
            else:
                raise TranslateError(file, line, f"unexpected character {c!r}")
    toks.append(Tok("eof", "", line, n))
    return toks


# ------------------------------------------------------------------------------------------------
# AST
# ------------------------------------------------------------------------------------------------

class Node:
    def __init__(self, kind, line, **kw):
        self.kind, self.line = kind, line
        self.__dict__.update(kw)


KEYWORDS = {"as", "break", "const", "continue", "crate", "else", "enum", "extern", "false", "fn", "for", "if", "impl", "in", "let",
            "loop", "match", "mod", "move", "mut", "pub", "ref", "return", "self", "Self", "static", "struct", "super", "trait",
            "true", "type", "unsafe", "use", "where", "while", "async", "await", "dyn"}


class Parser:
    allow_unit_return = False   # a subclass whose functions may return `()` sets this; here and in rs2lean_typed.py `return;` is an error

    def __init__(self, src, file, allow_strings=False):
        self.file = file
        self.toks = tokenize(src, file, allow_strings)
        self.i = 0
        self.tyvar = None      # name of the generic type parameter of the function being parsed

    # -- helpers
    def err(self, msg, tok=None):
        tok = tok or self.peek()
        raise TranslateError(self.file, tok.line, msg)

    def peek(self, k=0):
        return self.toks[min(self.i + k, len(self.toks) - 1)]

    def at(self, val, k=0):
        t = self.peek(k)
        return t.kind in ("punct", "ident") and t.val == val

    def next(self):
        t = self.toks[self.i]
        if t.kind != "eof":
            self.i += 1
        return t

    def eat(self, val):
        if self.at(val):
            return self.next()
        return None

    def expect(self, val):
        if not self.at(val):
            self.err(f"expected `{val}`, found `{self.peek().val or 'end of file'}`")
        return self.next()

    def ident(self, what="identifier"):
        t = self.peek()
        if t.kind != "ident" or t.val in KEYWORDS:
            self.err(f"expected {what}, found `{t.val or 'end of file'}`")
        return self.next()

    # -- items
    def parse_file(self):
        uses, fns = [], []
        while self.peek().kind != "eof":
            t = self.peek()
            if self.at("use"):
                start = self.i
                while not self.at(";"):
                    if self.peek().kind == "eof":
                        self.err("unterminated `use`", t)
                    self.next()
                self.next()
                uses.append(" ".join(x.val for x in self.toks[start + 1:self.i - 1]).replace(" :: ", "::"))
            elif self.at("fn") or (self.at("pub") and self.at("fn", 1)):
                fns.append(self.parse_fn_header())
            else:
                self.err(f"top-level item starting with `{t.val}` is outside the translated subset (only `use` and `[pub] fn`)")
        return uses, fns

    def parse_fn_header(self):
        """Parses the signature; records where the body starts and skips it (bodies are parsed on demand)."""
        self.eat("pub")
        kw = self.expect("fn")
        name = self.ident("function name").val
        fn = Node("fn", kw.line, name=name, header_error=None, body_start=None, tyvar=None, params=None, ret=None, bounds=None)
        save = self.i
        try:
            self.parse_signature(fn)
        except TranslateError as e:
            # a function that is never requested may have any signature; remember the error and find its body
            fn.header_error = e
            self.i = save
            while not self.at("{"):
                if self.peek().kind == "eof" or self.at(";"):
                    raise e
                self.next()
        fn.body_start = self.i
        self.skip_braces()
        return fn

    def skip_braces(self):
        open_tok = self.expect("{")
        depth = 1
        while depth > 0:
            t = self.next()
            if t.kind == "eof":
                self.err("unbalanced `{`", open_tok)
            if t.kind == "punct" and t.val == "{":
                depth += 1
            elif t.kind == "punct" and t.val == "}":
                depth -= 1

    def parse_signature(self, fn):
        self.expect("<")
        fn.tyvar = self.ident("type parameter").val
        bounds = []
        if self.eat(":"):
            while True:
                bounds.append(self.parse_bound())
                if not self.eat("+"):
                    break
        if self.at(","):
            self.err("more than one generic parameter is outside the translated subset")
        self.expect(">")
        fn.bounds = bounds
        if "Integer" not in [b.split("<")[0].split("::")[-1] for b in bounds]:
            self.err(f"type parameter `{fn.tyvar}` is not bounded by `Integer`: its operations cannot be read as integer operations")
        self.tyvar = fn.tyvar
        self.expect("(")
        params = []
        while not self.at(")"):
            mut = bool(self.eat("mut"))
            p = self.ident("parameter name")
            self.expect(":")
            ty = self.parse_type()
            if ty != "T":
                self.err(f"parameter `{p.val}` is not of the generic integer type `{fn.tyvar}`", p)
            params.append((p.val, mut))
            if not self.eat(","):
                break
        self.expect(")")
        fn.params = params
        self.expect("->")
        fn.ret = self.parse_type()
        if self.at("where"):
            self.err("`where` clauses are outside the translated subset")
        if not self.at("{"):
            self.err(f"expected `{{`, found `{self.peek().val}`")

    def parse_bound(self):
        """path [ <balanced generic arguments> ]  -> its text"""
        if self.at("for") or self.at("?"):
            self.err("higher-ranked / `?Sized` bounds are outside the translated subset")
        parts = [self.ident("trait name").val]
        while self.eat("::"):
            parts.append(self.ident("trait name").val)
        text = "::".join(parts)
        if self.at("<"):
            depth, start = 0, self.i
            while True:
                t = self.next()
                if t.kind == "eof":
                    self.err("unbalanced `<` in a trait bound")
                if t.val == "<":
                    depth += 1
                elif t.val == ">":
                    depth -= 1
                    if depth == 0:
                        break
            text += "".join(x.val for x in self.toks[start:self.i])
        return text

    def parse_type(self):
        """T | Option<ty> | (ty, …)   ->   "T" | ("opt", ty) | ("tuple", [ty…])"""
        if self.at("("):
            self.next()
            tys = []
            while not self.at(")"):
                tys.append(self.parse_type())
                if not self.eat(","):
                    break
            self.expect(")")
            if len(tys) < 2:
                self.err("unit / one-element tuple types are outside the translated subset")
            return ("tuple", tys)
        t = self.ident("type")
        if t.val == self.tyvar:
            return "T"
        if t.val == "Option":
            self.expect("<")
            inner = self.parse_type()
            self.expect(">")
            return ("opt", inner)
        self.err(f"type `{t.val}` is outside the translated subset (only `{self.tyvar}`, `Option<_>`, tuples)", t)

    # -- blocks and statements
    def parse_body(self, fn):
        if fn.header_error:
            raise fn.header_error
        self.i = fn.body_start
        self.tyvar = fn.tyvar
        return self.parse_block()

    def parse_block(self):
        """-> Node block(stmts, tail)   tail = trailing expression without `;` or None"""
        open_tok = self.expect("{")
        stmts, tail = [], None
        while not self.at("}"):
            if self.peek().kind == "eof":
                self.err("unbalanced `{`", open_tok)
            if tail is not None:
                self.err("expected `;` or `}` after an expression")
            t = self.peek()
            if self.at("let"):
                self.next()
                mut = bool(self.eat("mut"))
                pat = self.parse_pattern()
                if mut and pat.kind != "pvar":
                    self.err("`let mut` with a tuple pattern is outside the translated subset", t)
                ann = None
                if self.eat(":"):
                    ann = self.parse_type()          # S1': checked against the initialiser's type by the emitter, then dropped
                if not self.at("="):
                    self.err("`let` without initialiser is outside the translated subset")
                self.next()
                e = self.parse_expr()
                if self.at("else"):
                    self.err("`let … else` is outside the translated subset")
                self.expect(";")
                stmts.append(Node("let", t.line, pat=pat, mut=mut, expr=e, ann=ann))
            elif self.at("loop"):
                self.next()
                stmts += self.normalise_loop(t, self.parse_block())
                self.eat(";")
            elif self.at("for"):
                self.next()
                pat = self.parse_pattern()
                self.expect("in")
                it = self.parse_expr()
                b = self.parse_block()
                self.eat(";")
                stmts.append(Node("for", t.line, pat=pat, iter=it, body=b))
            elif self.at("break") or self.at("continue"):
                self.next()
                if not self.at("}"):
                    self.expect(";")
                stmts.append(Node(t.val, t.line))
            elif self.at("while"):
                self.next()
                c = self.parse_expr()
                b = self.parse_block()
                self.eat(";")
                stmts.append(Node("while", t.line, cond=c, body=b))
            elif self.at("if"):
                stmts.append(self.parse_if())
                self.eat(";")
            elif self.at("return"):
                self.next()
                if self.at(";") or self.at("}"):
                    if not self.allow_unit_return:
                        self.err("`return` without a value is outside the translated subset", t)
                    e = None                             # only for rs2lean_generic_struct.py (`&mut self` functions returning `()`)
                else:
                    e = self.parse_expr()
                if not self.at("}"):
                    self.expect(";")
                stmts.append(Node("return", t.line, expr=e))
            elif t.kind == "ident" and t.val in ("match", "unsafe", "fn", "const", "static", "struct",
                                                 "enum", "impl", "trait", "mod", "use", "type", "macro_rules"):
                self.err(f"`{t.val}` is outside the translated subset")
            elif self.at("{"):
                self.err("nested bare blocks are outside the translated subset")
            elif self.at(";"):
                self.next()
            else:
                e = self.parse_expr(allow_assign=True)
                if self.eat(";"):
                    stmts.append(Node("expr", t.line, expr=e))
                else:
                    if e.kind in ("assign", "swap"):
                        self.err("expected `;` after an assignment / swap")
                    tail = e
        self.expect("}")
        return Node("block", open_tok.line, stmts=stmts, tail=tail)

    @staticmethod
    def negate(c):
        """`!c` with the negation pushed into a comparison, so that `loop { if b == 0 { break; } … }` and `while b != 0 { … }`
        give the same condition text."""
        flip = {"==": "!=", "!=": "==", "<": ">=", ">=": "<", ">": "<=", "<=": ">"}
        if c.kind == "cmp":
            return Node("cmp", c.line, op=flip[c.op], l=c.l, r=c.r)
        if c.kind == "not":
            return c.e
        return Node("not", c.line, e=c)

    def normalise_loop(self, t, body):
        """S7': `loop { if c { break; } B }`  =  `while !c { B }`;   `loop { B  if c { break; } }`  =  `{ B }  while !c { B }`.
        Any other `loop` (no such exit, or a `break` elsewhere) is outside the subset."""
        def is_exit(s):
            return (s.kind == "if" and s.els is None and s.then.tail is None and len(s.then.stmts) == 1 and s.then.stmts[0].kind == "break")
        st = body.stmts
        if body.tail is not None:
            self.err("a `loop` body that ends in a value is outside the translated subset", t)
        if st and is_exit(st[0]):
            rest = Node("block", body.line, stmts=st[1:], tail=None)
            return [Node("while", t.line, cond=self.negate(st[0].cond), body=rest)]
        if st and is_exit(st[-1]):
            rest = Node("block", body.line, stmts=st[:-1], tail=None)
            return [Node("scope", t.line, body=rest), Node("while", t.line, cond=self.negate(st[-1].cond), body=rest)]
        self.err("`loop` without an `if c { break; }` at its head or tail is outside the translated subset", t)

    def parse_if(self):
        t = self.expect("if")
        if self.at("let"):
            self.err("`if let` is outside the translated subset")
        c = self.parse_expr()
        a = self.parse_block()
        b = None
        if self.eat("else"):
            if self.at("if"):
                inner = self.parse_if()
                b = Node("block", inner.line, stmts=[inner], tail=None)
            else:
                b = self.parse_block()
        return Node("if", t.line, cond=c, then=a, els=b)

    def parse_pattern(self):
        t = self.peek()
        if self.at("("):
            self.next()
            ps = []
            while not self.at(")"):
                ps.append(self.parse_pattern())
                if not self.eat(","):
                    break
            self.expect(")")
            if len(ps) < 2:
                self.err("unit / one-element tuple patterns are outside the translated subset", t)
            return Node("ptuple", t.line, pats=ps)
        if t.kind == "ident" and t.val == "_":
            self.next()
            return Node("pwild", t.line)
        if self.at("mut") or self.at("ref") or self.at("&"):
            self.err("`mut` / `ref` / `&` inside patterns is outside the translated subset")
        name = self.ident("pattern")
        if self.at("(") or self.at("::") or self.at("{") or self.at("@"):
            self.err("enum / struct / binding patterns are outside the translated subset")
        return Node("pvar", t.line, name=name.val)

    # -- expressions (Rust precedence: || < && < comparison < + - < * / % < unary < postfix)
    def parse_expr(self, allow_assign=False):
        t = self.peek()
        e = self.parse_or()
        if self.peek().kind == "punct" and self.peek().val in ("=", "+=", "-=", "*=", "/=", "%="):
            op = self.next()
            if not allow_assign:
                self.err("assignment inside an expression is outside the translated subset", op)
            if e.kind != "var":
                self.err("only plain variables can be assigned to in the translated subset", op)
            rhs = self.parse_or()
            return Node("assign", t.line, op=op.val, target=e.name, expr=rhs)
        if self.peek().kind == "punct" and self.peek().val in ("^=", "&=", "|=", "..", "..=", "..."):
            self.err(f"operator `{self.peek().val}` is outside the translated subset")
        if self.at("as"):
            self.err("`as` casts are outside the translated subset")
        return e

    def parse_or(self):
        e = self.parse_and()
        while self.at("||"):
            t = self.next()
            r = self.parse_and()
            e = Node("or", t.line, l=e, r=r)
        return e

    def parse_and(self):
        e = self.parse_cmp()
        while self.at("&&"):
            t = self.next()
            r = self.parse_cmp()
            e = Node("and", t.line, l=e, r=r)
        return e

    def parse_cmp(self):
        e = self.parse_add()
        if self.peek().kind == "punct" and self.peek().val in ("==", "!=", "<", "<=", ">", ">="):
            t = self.next()
            nx = self.peek()
            if t.val in ("<", ">") and nx.kind == "punct" and nx.val in ("<", ">", "<=", ">=", "=") and nx.pos == t.pos + 1:
                self.err("shift operators are outside the translated subset", t)
            r = self.parse_add()
            if self.peek().kind == "punct" and self.peek().val in ("==", "!=", "<", "<=", ">", ">="):
                self.err("chained comparison")
            e = Node("cmp", t.line, op=t.val, l=e, r=r)
        if self.peek().kind == "punct" and self.peek().val in ("&", "|", "^"):
            self.err(f"binary `{self.peek().val}` is outside the translated subset")
        return e

    def parse_add(self):
        e = self.parse_mul()
        while self.peek().kind == "punct" and self.peek().val in ("+", "-"):
            t = self.next()
            r = self.parse_mul()
            e = Node("bin", t.line, op=t.val, l=e, r=r)
        if self.peek().kind == "punct" and self.peek().val in ("&", "|", "^"):
            self.err(f"binary `{self.peek().val}` is outside the translated subset")
        return e

    def parse_mul(self):
        e = self.parse_unary()
        while self.peek().kind == "punct" and self.peek().val in ("*", "/", "%"):
            t = self.next()
            r = self.parse_unary()
            e = Node("bin", t.line, op=t.val, l=e, r=r)
        if self.at("as"):
            self.err("`as` casts are outside the translated subset")
        return e

    def parse_unary(self):
        t = self.peek()
        if self.at("-"):
            self.next()
            return Node("neg", t.line, e=self.parse_unary())
        if self.at("!"):
            self.next()
            return Node("not", t.line, e=self.parse_unary())
        if self.at("&") or self.at("&&"):
            tok = self.next()
            mut = bool(self.eat("mut"))
            inner = Node("ref", t.line, e=self.parse_unary(), mut=mut)
            if tok.val == "&&":
                inner = Node("ref", t.line, e=inner, mut=False)
            return inner
        if self.at("*"):
            self.err("dereference `*` is outside the translated subset")
        return self.parse_postfix()

    def parse_postfix(self):
        e = self.parse_primary()
        while True:
            t = self.peek()
            if self.at("?"):
                self.next()
                e = Node("try", t.line, e=e)
            elif self.at("."):
                self.next()
                if self.peek().kind == "int":
                    self.err("tuple field access is outside the translated subset")
                m = self.ident("method name")
                if self.at("::"):
                    self.err("turbofish is outside the translated subset")
                if not self.at("("):
                    self.err("field access is outside the translated subset", m)
                self.next()
                if not self.at(")"):
                    self.err(f"method `{m.val}` with arguments is outside the translated subset", m)
                self.next()
                if m.val not in ("abs", "into_abs", "clone"):
                    self.err(f"method `.{m.val}()` is outside the translated subset (abs, into_abs, clone)", m)
                e = Node("method", t.line, recv=e, name=m.val)
            elif self.at("(") or self.at("["):
                self.err("call / index on an expression is outside the translated subset")
            else:
                return e

    def parse_primary(self):
        t = self.peek()
        if self.at("("):
            self.next()
            if self.at(")"):
                self.err("unit value is outside the translated subset", t)
            es = [self.parse_expr()]
            trailing = False
            while self.eat(","):
                if self.at(")"):
                    trailing = True
                    break
                es.append(self.parse_expr())
            self.expect(")")
            if len(es) == 1:
                if trailing:
                    self.err("one-element tuple is outside the translated subset", t)
                return es[0]                                                    # E11
            return Node("tuple", t.line, es=es)
        if t.kind == "int":
            self.err(f"integer literal `{t.val}` is outside the translated subset (generic code uses T::ZERO / T::ONE)")
        if t.kind == "ident" and t.val in ("if", "match", "loop", "while", "for", "unsafe", "move", "return", "break", "continue"):
            self.err(f"`{t.val}` in expression position is outside the translated subset")
        if t.kind != "ident" or t.val in KEYWORDS:
            self.err(f"expected an expression, found `{t.val or 'end of file'}`")
        path = [self.next().val]
        while self.at("::"):
            self.next()
            if self.at("<"):
                self.err("turbofish is outside the translated subset")
            path.append(self.ident("path segment").val)
        if self.at("!") and (self.at("(", 1) or self.at("[", 1) or self.at("{", 1)):
            self.err(f"macro invocation `{'::'.join(path)}!` is outside the translated subset", t)
        if self.at("("):
            self.next()
            args = []
            while not self.at(")"):
                args.append(self.parse_expr())
                if not self.eat(","):
                    break
            self.expect(")")
            if path in (["std", "mem", "swap"], ["core", "mem", "swap"]):
                if len(args) != 2 or any(a.kind != "ref" or not a.mut or a.e.kind != "var" for a in args):
                    self.err("`swap` must be applied to `&mut x, &mut y` with plain variables", t)
                return Node("swap", t.line, a=args[0].e.name, b=args[1].e.name)
            if len(path) != 1:
                self.err(f"call of `{'::'.join(path)}` is outside the translated subset", t)
            if path[0] == "Some":
                if len(args) != 1:
                    self.err("`Some` takes one argument", t)
                return Node("some", t.line, e=args[0])
            return Node("call", t.line, fn=path[0], args=args)
        if len(path) == 2 and path[0] == self.tyvar and path[1] in ("ZERO", "ONE"):
            return Node("const", t.line, value=0 if path[1] == "ZERO" else 1)
        if path == ["None"]:
            return Node("none", t.line)
        if len(path) != 1:
            self.err(f"path `{'::'.join(path)}` is outside the translated subset", t)
        return Node("var", t.line, name=path[0])


# ------------------------------------------------------------------------------------------------
# emitter
# ------------------------------------------------------------------------------------------------

def lean_type(ty):
    if ty == "T":
        return "Int"
    if ty[0] == "opt":
        return f"Option {lean_type_atom(ty[1])}"
    return " × ".join(lean_type_atom(t) for t in ty[1])


def lean_type_atom(ty):
    s = lean_type(ty)
    return s if ty == "T" else f"({s})"


class Var:
    __slots__ = ("uid", "rust", "lean", "mut", "ty")

    def __init__(self, uid, rust, lean, mut, ty):
        self.uid, self.rust, self.lean, self.mut, self.ty = uid, rust, lean, mut, ty

    def with_lean(self, lean):
        return Var(self.uid, self.rust, lean, self.mut, self.ty)


def lookup(env, name):
    for v in reversed(env):
        if v.rust == name:
            return v
    return None


def visible(env):
    seen, out = set(), []
    for v in reversed(env):
        if v.rust not in seen:
            seen.add(v.rust)
            out.append(v)
    return list(reversed(out))


def mentioned(node, acc):
    """all identifiers used as variables anywhere below `node` (over-approximation of the free variables)"""
    if isinstance(node, Node):
        if node.kind == "var":
            acc.add(node.name)
        elif node.kind == "assign":
            acc.add(node.target)
        elif node.kind == "swap":
            acc.add(node.a)
            acc.add(node.b)
        for v in node.__dict__.values():
            mentioned(v, acc)
    elif isinstance(node, (list, tuple)):
        for x in node:
            mentioned(x, acc)
    return acc


def calls_in(node, acc):
    if isinstance(node, Node):
        if node.kind == "call":
            acc.append(node)
        for v in node.__dict__.values():
            calls_in(v, acc)
    elif isinstance(node, (list, tuple)):
        for x in node:
            calls_in(x, acc)
    return acc


class Ctx:
    """Where a statement list ends up: `fn` (value / return allowed) or `loop` (falls through to the next iteration)."""

    def __init__(self, kind, fn, on_fall=None):
        self.kind, self.fn, self.on_fall = kind, fn, on_fall


class FnEmitter:
    """Translates one Rust function (and the loops inside it)."""

    def __init__(self, tr, fn, body):
        self.tr, self.fn, self.body, self.file = tr, fn, body, tr.file
        self.defs = []           # finished loop definitions (text), in emission order
        self.loop_count = 0
        self.uid = 0
        self.callees = []        # Lean names this function calls directly (other functions, its own loops), in order of first call

    def err(self, line, msg):
        raise TranslateError(self.file, line, msg)

    def new_uid(self):
        self.uid += 1
        return self.uid

    # -- expressions ------------------------------------------------------------------------------
    def expr(self, e, env, ctx, st):
        """-> (preamble steps, term, type or None).  `st` = {"n": next fresh index} of the definition being emitted."""
        k = e.kind
        if k == "var":                                                                     # E1
            v = lookup(env, e.name)
            if v is None:
                self.err(e.line, f"unknown variable `{e.name}` (constants, statics and function values are outside the translated subset)")
            return [], v.lean, v.ty
        if k == "const":                                                                   # E2
            return [], f"({e.value} : Int)", "T"
        if k == "ref":                                                                     # E3
            return self.expr(e.e, env, ctx, st)
        if k == "method":
            pre, t, ty = self.expr(e.recv, env, ctx, st)
            if e.name == "clone":                                                          # E3
                return pre, t, ty
            if ty not in ("T", None):
                self.err(e.line, f"`.{e.name}()` on a value that is not an integer")
            return pre, f"(Int.natAbs {t} : Int)", "T"                                     # E4
        if k == "neg":                                                                     # E5
            pre, t, ty = self.expr(e.e, env, ctx, st)
            return pre, f"(-{t})", "T"
        if k == "bin":
            p1, t1, _ = self.expr(e.l, env, ctx, st)
            p2, t2, _ = self.expr(e.r, env, ctx, st)
            if e.op in ("+", "-", "*"):                                                    # E6
                return p1 + p2, f"({t1} {e.op} {t2})", "T"
            f = "Int.tdiv" if e.op == "/" else "Int.tmod"                                  # E7
            return p1 + p2 + [("guard", f"{t2} = 0")], f"({f} {t1} {t2})", "T"
        if k == "call":                                                                    # E8
            callee = self.tr.callee(e.fn, e.line, self.fn, ctx)
            if len(e.args) != len(callee.params):
                self.err(e.line, f"`{e.fn}` takes {len(callee.params)} arguments, {len(e.args)} given")
            pre, ts = [], []
            for a in e.args:
                p, t, _ = self.expr(a, env, ctx, st)
                pre += p
                ts.append(t)
            v = self.fresh(st)
            if ctx.kind == "fn" and e.fn != self.fn.name and e.fn not in self.callees:
                self.callees.append(e.fn)
            return pre + [("bind", f"{e.fn} fuel " + " ".join(ts), v)], v, callee.ret
        if k == "try":                                                                     # E9
            if ctx.kind != "fn":
                self.err(e.line, "`?` (an early return) inside a `while` body is outside the translated subset")
            if not (isinstance(self.fn.ret, tuple) and self.fn.ret[0] == "opt"):
                self.err(e.line, "`?` in a function that does not return an Option")
            pre, t, ty = self.expr(e.e, env, ctx, st)
            if ty is not None and not (isinstance(ty, tuple) and ty[0] == "opt"):
                self.err(e.line, "`?` applied to a value that is not an Option")
            v = self.fresh(st)
            return pre + [("try", t, v)], v, (ty[1] if ty else None)
        if k == "some":                                                                    # E10
            pre, t, ty = self.expr(e.e, env, ctx, st)
            return pre, f"(some {t})", (("opt", ty) if ty else None)
        if k == "none":
            return [], "none", None
        if k == "tuple":
            pre, ts, tys = [], [], []
            for a in e.es:
                p, t, ty = self.expr(a, env, ctx, st)
                pre += p
                ts.append(t)
                tys.append(ty)
            return pre, "(" + ", ".join(ts) + ")", (("tuple", tys) if all(tys) else None)
        if k in ("cmp", "and", "or", "not"):
            self.err(e.line, "boolean values outside `if` / `while` conditions are outside the translated subset")
        if k in ("assign", "swap"):
            self.err(e.line, "assignment / swap in expression position")
        self.err(e.line, f"expression `{k}` has no translation rule")

    def cond(self, e, env, ctx, st):
        """-> (preamble, Prop text)"""
        k = e.kind
        if k == "cmp":                                                                     # C1
            p1, t1, _ = self.expr(e.l, env, ctx, st)
            p2, t2, _ = self.expr(e.r, env, ctx, st)
            op = {"==": "=", "!=": "≠", "<": "<", "<=": "≤", ">": ">", ">=": "≥"}[e.op]
            return p1 + p2, f"{t1} {op} {t2}"
        if k == "not":                                                                     # C2
            p, c = self.cond(e.e, env, ctx, st)
            return p, f"¬ ({c})"
        if k in ("and", "or"):
            p1, c1 = self.cond(e.l, env, ctx, st)
            p2, c2 = self.cond(e.r, env, ctx, st)
            if p2:
                self.err(e.line, "the right operand of `&&` / `||` can panic or call a function: short-circuit evaluation is outside the translated subset")
            return p1, f"({c1}) {'∧' if k == 'and' else '∨'} ({c2})"
        self.err(e.line, "a condition must be built from comparisons with `!`, `&&`, `||`")

    def fresh(self, st):
        v = f"v{st['n']}"
        st["n"] += 1
        return v

    @staticmethod
    def wrap(pre, body, ind):
        """Preamble steps P1–P3 around `body` (a list of lines)."""
        out = []
        for step in pre:
            if step[0] == "guard":
                out.append(f"{ind}if {step[1]} then .error .divzero else")
            elif step[0] == "bind":
                out.append(f"{ind}match {step[1]} with")
                out.append(f"{ind}| .error e => .error e")
                out.append(f"{ind}| .ok {step[2]} =>")
            elif step[0] == "try":
                out.append(f"{ind}match {step[1]} with")
                out.append(f"{ind}| none => .ok none")
                out.append(f"{ind}| some {step[2]} =>")
        return out + body

    # -- statements -------------------------------------------------------------------------------
    def block(self, blk, env, ctx, st, after, ind):
        """⟦blk ; after⟧.  `after` = None when the block is in tail position, else env -> lines for what follows it.
        Variables declared inside the block are dropped from the environment before `after` runs."""
        outer = env

        def leave(env2):
            by_uid = {v.uid: v for v in env2}
            return [by_uid.get(v.uid, v) for v in outer]
        aft = None if after is None else (lambda env2: after(leave(env2)))
        fall = (lambda env2: ctx.on_fall(leave(env2))) if ctx.on_fall else None
        return self.stmts(blk.stmts, blk.tail, blk.line, env, Ctx(ctx.kind, ctx.fn, fall) if after is None else ctx, st, aft, ind)

    def stmts(self, stmts, tail, line, env, ctx, st, after, ind):
        if not stmts:
            if tail is not None:                                                            # S9
                if after is not None:
                    self.err(tail.line, "the value of a block that is not in tail position is dropped: outside the translated subset")
                if ctx.kind != "fn":
                    self.err(tail.line, "a `while` body that ends in a value is outside the translated subset")
                pre, t, _ = self.expr(tail, env, ctx, st)
                return self.wrap(pre, [f"{ind}.ok {t}"], ind)
            if after is not None:
                return after(env)
            if ctx.on_fall is None:
                self.err(line, "control reaches the end of the function body without a value")
            return ctx.on_fall(env)
        s, rest = stmts[0], stmts[1:]
        k = s.kind

        def go(env2):
            return self.stmts(rest, tail, line, env2, ctx, st, after, ind)

        if k == "scope":                                                                    # the first copy of a `loop` body (S7')
            return self.block(s.body, env, ctx, st, go, ind)
        if k in ("break", "continue"):
            self.err(s.line, f"`{k}` other than the single `if c {{ break; }}` at the head or tail of a `loop` is outside the translated subset")
        if k == "for":
            self.err(s.line, "`for` is outside the translated subset (generic integers are not iterable; see rs2lean_typed.py for machine integers)")
        if k == "let":
            pre, t, ty = self.expr(s.expr, env, ctx, st)
            if getattr(s, "ann", None) is not None:
                if ty is not None and ty != s.ann:
                    self.err(s.line, "the type annotation of `let` is not the type of its initialiser")
                ty = s.ann
            if s.pat.kind == "pvar":                                                        # S1
                v = self.fresh(st)
                env2 = env + [Var(self.new_uid(), s.pat.name, v, s.mut, ty)]
                return self.wrap(pre, [f"{ind}let {v} := {t}"] + go(env2), ind)
            if s.pat.kind == "pwild":
                return self.wrap(pre, go(env), ind)
            ptxt, binds = self.pattern(s.pat, ty, st)                                       # S2
            env2 = env + [Var(self.new_uid(), n, v, False, vty) for n, v, vty in binds]
            return self.wrap(pre, [f"{ind}match {t} with", f"{ind}| {ptxt} =>"] + go(env2), ind)
        if k == "expr" and s.expr.kind == "assign":                                         # S3
            a = s.expr
            v0 = lookup(env, a.target)
            if v0 is None:
                self.err(a.line, f"assignment to unknown variable `{a.target}`")
            if not v0.mut:
                self.err(a.line, f"assignment to `{a.target}`, which is not declared `mut`")
            rhs = a.expr if a.op == "=" else Node("bin", a.line, op=a.op[0], l=Node("var", a.line, name=a.target), r=a.expr)
            pre, t, ty = self.expr(rhs, env, ctx, st)
            v = self.fresh(st)
            env2 = [x.with_lean(v) if x.uid == v0.uid else x for x in env]
            return self.wrap(pre, [f"{ind}let {v} := {t}"] + go(env2), ind)
        if k == "expr" and s.expr.kind == "swap":                                           # S4
            a, b = lookup(env, s.expr.a), lookup(env, s.expr.b)
            for name, v in ((s.expr.a, a), (s.expr.b, b)):
                if v is None or not v.mut:
                    self.err(s.line, f"`swap` of `{name}`, which is not a `mut` variable in scope")
            env2 = [x.with_lean(b.lean) if x.uid == a.uid else x.with_lean(a.lean) if x.uid == b.uid else x for x in env]
            return go(env2)
        if k == "expr":                                                                     # S8
            pre, _, _ = self.expr(s.expr, env, ctx, st)
            return self.wrap(pre, go(env), ind)
        if k == "return":                                                                   # S5
            if ctx.kind != "fn":
                self.err(s.line, "`return` inside a `while` body is outside the translated subset")
            pre, t, _ = self.expr(s.expr, env, ctx, st)
            return self.wrap(pre, [f"{ind}.ok {t}"], ind)
        if k == "if":                                                                       # S6
            pre, c = self.cond(s.cond, env, ctx, st)
            if not rest and tail is None:
                cont = after         # nothing follows in this block: the branches inherit the block's own continuation
            else:
                def cont(env2):
                    return self.stmts(rest, tail, line, env2, ctx, st, after, ind + "  ")
            a_lines = self.block(s.then, env, ctx, st, cont, ind + "  ")
            if s.els is not None:
                b_lines = self.block(s.els, env, ctx, st, cont, ind + "  ")
            elif cont is not None:
                b_lines = cont(env)
            elif ctx.on_fall is not None:
                b_lines = ctx.on_fall(env)
            else:
                self.err(s.line, "`if` without `else` at the end of the function body: the function could end without a value")
            return self.wrap(pre, [f"{ind}if {c} then ("] + a_lines + [f"{ind}) else ("] + b_lines + [f"{ind})"], ind)
        if k == "while":                                                                    # S7
            return self.while_loop(s, env, ctx, st, go, ind)
        self.err(s.line, f"statement `{k}` has no translation rule")

    def pattern(self, p, ty, st):
        """-> (Lean pattern text, [(rust name, lean name, type)])"""
        if p.kind == "pwild":
            return "_", []
        if p.kind == "pvar":
            v = self.fresh(st)
            return v, [(p.name, v, ty)]
        tys = ty[1] if isinstance(ty, tuple) and ty[0] == "tuple" and len(ty[1]) == len(p.pats) else [None] * len(p.pats)
        if ty is not None and not (isinstance(ty, tuple) and ty[0] == "tuple" and len(ty[1]) == len(p.pats)):
            self.err(p.line, "tuple pattern does not match the shape of the value")
        parts, binds = [], []
        for q, qty in zip(p.pats, tys):
            t, b = self.pattern(q, qty, st)
            parts.append(t)
            binds += b
        return "(" + ", ".join(parts) + ")", binds

    def while_loop(self, s, env, ctx, st, go, ind):
        names = mentioned(s.cond, mentioned(s.body, set()))
        vars_ = [v for v in visible(env) if v.rust in names]
        for v in vars_:
            if v.ty != "T":
                self.err(s.line, f"variable `{v.rust}` used in a `while` loop is not known to be an integer: outside the translated subset")
        state = [v for v in vars_ if v.mut]
        name = f"{self.fn.name}_loop{self.loop_count}"
        self.loop_count += 1
        if ctx.kind == "fn" and name not in self.callees:
            self.callees.append(name)
        # ---- the loop's own definition: its variables are renamed p0 … pm, fresh names restart at v0
        lenv = [Var(v.uid, v.rust, f"p{i}", v.mut, v.ty) for i, v in enumerate(vars_)]
        lst = {"n": 0}

        def tuple_of(env2):
            vals = [next(x.lean for x in env2 if x.uid == v.uid) for v in state]
            return "()" if not vals else vals[0] if len(vals) == 1 else "(" + ", ".join(vals) + ")"

        def again(env2):
            args = [next(x.lean for x in env2 if x.uid == v.uid) for v in vars_]
            return ["      " + " ".join([name, "fuel"] + args)]
        lctx = Ctx("loop", self.fn, again)
        pre, c = self.cond(s.cond, lenv, lctx, lst)
        body = self.block(s.body, lenv, lctx, lst, None, "      ")
        inner = self.wrap(pre, ["    if " + c + " then ("] + body + ["    ) else (", "      .ok " + tuple_of(lenv), "    )"], "    ")
        state_ty = "Unit" if not state else " × ".join("Int" for _ in state)
        sig = " → ".join(["Nat"] + ["Int"] * len(vars_) + [f"Except Panic ({state_ty})"])
        text = [f"def {name} : {sig}",
                "  | " + ", ".join(["0"] + ["_"] * len(vars_)) + " => .error .fuel",
                "  | " + ", ".join(["fuel + 1"] + [v.lean for v in lenv]) + " =>"] + inner
        self.defs.append("\n".join(text))
        # ---- at the loop: run it, rebind the state variables
        fresh = {v.uid: self.fresh(st) for v in state}
        env2 = [x.with_lean(fresh[x.uid]) if x.uid in fresh else x for x in env]
        outs = [fresh[v.uid] for v in state]
        pat = "_" if not outs else outs[0] if len(outs) == 1 else "(" + ", ".join(outs) + ")"
        call = " ".join([name, "fuel"] + [v.lean for v in vars_])
        return [f"{ind}match {call} with", f"{ind}| .error e => .error e", f"{ind}| .ok {pat} =>"] + go(env2)

    # -- the function itself ------------------------------------------------------------------------
    def emit(self):
        fn = self.fn
        recursive = any(c.fn == fn.name for c in calls_in(self.body, []))
        env = [Var(self.new_uid(), name, f"p{i}", mut, "T") for i, (name, mut) in enumerate(fn.params)]
        if len({n for n, _ in fn.params}) != len(fn.params):
            self.err(fn.line, "two parameters with the same name")
        st = {"n": 0}
        ctx = Ctx("fn", fn, None)
        ret = lean_type(fn.ret)
        n = len(fn.params)
        if recursive:
            lines = self.stmts(self.body.stmts, self.body.tail, self.body.line, env, ctx, st, None, "    ")
            sig = " → ".join(["Nat"] + ["Int"] * n + [f"Except Panic ({ret})"])
            head = [f"def {fn.name} : {sig}",
                    "  | " + ", ".join(["0"] + ["_"] * n) + " => .error .fuel",
                    "  | " + ", ".join(["fuel + 1"] + [f"p{i}" for i in range(n)]) + " =>"]
        else:
            lines = self.stmts(self.body.stmts, self.body.tail, self.body.line, env, ctx, st, None, "  ")
            ps = f" ({' '.join(f'p{i}' for i in range(n))} : Int)" if n else ""
            head = [f"def {fn.name} (fuel : Nat){ps} : Except Panic ({ret}) :="]
        # N2: name-independent handles on what this function calls, for proofs that must survive a renamed / restructured helper
        aliases = [f"abbrev {fn.name}_callee{i} := @{c}" for i, c in enumerate(self.callees)]
        return self.defs + ["\n".join(head + lines)] + aliases, recursive


class Translator:
    def __init__(self, src, file):
        self.file = file
        self.parser = Parser(src, file)
        self.uses, fns = self.parser.parse_file()
        self.fns = {}
        for f in fns:
            if f.name in self.fns:
                raise TranslateError(file, f.line, f"function `{f.name}` defined twice")
            self.fns[f.name] = f
        self.done = {}           # name -> {"defs": [...], "recursive": bool}
        self.order = []
        self.in_progress = []

    def callee(self, name, line, caller, ctx):
        if name not in self.fns:
            raise TranslateError(self.file, line, f"call of `{name}`, which is not defined in this file: outside the translated subset")
        f = self.fns[name]
        if f.header_error:
            raise f.header_error
        if name == caller.name:
            if ctx.kind != "fn":
                raise TranslateError(self.file, line, "recursive call inside a `while` body is outside the translated subset")
            return f
        if name in self.in_progress:
            raise TranslateError(self.file, line, f"mutual recursion between `{caller.name}` and `{name}` is outside the translated subset")
        self.translate_fn(name)
        return f

    def translate_fn(self, name):
        if name in self.done:
            return
        fn = self.fns[name]
        body = self.parser.parse_body(fn)
        self.in_progress.append(name)
        defs, rec = FnEmitter(self, fn, body).emit()
        self.in_progress.pop()
        self.done[name] = {"defs": defs, "recursive": rec}
        self.order.append(name)

    def translate(self, wanted=None):
        names = list(self.fns) if wanted is None else list(wanted)
        for n in names:
            if n not in self.fns:
                raise TranslateError(self.file, 1, f"function `{n}` not found in the source")
        for n in names:
            self.translate_fn(n)
        return [d for n in self.order for d in self.done[n]["defs"]]


HEADER = """import RlibModel.Model.Common
import RlibModel.Generated.AttrSrc
/-!
GENERATED by `tools/rs2lean.py` from the source text of `{rel}` on every run of `./check {pid}`
— do not edit by hand.  Translation scheme: the doc comment at the top of the tool.  One definition per Rust
function (plus one per `while` loop), over `Int`, `/` and `%` as `Int.tdiv` / `Int.tmod`, division by zero as
`Panic.divzero`, recursion and loops on an explicit `fuel`.  Variables are renamed (`p*` parameters, `v*` SSA
locals), so this text depends on the source only up to renaming, comments and layout.
`Lemmas/{stem}.lean` proves that each definition returns what the hand-written model returns.  Every definition carries
`@[src_def]` (so `simp only [src_def]` unfolds generated definitions without naming them) and every function is followed by
`abbrev f_callee<i>` = the i-th distinct function / loop it calls: proofs can refer to a helper without knowing its name.
-/
set_option linter.unusedVariables false
namespace {ns}
open Rlib

"""


def render(defs, ns, rel, pid, stem, failure=None):
    text = HEADER.format(rel=rel, pid=pid, ns=ns, stem=stem)
    if failure is not None:
        safe = failure.replace("-/", "- /").replace("/-", "/ -")
        text += f"/- TRANSLATION FAILED — no definitions; everything that refers to them stops compiling.\n   {safe} -/\n\n"
    else:
        text += "\n\n".join(("@[src_def] " + d) if d.startswith("def ") else d for d in defs) + "\n\n"
    return text + f"end {ns}\n"


def translate_source(src, file, wanted=None):
    """-> (list of Lean definitions, info dict).  Raises TranslateError."""
    tr = Translator(src, file)
    defs = tr.translate(wanted)
    info = {"functions": tr.order, "recursive": [n for n in tr.order if tr.done[n]["recursive"]],
            "loops": [m.group(1) for d in defs for m in [re.match(r"def (\w+_loop\d+) ", d)] if m],
            "not_translated": [n for n in tr.fns if n not in tr.done], "uses": tr.uses}
    return defs, info


def write_if_changed(path, text):
    old = open(path).read() if os.path.exists(path) else None
    if old == text:
        return False
    os.makedirs(os.path.dirname(path), exist_ok=True)
    tmp = path + ".tmp"
    with open(tmp, "w") as f:
        f.write(text)
    os.replace(tmp, path)
    return True


SUBSET = "translator subset (a limitation of the second tie — the construct is not translated; NOT a semantic finding): "
PROOF = ("equivalence proof failed: the definitions regenerated from {src} are no longer proved equal to the hand-written model "
         "({lemmas} does not compile against them) — a semantic difference is suspected, or a restructuring that needs a new proof")


def tie_findings(generated, lemmas, translated_ok, src):
    """For the `extra(ctx)` hook of a check (runs after `lake build`): when the translation succeeded but the compiled lemma module is
    missing or older than its inputs, the equivalence proofs did not go through — say so in plain words.  `generated`, `lemmas`:
    paths of .lean files below lean/.  (A rejected construct is reported by `extract` with the SUBSET prefix instead.)"""
    # `./check` step 2b now builds the second-tie module (Props/CxxSrc) itself and reports a failing build with the failing
    # declarations, so this mtime-based guess is no longer needed - and it was wrong after a `--repo` run had restored a generated
    # file with identical text (lake replays without touching the .olean).  Kept as a no-op for the configs that still call it.
    return []
    if not translated_ok:
        return []
    lean = os.path.join(os.path.dirname(os.path.dirname(os.path.abspath(__file__))), "lean")
    olean = os.path.join(lean, ".lake", "build", "lib", "lean", lemmas[:-len(".lean")] + ".olean")
    try:
        built = os.path.getmtime(olean)
        fresh = all(built >= os.path.getmtime(os.path.join(lean, f)) for f in list(generated) + [lemmas])
    except OSError:
        fresh = False
    if fresh:
        return []
    return [{"class": "broken", "kind": "proof", "nosearch": False,
             "what": PROOF.format(src=src, lemmas="lean/" + lemmas)}]


def run(src_path, out_path, ns, rel, pid, wanted=None):
    """Translate `src_path` and (re)write `out_path` when its content changes.  -> (info, problems)"""
    stem = os.path.splitext(os.path.basename(out_path))[0]
    problems, info = [], {"functions": []}
    try:
        src = open(src_path).read()
        defs, info = translate_source(src, rel, wanted)
        text = render(defs, ns, rel, pid, stem)
    except (OSError, TranslateError) as e:
        problems.append(SUBSET + f"rs2lean: {e}" if isinstance(e, TranslateError) else f"rs2lean: {e}")
        text = render([], ns, rel, pid, stem, failure=str(e))
    info["rewritten"] = write_if_changed(out_path, text)
    return info, problems


def main(argv):
    import argparse
    ap = argparse.ArgumentParser()
    ap.add_argument("src")
    ap.add_argument("--out", required=True)
    ap.add_argument("--namespace", required=True)
    ap.add_argument("--fns", default=None)
    ap.add_argument("--rel", default=None, help="path shown in the generated header (default: the source path)")
    ap.add_argument("--pid", default="Cxx")
    a = ap.parse_args(argv)
    info, problems = run(a.src, a.out, a.namespace, a.rel or a.src, a.pid, a.fns.split(",") if a.fns else None)
    print(json.dumps({"info": info, "problems": problems}, indent=1))
    return 1 if problems else 0


if __name__ == "__main__":
    sys.exit(main(sys.argv[1:]))
