#!/bin/bash
# Regenerate every Generated/*.lean from /repo's current source (run before committing: --repo runs rewrite them temporarily)
cd "$(dirname "$0")/.."
python3 - <<'PY'
import glob, importlib.util, os
for p in sorted(glob.glob("checks/C*.py")):
    spec = importlib.util.spec_from_file_location("m", p); m = importlib.util.module_from_spec(spec); spec.loader.exec_module(m)
    if hasattr(m, "extract"):
        params, problems = m.extract("/repo")
        print(os.path.basename(p), "problems:", problems)
PY
git status --short lean/RlibModel/Generated
