#!/usr/bin/env python3
"""
Self-test of tools/rs2lean_reader.py (not part of any check; run by hand after editing the translator):

  1. translates tools/rs2lean_selftest/sample_reader.rs (a differently shaped buffered reader: other field order, a retry loop with
     `Ok(n)` / guarded `Err` / `Err(_)` arms, `while` with an expression and with a block condition, `||`, `break`, value-`if`,
     checked `u8` / `usize` / `$t` arithmetic, Strings, `Option`, `copy_within`, a `:ty` macro), elaborates the result with
     `lake env lean` and compares `#eval`s of the generated definitions with values computed by hand;
  2. renaming locals, fields, parameters and macro parameters of rlib/io/src/reader.rs, adding comments and changing layout give
     byte-identical Lean text;
  3. every construct outside the subset is rejected with file:line (never skipped).
"""
import os
import re
import subprocess
import sys
import tempfile

HERE = os.path.dirname(os.path.abspath(__file__))
sys.path.insert(0, HERE)
import rs2lean  # noqa: E402
import rs2lean_reader as rr  # noqa: E402

SAMPLE_FNS = ["start", "fill", "count", "bump", "word", "slide", "sum_digits!"]
W = "#[49, 45, 120, 59, 50, 7, 7, 7]"          # window `1-x;2` + stale 7s (CAP = 8)
EVALS = [
    ("CAP", "8"),
    ("(start 0 [.intr]).toOption", "some ([Rlib.Reader.Event.intr], #[7, 7, 7, 7, 7, 7, 7, 7], 0, 0, false)"),
    # fill: two Interrupted answers, then a chunk of 3 of which 2 fit (lim = 6, CAP = 8): the rest stays at the head of the source
    (f"(fill 0 [.intr, .intr, .data [97, 98, 99]] {W} 0 6 false).toOption",
     "some ([Rlib.Reader.Event.data [99]], #[49, 45, 120, 59, 50, 7, 97, 98], 0, 8, false, 2)"),
    (f"(fill 0 [] {W} 0 5 false).toOption", f"some ([], {W}, 0, 5, true, 0)"),
    (f"(match fill 0 [] {W} 0 9 false with | .error .index => 1 | _ => 0)", "1"),                      # `&mut window[9..]` on 8 bytes
    (f"(count 9 [] {W} 0 5 false).toOption", f"some ([], {W}, 0, 5, false, 2)"),                        # `1`, `-`, then `x` breaks
    (f"(match count 2 [] {W} 0 5 false with | .error .fuel => 1 | _ => 0)", "1"),
    (f"(bump 0 [] {W} 2 5 false).toOption", f"some ([], {W}, 3, 5, false, some 121)"),                  # 'x' + 1
    (f"(bump 0 [] {W} 5 5 false).toOption", f"some ([], {W}, 5, 5, true, none)"),                       # fill at end of input
    ("(match bump 0 [] #[255] 0 1 false with | .error .overflow => 1 | _ => 0)", "1"),                    # 255u8 + 1
    (f"(word 9 [.data [51, 59]] {W} 4 5 false).toOption", "some ([], #[49, 45, 120, 59, 50, 51, 59, 7], 7, 7, false, #[50, 51])"),
    (f"(slide 0 [] {W} 2 5 false).toOption", "some ([], #[120, 59, 50, 59, 50, 7, 7, 7], 0, 3, false)"),
    (f"(match slide 0 [] {W} 5 2 false with | .error .index => 1 | _ => 0)", "1"),                      # copy_within(5..2, 0)
    (f"(sum_digits 9 ⟨false, 16⟩ [] {W} 0 1 false).toOption", f"some ([], {W}, 1, 1, false, 3)"),        # 1*2 + 1
    (f"(match sum_digits 9 ⟨true, 8⟩ [] {W} 0 2 false with | .error .overflow => 1 | _ => 0)", "1"),     # b'-' - b'0' underflows u8
    ("(match sum_digits 9 ⟨true, 8⟩ [] #[57, 57, 57, 57, 57, 57] 0 6 false with | .error .overflow => 1 | _ => 0)", "1"),
    ("sum_digits_instances", "[{ signed := true, bits := 8 }, { signed := false, bits := 16 }]"),
]

HEAD = "use std::io::Read;\npub struct R<'a> { buf: [u8; R::N], b: usize, e: usize, src: Box<dyn Read + 'a>, eof: bool }\nimpl<'a> R<'a> {\n    const N: usize = 4;\n"
REJECT = [  # (source, wanted, fragment expected in the error message)
    (HEAD + "    fn f(&mut self) -> usize { self.b * 2 }\n}\n", ["f"], ":5: `*` on values of type `('usize',)` has no rule"),
    (HEAD + "    fn f(&mut self) -> usize { let v = vec![1]; 0 }\n}\n", ["f"], ":5: macro `vec!`"),
    (HEAD + "    fn f(&mut self) { for i in 0..3 { self.b += 1; } }\n}\n", ["f"], ":5: `for` is outside"),
    (HEAD + "    fn f(&mut self) { loop { self.b += 1; } }\n}\n", ["f"], ":5: a `loop { … }` without the oracle call"),
    (HEAD + "    fn f(&mut self) { while self.b < 3 { continue; } }\n}\n", ["f"], ":5: `continue` is only translated inside a `loop"),
    (HEAD + "    fn f(&mut self) -> usize { while self.b < 3 { return 1; } 0 }\n}\n", ["f"], ":5: `return` inside a loop"),
    (HEAD + "    fn f(&mut self) -> u8 { let x = &self.buf[1..]; 0 }\n}\n", ["f"], ":5: a slice is only translated as the argument of the oracle call"),
    (HEAD + "    fn f(&mut self) -> usize { self.src.read(&mut self.buf).unwrap() }\n}\n", ["f"], ":5: the argument of the oracle call must have the form"),
    (HEAD + "    fn f(&mut self) -> usize { match self.src.read(&mut self.buf[0..]) { Ok(n) => n } }\n}\n", ["f"], "no arm of this `match` covers the answer `interrupted`"),
    (HEAD + "    fn f(&mut self) -> usize { match self.src.read(&mut self.buf[0..]) { Ok(n) => n, Err(e) if e.raw_os_error() == None => 0, _ => 1 } }\n}\n", ["f"], ":5: match guard outside"),
    (HEAD + "    fn f(&mut self) -> usize { match self.b { 0 => 1, _ => 2 } }\n}\n", ["f"], ":5: expected pattern"),
    (HEAD + "    fn f(&mut self) -> usize { let b: usize = 1; let b: usize = 2; b }\n}\n", ["f"], ":5: `let b` shadows"),
    (HEAD + "    fn f(&mut self) -> usize { let x = 3; x }\n}\n", ["f"], ":5: the type of this integer literal cannot be read from its context"),
    (HEAD + "    fn f(&mut self) -> u8 { 300 }\n}\n", ["f"], ":5: literal does not fit `u8`"),
    (HEAD + "    fn f(&mut self) -> usize { self.g() }\n    fn g(&mut self) -> usize { self.f() }\n}\n", ["f"], "recursion through `f`"),
    (HEAD + "    fn f<T>(&mut self, t: T) -> usize { 0 }\n}\n", ["f"], ":5: generic function `f<…>`"),
    (HEAD + "    fn f(&mut self) -> Vec<u8> { Vec::new() }\n}\n", ["f"], ":5: generic type `Vec<…>`"),
    (HEAD + "    fn f(&mut self) -> usize { (0..).map_while(|_| None).count() }\n}\n", ["f"], ":5: closures are outside"),
    (HEAD + "    fn f(&mut self) -> char { 'λ' }\n}\n", ["f"], ":5: char literal 'λ' has a code point ≥ 256"),
    (HEAD + "    fn f(&mut self) -> bool { self.b == 1 && self.e == 2 }\n}\n", ["f"], ":5: `!`, `&&`, `||` are translated in conditions only"),
    (HEAD + "    fn f(&mut self) -> i32 { 0 }\n}\n", ["f"], ":5: the concrete integer type `i32` has no rule"),
    (HEAD + "    fn f(&self) { self.b = 1; }\n}\n", ["f"], ":5: assignment to `self`, which is not `mut`"),
    (HEAD + "    fn f(&mut self) { self.buf.copy_within(.., 0); }\n}\n", ["f"], ":5: `copy_within` is translated in the form"),
    (HEAD + "    fn f(&mut self) -> String { let mut s = String::new(); s.push_str(\"a\"); s }\n}\n", ["f"], ":5: string literals"),
    (HEAD + "}\nmod m {}\n", [], ":6: top-level item starting with `mod`"),
    (HEAD + "}\nmacro_rules! m { ($($x:ident),*) => {} }\n", ["m!"], ":6: macro repetitions"),
    (HEAD + "}\nmacro_rules! m { ($t:ty) => { impl X for $t { fn g(r: &mut R) -> Self { 0 } } } }\nm!(f64);\n", ["m!"], ":7: invocation `m!(f64)`"),
]

READER_FNS = ["new", "refill", "peek", "skip_whitespace", "read_line", "is_eof", "String::read", "char::read", "read_signed!", "read_unsigned!"]


def main():
    bad = 0
    lean_dir = os.path.join(os.path.dirname(HERE), "lean")
    # 1. sample
    src = open(os.path.join(HERE, "rs2lean_selftest", "sample_reader.rs")).read()
    tr = rr.Translator(src, "sample_reader.rs", "Lexer")
    defs = tr.translate(SAMPLE_FNS)
    text = rr.render(defs, "Rlib.TrReaderTest", "sample_reader.rs", "selftest", "SampleReader")
    text += "open Rlib.TrReaderTest\n" + "".join(f"#eval {e}\n" for e, _ in EVALS)
    with tempfile.TemporaryDirectory() as d:
        p = os.path.join(d, "SampleReader.lean")
        open(p, "w").write(text)
        r = subprocess.run(["lake", "env", "lean", p], cwd=lean_dir, capture_output=True, text=True)
    got = [l for l in r.stdout.split("\n") if l.strip()]
    want = [w for _, w in EVALS]
    if r.returncode != 0 or got != want:
        bad += 1
        print("FAIL sample_reader:", r.returncode, [(g, w) for g, w in zip(got, want) if g != w], r.stdout[-1500:], r.stderr[-800:])
    else:
        print(f"ok   sample_reader.rs: {len(tr.order)} functions, {len(EVALS)} evaluations as expected")
    # 2. renaming / comments / layout
    rd = open("/repo/rlib/io/src/reader.rs").read()
    d0 = rr.Translator(rd, "reader.rs", "Reader").translate(READER_FNS)
    r2 = rd
    for a, b in [(r"\bread_something\b", "got"), (r"\bresult\b", "line_buf"), (r"\breader\b", "rd"), (r"\.begin\b", ".head"), (r"\.end\b", ".tail"),
                 (r"\.eof\b", ".done"), (r"\.stdin\b", ".input"), (r"\.buf\b", ".buffer"), (r"\bbuf:", "buffer:"), (r"\bbegin:", "head:"), (r"\bend:", "tail:"),
                 (r"\beof:", "done:"), (r"\bstdin\b", "input"), (r"\$t\b", "$ty"), (r"\bbytes\b", "nread"), (r"let c =", "let ch ="), (r"push\(c\)", "push(ch)"),
                 (r"c == '", "ch == '"), (r"fn refill\(&mut self\) \{", "fn refill(&mut self) { /* refill /* nested */ the buffer */\n  // a comment\n"),
                 (r"\n        ", "\n\t\t  ")]:
        assert re.search(a, r2), a
        r2 = re.sub(a, b, r2)
    d2 = rr.Translator(r2, "reader.rs", "Reader").translate(READER_FNS)
    if d0 != d2 or r2 == rd:
        bad += 1
        print("FAIL rename invariance")
    else:
        print(f"ok   reader.rs with locals / fields / parameters / the macro parameter renamed, comments, other layout: identical text ({len(d0)} definitions)")
    # 3. rejections
    n = 0
    for src, wanted, frag in REJECT:
        try:
            rr.Translator(src, "t.rs", "R").translate(wanted)
            bad += 1
            print("FAIL not rejected:", repr(src[-90:]))
        except rs2lean.TranslateError as e:
            if frag not in str(e) or not str(e).startswith("t.rs:"):
                bad += 1
                print("FAIL wrong message:", e, "| wanted:", frag)
            else:
                n += 1
    print(f"ok   {n} out-of-subset sources rejected with file:line")
    return 1 if bad else 0


if __name__ == "__main__":
    sys.exit(main())
