#!/usr/bin/env python3
"""One-off helper: move the trailing `src_*` section of lean/RlibModel/Props/Cxx.lean into Props/CxxSrc.lean.
usage: split_src_props.py Cxx <first line of the src section (1-based)> <LemmasModuleOfTheTie>"""
import re, sys, os
pid, start, lem = sys.argv[1], int(sys.argv[2]), sys.argv[3]
p = f"/verif/lean/RlibModel/Props/{pid}.lean"
lines = open(p).read().split("\n")
ns_line = next(l for l in lines if l.startswith("namespace "))
opens = [l for l in lines[:start - 1] if l.startswith("open ")]
end_idx = max(i for i, l in enumerate(lines) if l.startswith("end " + ns_line.split()[1]))
main = [l for l in lines[:start - 1] if l.strip() != f"import RlibModel.Lemmas.{lem}"]
while main and not main[-1].strip():
    main.pop()
main += ["", lines[end_idx], ""]
src = [f"import RlibModel.Props.{pid}", f"import RlibModel.Lemmas.{lem}",
       "/-", f"{pid}, second tie: theorems about the definitions REGENERATED from the Rust source text on every run.",
       "Kept in their own module so that a source the translator cannot read (or an equivalence proof that no longer goes",
       f"through) leaves the property theorems of Props/{pid}.lean — and their audit — untouched; `./check` then decides",
       "between `second tie unavailable` (translator subset; the correspondence tie still stands) and a broken obligation.",
       "-/", ns_line] + opens + [""] + lines[start - 1:end_idx + 1] + [""]
open(p, "w").write("\n".join(main))
open(f"/verif/lean/RlibModel/Props/{pid}Src.lean", "w").write("\n".join(src))
print(pid, "main", len(main), "src", len(src))
