#!/usr/bin/env python3
"""
Self-test of tools/rs2lean_float.py (not part of any check; run by hand after editing the translator):

  1. translates tools/rs2lean_selftest/sample_float.rs (a differently shaped geometry file: struct literals with fields in another order,
     `powi(2)`, an `:ident` macro with two operand forms, `Neg`, `Mul<f64>`, a private helper with a `bool` parameter, `&&` `||` `!` `==`
     `!=`, `swap`, a two-variable phi, `else if` as a statement, `+=`, early returns, tuple values and patterns, value-`if`, `Option`, an
     enum), elaborates the result with `lake env lean` and compares `#eval`s over an exact integer instance of the arithmetic record with
     values computed by hand;
  2. renaming the locals and parameters of rlib/geometry/src/*.rs, adding comments and changing layout give byte-identical Lean text;
  3. every construct outside the subset is rejected with file:line (never skipped).
"""
import os
import re
import subprocess
import sys
import tempfile

HERE = os.path.dirname(os.path.abspath(__file__))
sys.path.insert(0, HERE)
import rs2lean  # noqa: E402
import rs2lean_float as rf  # noqa: E402

SAMPLE_FNS = ["Point::new", "Point::norm2", "Point::scale_both", "Point::add:vv", "Point::sub:rr", "Point::mul:vv", "Point::neg:v",
              "assoc", "order", "phi2", "clamp01", "split", "classify"]
# exact integer arithmetic: `/` truncates, sqrt is the integer square root, eps = 1
PRELUDE = """
def intGeo : Rlib.Geometry.Geo Int where
  add := (· + ·)
  sub := (· - ·)
  mul := (· * ·)
  div := Int.tdiv
  neg := fun a => -a
  sqrt := fun a => (Nat.sqrt a.toNat : Int)
  abs := fun a => (a.natAbs : Int)
  max := fun a b => if a < b then b else a
  lt := fun a b => decide (a < b)
  ne := fun a b => decide (a ≠ b)
  ofInt := id
  eps := 1
def shP (p : Rlib.Geometry.Point Int) : Int × Int := (p.x, p.y)
def shCL : Rlib.Geometry.CL Int → String × List (Int × Int)
  | .none => ("None", [])
  | .touch p => ("Touch", [shP p])
  | .intersect p q => ("Intersect", [shP p, shP q])
open Rlib.TrFloatTest
"""
EVALS = [
    ("shP (Point_new intGeo 3 4)", "(3, 4)"),
    ("Point_norm2 intGeo ⟨3, 4⟩", "25"),
    ("(shP (Point_scale_both intGeo ⟨3, 4⟩ 5).1, shP (Point_scale_both intGeo ⟨3, 4⟩ 5).2)", "((15, 20), -6, -8)"),
    ("shP (Point_add_vv intGeo ⟨3, 4⟩ ⟨1, 2⟩)", "(4, 6)"),
    ("shP (Point_sub_rr intGeo ⟨3, 4⟩ ⟨1, 2⟩)", "(2, 2)"),
    ("shP (Point_neg_v intGeo ⟨3, 4⟩)", "(-3, -4)"),
    ("assoc intGeo 7 2 3", "-1"),                       # (7 + 2) - ((3 * 7) / 2) = 9 - 10
    ("assoc intGeo 1 2 3", "2"),                        # 3 - (3 / 2) = 3 - 1: `c * a / b` is `(c * a) / b`
    ("(order intGeo 2 9, order intGeo 9 2)", "(7, 7)"),
    ("(phi2 intGeo 5 3, phi2 intGeo 3 5, phi2 intGeo 4 4)", "(7, 7, 6)"),
    ("(clamp01 intGeo (-3), clamp01 intGeo 7, clamp01 intGeo 1, clamp01 intGeo 0)", "(0, 1, 1, 0)"),
    ("(split intGeo ⟨1, 1⟩ ⟨1, 1⟩).map shP", "none"),
    ("(split intGeo ⟨4, 6⟩ ⟨1, 2⟩).map shP", "some (-25, -40)"),     # s = (5, 8), d = (3, 4), n = 5, -s * 5
    ("shCL (classify intGeo ⟨⟨0, 0⟩, 5⟩ ⟨6, 8⟩)", '("None", [])'),
    ("shCL (classify intGeo ⟨⟨0, 0⟩, 5⟩ ⟨3, 4⟩)", '("Touch", [(3, 4)])'),
    ("shCL (classify intGeo ⟨⟨1, 1⟩, 9⟩ ⟨4, 5⟩)", '("Intersect", [(7, 9), (-5, -7)])'),
    ("shCL (classify intGeo ⟨⟨1, 1⟩, 9⟩ ⟨1, 1⟩)", '("Intersect", [(1, 1), (1, 1)])'),
]

HEAD = ("pub const EPS: f64 = 1e-9;\npub struct Point { pub x: f64, pub y: f64 }\n"
        "impl std::ops::Add for Point { type Output = Point; fn add(self, r: Point) -> Point { Point { x: self.x + r.x, y: self.y + r.y } } }\n")
REJECT = [  # (source, wanted, fragment expected in the error message)
    (HEAD + "pub fn f(a: f64, b: f64) -> bool { a <= b }\n", ["f"], ":4: `<=` on `f64` has no rule"),
    (HEAD + "pub fn f(a: f64) -> f64 { a * 0.5 }\n", ["f"], ":4: float literal `0.5` is not integral"),
    (HEAD + "pub fn f(a: f64) -> f64 { a * -0.0 }\n", ["f"], ":4: the literal `-0.0` is not an `ofInt`"),
    (HEAD + "pub fn f(a: f64) -> f64 { a * 1e3 }\n", ["f"], ":4: literal `1e3` is outside"),
    (HEAD + "pub fn f(a: f64) -> f64 { a.min(1.0) }\n", ["f"], ":4: `f64::min` has no rule"),
    (HEAD + "pub fn f(a: f64) -> f64 { a.powi(3) }\n", ["f"], ":4: `powi` is translated for the constant exponent 2 only"),
    (HEAD + "pub fn f(a: f64) -> f64 { a.mul_add(a, a) }\n", ["f"], ":4: `f64::mul_add` has no rule"),
    (HEAD + "pub fn f(a: f64) -> f64 { let mut s = a; while s < 1.0 { s = s * 2.0; } s }\n", ["f"], ":4: `while` is outside"),
    (HEAD + "pub fn f(a: f64) -> f64 { match a { _ => a } }\n", ["f"], ":4: `match` is outside"),
    (HEAD + "pub fn f(a: f64) -> f64 { (a as i64) as f64 }\n", ["f"], ":4: `as` casts are outside"),
    (HEAD + "pub fn f(a: &[f64]) -> f64 { a[0] }\n", ["f"], ":4: expected type"),
    (HEAD + "pub fn f(a: f64) -> f64 { let g = |x: f64| x; g(a) }\n", ["f"], ":4: closures are outside"),
    (HEAD + "pub fn f(a: f64) -> f64 { f(a) }\n", ["f"], ":4: recursion through `f`"),
    (HEAD + "pub fn f<T>(a: T) -> T { a }\n", ["f"], ":4: generic function `f<…>`"),
    (HEAD + "pub fn f(p: Point, q: Point) -> Point { p - q }\n", ["f"], ":4: no `impl Sub<Point> for Point`"),
    (HEAD + "pub fn f(p: &Point, q: Point) -> Point { p + q }\n", ["f"], ":4: no `impl Add<Point> for &Point`"),
    (HEAD + "pub fn f(p: Point) -> f64 { p.z }\n", ["f"], ":4: struct `Point` has no field `z`"),
    (HEAD + "pub fn f(p: Point) -> f64 { p.len() }\n", ["f"], ":4: method `len` of `Point` is not defined"),
    (HEAD + "pub const TWO: f64 = 2.0;\npub fn f(a: f64) -> f64 { a * TWO }\n", ["f"], ":5: constant `TWO` has no rule"),
    (HEAD + "pub fn f(a: f64) -> f64 { let b = a; b = 1.0; b }\n", ["f"], ":4: assignment to `b`, which is not `mut`"),
    (HEAD + "pub fn f(a: f64) -> f64 { if a < 1.0 { 2.0 } }\n", ["f"], ":4: an `if` without `else` in value position"),
    (HEAD + "pub fn f(a: f64) -> f64 { a.sqrt(); a }\n", ["f"], ":4: an expression statement whose value is dropped"),
    (HEAD + "pub fn f(a: f64) -> f64 { println!(\"x\"); a }\n", ["f"], ":4: macro `println!` in an expression"),
    (HEAD + "pub struct Seg { pub a: Point, pub b: Point }\npub fn f(s: &Seg) -> f64 { s.a.x }\n", ["f"], ":4: `Seg` has no counterpart in the hand-written model"),
    (HEAD + "impl Point { pub fn bump(&mut self) -> f64 { self.x } }\n", ["Point::bump"], ":4: `&mut self` (function `bump`)"),
    (HEAD + "pub fn f(a: f64) -> f64 { a % 2.0 }\n", ["f"], ":4: `%` is outside"),
    (HEAD + "pub fn f(a: f64, b: bool) -> f64 { if b == true { a } else { a } }\n", ["f"], ":4: `==` on values of types `bool`, `bool` has no rule"),
    (HEAD + "static mut X: f64 = 0.0;\n", [], ":4: top-level item starting with `static`"),
    (HEAD + "macro_rules! m { ($($x:ident),*) => {} }\n", [], ":4: macro repetitions"),
]

RENAMES = {
    "rlib/geometry/src/util.rs": [(r"(?<!\.)\bort\b", "nrm"), (r"\bpar\b", "tang"), (r"\bside\b", "half"), (r"\bd\b", "dd"), (r"\bu\b", "l1"), (r"\bv\b", "l2"),
                                   (r"\bh\b", "hh"), (r"\bdir\b", "unit"), (r"pub fn intersect_cl\(c: &Circle, l: &Line\)", "pub fn intersect_cl(c: &Circle, l: &Line) /* a /* nested */ comment */"),
                                   (r"\n    ", "\n\t  ")],
    "rlib/geometry/src/line.rs": [(r"\bd\b", "norm"), (r"\bu\b", "from"), (r"\bv\b", "to"), (r"let a =", "let aa ="), (r"let b =", "let bb ="), (r"let c =", "let cc ="),
                                   (r"-\(a \* from\.x \+ b \* from\.y\)", "-(aa * from.x + bb * from.y)"), (r"Self::new\(a, b, c\)", "Self::new(aa, bb, cc) // renamed")],
    "rlib/geometry/src/circle.rs": [(r"\bd\b", "rel"), (r"p: &Point", "q: &Point"), (r"self\.c - p\)", "self.c - q)")],
    "rlib/geometry/src/point.rs": [(r"\brhs\b", "other"), (r"\$func\b", "$method"), (r"\$trait\b", "$op"), (r"fn dp\(&self, p: &Point\)", "fn dp(&self, q: &Point)"),
                                    (r"self\.x \* p\.x \+ self\.y \* p\.y", "self.x * q.x + self.y * q.y")],
}


def main():
    bad = 0
    lean_dir = os.path.join(os.path.dirname(HERE), "lean")
    # 1. sample
    src = open(os.path.join(HERE, "rs2lean_selftest", "sample_float.rs")).read()
    defs, info = rf.translate_sources([("sample_float.rs", src)], SAMPLE_FNS)
    text = rf.render(defs, "Rlib.TrFloatTest", "`sample_float.rs`", "selftest", "SampleFloat")
    text += PRELUDE + "".join(f"#eval {e}\n" for e, _ in EVALS)
    with tempfile.TemporaryDirectory() as d:
        p = os.path.join(d, "SampleFloat.lean")
        open(p, "w").write(text)
        r = subprocess.run(["lake", "env", "lean", p], cwd=lean_dir, capture_output=True, text=True)
    got = [l for l in r.stdout.split("\n") if l.strip()]
    want = [w for _, w in EVALS]
    if r.returncode != 0 or got != want:
        bad += 1
        print("FAIL sample_float:", r.returncode, [(g, w) for g, w in zip(got, want) if g != w], r.stdout[-1500:], r.stderr[-800:])
    else:
        print(f"ok   sample_float.rs: {len(info['functions'])} definitions, {len(EVALS)} evaluations as expected")
    # 2. renaming / comments / layout
    srcs = [(f, open(os.path.join("/repo", f)).read()) for f in rf.FILES]
    d0, _ = rf.translate_sources(srcs)
    srcs2 = []
    for f, s in srcs:
        for a, b in RENAMES.get(f, []):
            assert re.search(a, s), (f, a)
            s = re.sub(a, b, s)
        srcs2.append((f, s))
    d2, _ = rf.translate_sources(srcs2)
    if d0 != d2 or srcs2 == srcs:
        bad += 1
        print("FAIL rename invariance")
    else:
        print(f"ok   the four geometry files with locals / parameters / macro parameters renamed, comments, other layout: identical text ({len(d0)} definitions)")
    # 3. rejections
    n = 0
    for src, wanted, frag in REJECT:
        try:
            rf.translate_sources([("t.rs", src)], wanted)
            bad += 1
            print("FAIL not rejected:", repr(src[-90:]))
        except rs2lean.TranslateError as e:
            if frag not in str(e) or not str(e).startswith("t.rs:"):
                bad += 1
                print("FAIL wrong message:", e, "| wanted:", frag)
            else:
                n += 1
    print(f"ok   {n} out-of-subset sources rejected with file:line")
    return 1 if bad else 0


if __name__ == "__main__":
    sys.exit(main())
