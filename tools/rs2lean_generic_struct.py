#!/usr/bin/env python3
"""
rs2lean_generic_struct — the struct / impl extension of tools/rs2lean.py: translates a file that defines ONE generic struct
`struct S<T> { f1: T, … }` whose type parameter is an `Integer` (rlib_num_traits), its inherent `impl` blocks and its
operator-trait impls (as used by rlib/rational/src/lib.rs) into Lean 4 definitions over unbounded `Int`, exactly as rs2lean.py
does for free generic functions: `T` → `Int`, `/` `%` → `Int.tdiv` / `Int.tmod` behind a division-by-zero guard, calls on `fuel`.
The struct / impl / operator-dispatch scheme is the one of tools/rs2lean_typed.py (its rules T2, I3, R1–R7), without machine types.

    python3 tools/rs2lean_generic_struct.py SRC.rs --struct Rational --namespace Rlib.RationalSrc --out …/RationalSrc.lean \
            --fns new,add_ref,… [--extern rlib_gcd=rlib/gcd/src/lib.rs:Rlib.GcdSrc:RlibModel.Generated.GcdSrc --repo /repo]

Same discipline as rs2lean.py: syntax-directed, one rule per construct, no optimisation; anything without a rule is an error
`file:line: …` — never skipped.  Tokenizer, statement parser (`let`, `if`, `while`, `loop`, `return`) and the preamble scheme
P1–P2 are rs2lean.py's; names N1 (parameters `p0…`, SSA locals `v0…`), `@[src_def]` and the `f_callee<i>` aliases N2 as there.

TRANSLATION SCHEME (additions to rs2lean.py)
==================
Types
  G1  `T` (the type parameter of the impl; its bounds, after expanding G3, must contain `Integer`)      `Int`; `&T`, `&mut T` likewise
  G2  `struct S<T> { f1: T, …, fk: T }`  a value is the tuple of its fields in declaration order (`Int × … × Int`); as a parameter it
                                        is k consecutive `Int` parameters.  `Self`, `S<T>` = that struct; `&Self`, `&mut Self` have the
                                        same values (references are tracked in the *type* only, for G8/G9).
      `Ordering` → Lean `Ordering`; `Option<X>`, `(X, Y)` as in rs2lean.py; `bool` only in conditions.
Items
  G3  `trait A: B1 + B2 {}` (empty body)  a bound alias: `T: A` stands for `T: B1 + B2` (so `SignedInteger` is an `Integer`).
                                        Other `trait` declarations are skipped (their methods are never resolved: a call is an error).
  G4  `impl<T: B…> S<T> { … }`, `impl<T: B…> Tr<Args> for S<T> { … }`      one `def` per *requested* function and per function it
      calls (callees first).  Lean name: the function's name for an inherent impl and for a trait without type arguments (or with
      `Self`); name + `_ref` for a trait whose argument is `&Self` (`Add<&Self>::add` → `add_ref`).  Two translated functions with one
      name: error.  Receivers: `self`, `&self` → the fields are the first parameters; `&mut self` → additionally the new struct value
      is returned (`Self'` if the Rust function returns `()`, `Self' × R'` otherwise) — as rule I3 of rs2lean_typed.py.
      `type Output = …;` and `const …` inside an impl are skipped.  An impl whose header is outside the subset (type parameter that is
      not an `Integer`, self type other than `S<T>`) is skipped, but resolving a method / operator to a name it defines is an error.
  G5  `macro_rules! m { ($p:frag, …) => { items } }` with one rule and fragments `ty`, `tt`, `ident`; `m!(args);` at item level
                                        expanded by token substitution (what rustc does; item-level bodies bind no locals, so hygiene is
                                        not involved) and parsed as items.  Any other macro shape that is invoked at item level: error.
  G6  `use`, `#[derive(..)]`/`allow`/`inline`/`doc`/`must_use`/`warn`      `use` decides which external crates are visible (G10); of the
                                        derives only `Clone` (G7) and `PartialEq` (C3) are consulted.  Any other top-level item: error.
Expressions
  G7  `S { f: e, … }`, `Self { f }`      the tuple of the field terms (declaration order; initialisers evaluated in source order)
      `e.f`                              the component;  `*e`, `&e`, `&mut e` → ⟦e⟧;  `e.clone()` on a struct: ⟦e⟧ (needs `#[derive(Clone)]`)
  G8  `Self::f(args)`, `S::f(args)`, `e.m(args)`      [bind v… ← f fuel <receiver fields> <args>] — resolved among the impls of S in this
                                        file by name and by the exact types of the arguments (`&Self` vs `Self`), inherent impls first; none or
                                        several candidates: error.  A `&mut self` method is only allowed as a statement `x.m(args);` or as the
                                        initialiser `let d = x.m(args);` on a variable / `self`; the variable is rebound to the returned struct value.
  G9  `e1 + e2`, `- * / %`, `-e`, `x += e` … with ⟦e1⟧ a struct (by value)      the function `add` (`sub` …, `neg`, `add_assign` …) of the impl
                                        `Add<R> for S<T>` of this file whose `R` is the static type of `e2` (`&Self` or `Self`), as G8.
                                        On integers: rules E5–E7 of rs2lean.py.
  G10 `g(e1, …)` with `g` not defined here      a function of an external crate given to the translator (`--extern crate=src:ns:import`),
                                        visible through `use crate::*` / `use crate::g` / `use crate::{…}`:  [bind v ← NS.g fuel ⟦e1⟧ …] where `NS.g`
                                        is the definition rs2lean.py REGENERATES from that crate's source (its signature is read from there).
  G11 `e1.cmp(e2)` on integers           `(compare ⟦e1⟧ ⟦e2⟧)` : `Ordering`;  `e.abs()`, `e.into_abs()`, `T::ZERO/ONE`, `Some/None`, tuples as rs2lean.py
  G12 `if c { e1 } else { e2 }` in expression position, branches without statements and without panics/calls      `(if ⟦c⟧ then ⟦e1⟧ else ⟦e2⟧)`
Conditions
  C3  `e1 == e2`, `!=` on structs        component-wise, only with `#[derive(PartialEq)]`; `<` … on structs: error
Statements (besides S1–S9 of rs2lean.py)
  G13 `x = e`, `*self = e`, `x.f = e`, `x.f op= e`      S3 on the components (fresh names for the components that change)
  G14 `std::mem::swap(&mut p, &mut q)`, p, q ∈ { x, x.f, self.f }      no code: the two environment entries are exchanged (S4 on places)
  G15 `return;`                          in a function returning `()`: `.ok <current self value>` (or `.ok ()`)
  `while` loops as S7 with the first-occurrence parameter order of rs2lean_typed.py; recursion is not in this subset.

What the translator does not look at (besides rs2lean.py's list): that the std operator / `Clone` / `Ord::cmp` impls for the
primitive types behind `T` are the primitive operations; ownership (moves of integers are copies); `Display/Debug/Show/ZeroOne`
impls of the struct (skipped: never requested, G4).
"""
import json
import os
import re
import sys

sys.path.insert(0, os.path.dirname(os.path.abspath(__file__)))
import rs2lean  # noqa: E402
from rs2lean import TranslateError, Parser, Node, KEYWORDS, Tok, write_if_changed, SUBSET, tie_findings  # noqa: E402,F401

ATTR_OK = {"derive", "allow", "inline", "doc", "must_use", "warn"}
BINOP_TRAIT = {"+": ("Add", "add"), "-": ("Sub", "sub"), "*": ("Mul", "mul"), "/": ("Div", "div"), "%": ("Rem", "rem")}
ASSIGN_TRAIT = {"+=": ("AddAssign", "add_assign"), "-=": ("SubAssign", "sub_assign"), "*=": ("MulAssign", "mul_assign"),
                "/=": ("DivAssign", "div_assign"), "%=": ("RemAssign", "rem_assign")}
UNIT, BOOL, ORD = ("unit",), ("bool",), ("ord",)


def strip_ref(ty):
    while isinstance(ty, tuple) and ty[0] == "ref":
        ty = ty[1]
    return ty


def is_struct(ty):
    return isinstance(ty, tuple) and ty[0] == "struct"


def flat(val):
    return list(val) if isinstance(val, list) else [val]


def tup(vals):
    return "()" if not vals else vals[0] if len(vals) == 1 else "(" + ", ".join(vals) + ")"


# ------------------------------------------------------------------------------------------------
# parser
# ------------------------------------------------------------------------------------------------

class GParser(Parser):
    allow_unit_return = True

    def __init__(self, src, file):
        super().__init__(src, file, allow_strings=True)   # Display/Debug/Show impls contain strings; no rule accepts one
        self.structs, self.aliases, self.macros = {}, {}, {}
        self.cur_struct = None

    # -- items ------------------------------------------------------------------------------------
    def parse_program(self):
        self.prog = Node("program", 1, uses=[], structs=self.structs, impls=[], skipped=[], free_fns=[])
        self.parse_items()
        return self.prog

    def parse_items(self):
        prog, pending = self.prog, []
        while self.peek().kind != "eof":
            t = self.peek()
            if self.at("#"):
                pending.append(self.parse_attr())
                continue
            if self.at("use"):
                start = self.i + 1
                while not self.at(";"):
                    if self.peek().kind == "eof":
                        self.err("unterminated `use`", t)
                    self.next()
                prog.uses.append([x.val for x in self.toks[start:self.i]])
                self.next()
                pending = []
                continue
            if self.eat("pub") and self.at("("):
                self.err("`pub(…)` visibility is outside the translated subset")
            if self.at("struct"):
                self.parse_struct(pending)
            elif self.at("trait"):
                self.parse_trait()
            elif self.at("impl"):
                prog.impls.append(self.parse_impl())
            elif self.at("macro_rules") and self.at("!", 1):
                self.parse_macro_rules()
            elif t.kind == "ident" and self.at("!", 1):
                self.expand_invocation()
            elif self.at("fn"):
                kw = self.next()
                name = self.ident("function name").val
                while not self.at("{"):
                    if self.peek().kind == "eof" or self.at(";"):
                        self.err("function without a body", kw)
                    self.next()
                self.skip_braces()
                prog.free_fns.append(name)       # free functions are not translated here; a call of one is an error (G10)
            else:
                self.err(f"top-level item starting with `{self.peek().val}` is outside the translated subset")
            pending = []

    def parse_attr(self):
        t = self.expect("#")
        if self.at("!"):
            self.err("inner attributes are outside the translated subset", t)
        self.expect("[")
        name = self.ident("attribute").val
        depth, start = 1, self.i
        while depth:
            x = self.next()
            if x.kind == "eof":
                self.err("unbalanced `[`", t)
            depth += (x.val == "[") - (x.val == "]") if x.kind == "punct" else 0
        if name not in ATTR_OK:
            self.err(f"attribute `#[{name}…]` is outside the translated subset (it may change what the code means)", t)
        return name, [x.val for x in self.toks[start:self.i - 1]]

    def parse_type_param(self):
        """`<T>` / `<T: B1 + B2>`  -> (name, [bound texts])"""
        self.expect("<")
        if self.at("const") or self.peek().kind == "str":
            self.err("const / lifetime parameters are outside the translated subset")
        name = self.ident("type parameter").val
        bounds = []
        if self.eat(":"):
            while True:
                bounds.append(self.parse_bound())
                if not self.eat("+"):
                    break
        if self.at(","):
            self.err("more than one generic parameter is outside the translated subset")
        self.expect(">")
        return name, bounds

    def parse_struct(self, attrs):
        t = self.expect("struct")
        name = self.ident("struct name").val
        if not self.at("<"):
            self.err("a struct without a type parameter is outside the translated subset (see rs2lean_typed.py)")
        tyvar, _ = self.parse_type_param()
        if self.at("where"):
            self.err("`where` clauses are outside the translated subset")
        if not self.at("{"):
            self.err("unit / tuple structs are outside the translated subset")
        self.next()
        fields = []
        while not self.at("}"):
            self.eat("pub")
            f = self.ident("field name")
            self.expect(":")
            ty = self.ident("field type")
            if ty.val != tyvar:
                self.err(f"field `{f.val}` is not of the generic integer type `{tyvar}`", f)
            fields.append(f.val)
            if not self.eat(","):
                break
        self.expect("}")
        if name in self.structs:
            self.err(f"struct `{name}` defined twice", t)
        if len(set(fields)) != len(fields) or not fields:
            self.err("a struct needs at least one field and distinct field names", t)
        derives = [x for n, toks in attrs if n == "derive" for x in toks if x not in ("(", ")", ",")]
        self.structs[name] = Node("struct", t.line, name=name, fields=fields, derives=derives)

    def parse_trait(self):
        t = self.expect("trait")
        name = self.ident("trait name").val
        supers = None
        save = self.i
        try:
            if self.eat(":"):
                supers = []
                while True:
                    supers.append(self.parse_bound())
                    if not self.eat("+"):
                        break
        except TranslateError:
            supers = None
            self.i = save
        while not self.at("{"):
            if self.peek().kind == "eof":
                self.err("unterminated trait", t)
            supers = None                            # generics / where clause: not an alias
            self.next()
        empty = self.at("}", 1)
        self.skip_braces()
        if empty and supers is not None:
            self.aliases[name] = supers              # G3
        else:
            self.prog.skipped.append(f"trait {name} (line {t.line})")

    def expand_bounds(self, bounds, seen=()):
        out = []
        for b in bounds:
            head = b.split("<")[0].split("::")[-1]
            out.append(head)
            if head in self.aliases and head not in seen:
                out += self.expand_bounds(self.aliases[head], seen + (head,))
        return out

    def parse_impl(self):
        t = self.expect("impl")
        imp = Node("impl", t.line, tyvar=None, bounds=[], trait=None, trait_arg=None, self_name=None, fns=[], error=None, toks=self.toks)
        save = self.i
        try:
            if not self.at("<"):
                self.err("an impl without a type parameter is outside the translated subset")
            imp.tyvar, imp.bounds = self.parse_type_param()
            if "Integer" not in self.expand_bounds(imp.bounds):
                self.err(f"type parameter `{imp.tyvar}` is not bounded by `Integer`: its operations cannot be read as integer operations")
            self.tyvar = imp.tyvar
            first = self.parse_impl_path()
            if self.eat("for"):
                imp.trait, targs = first
                second = self.parse_impl_path()
            else:
                second, targs = first, None
            name, sargs = second
            if name not in self.structs or sargs is None or len(sargs) != 1 or [x.val for x in sargs[0]] != [imp.tyvar]:
                self.err(f"an impl for a type other than `S<{imp.tyvar}>` (S a struct of this file) is outside the translated subset")
            imp.self_name = name
            if targs:
                if len(targs) != 1:
                    self.err("a trait with several type arguments is outside the translated subset")
                self.cur_struct = name
                imp.trait_arg = self.type_of_tokens(targs[0])
            if self.at("where"):
                self.err("`where` clauses are outside the translated subset")
        except TranslateError as e:
            imp.error = e
            self.i = save
        while not self.at("{"):
            if self.peek().kind == "eof":
                self.err("unterminated impl", t)
            self.next()
        self.next()
        self.cur_struct = imp.self_name
        self.tyvar = imp.tyvar
        while not self.at("}"):
            x = self.peek()
            if x.kind == "eof":
                self.err("unterminated impl", t)
            if self.at("#"):
                self.parse_attr()
                continue
            self.eat("pub")
            if self.at("type") or (self.at("const") and not self.at("fn", 1)):
                depth = 0
                while not (self.at(";") and depth == 0):
                    y = self.next()
                    if y.kind == "eof":
                        self.err("unterminated impl item", x)
                    depth += (y.val in ("(", "{", "[")) - (y.val in (")", "}", "]")) if y.kind == "punct" else 0
                self.next()
            elif self.at("fn") or (self.at("const") and self.at("fn", 1)):
                self.eat("const")
                imp.fns.append(self.parse_method_header(imp))
            else:
                self.err(f"impl item starting with `{x.val}` is outside the translated subset")
        self.expect("}")
        self.cur_struct = None
        return imp

    def parse_impl_path(self):
        """`std::ops::Add<&Self>` / `Rational<T>` -> (last segment, None | [token lists of the top-level generic arguments])"""
        segs = [self.ident("path").val]
        while self.eat("::"):
            segs.append(self.ident("path").val)
        args = None
        if self.eat("<"):
            args, depth, cur = [], 1, []
            while True:
                x = self.next()
                if x.kind == "eof":
                    self.err("unbalanced `<`")
                if x.val == "<" and x.kind == "punct":
                    depth += 1
                elif x.val == ">" and x.kind == "punct":
                    depth -= 1
                    if depth == 0:
                        break
                if x.val == "," and depth == 1:
                    args.append(cur)
                    cur = []
                else:
                    cur.append(x)
            if cur:
                args.append(cur)
        return segs[-1], args

    def type_of_tokens(self, toks):
        """parse a token list as a type (with the current tyvar / struct)"""
        save_toks, save_i = self.toks, self.i
        self.toks = list(toks) + [Tok("eof", "", toks[-1].line, toks[-1].pos)]
        self.i = 0
        try:
            ty = self.parse_type()
            if self.peek().kind != "eof":
                self.err("unexpected tokens after a type")
            return ty
        finally:
            self.toks, self.i = save_toks, save_i

    def parse_method_header(self, imp):
        kw = self.expect("fn")
        name = self.ident("function name").val
        fn = Node("fn", kw.line, name=name, impl=imp, header_error=imp.error, body_start=None, recv=None, params=[], ret=UNIT, toks=self.toks)
        save = self.i
        try:
            if self.at("<"):
                self.err(f"generic method `{name}` is outside the translated subset")
            self.expect("(")
            first = True
            while not self.at(")"):
                if first and (self.at("self") or (self.at("mut") and self.at("self", 1)) or
                              (self.at("&") and (self.at("self", 1) or (self.at("mut", 1) and self.at("self", 2))))):
                    if self.eat("&"):
                        fn.recv = "refmut" if self.eat("mut") else "ref"
                    else:
                        fn.recv = "mutval" if self.eat("mut") else "val"
                    self.expect("self")
                    if self.at(":"):
                        self.err("typed `self` receivers are outside the translated subset")
                else:
                    mut = bool(self.eat("mut"))
                    p = self.ident("parameter name")
                    self.expect(":")
                    fn.params.append((p.val, mut, self.parse_type()))
                first = False
                if not self.eat(","):
                    break
            self.expect(")")
            if self.eat("->"):
                fn.ret = self.parse_type()
            if self.at("where"):
                self.err("`where` clauses are outside the translated subset")
            if not self.at("{"):
                self.err("a function without a body is outside the translated subset")
        except TranslateError as e:
            fn.header_error = fn.header_error or e
            self.i = save
            while not self.at("{"):
                if self.peek().kind == "eof" or self.at(";"):
                    raise e
                self.next()
        fn.body_start = self.i
        self.skip_braces()
        return fn

    # -- macros (G5) --------------------------------------------------------------------------------
    def parse_macro_rules(self):
        t = self.expect("macro_rules")
        self.expect("!")
        name = self.ident("macro name").val
        open_i = self.i
        m = Node("macro", t.line, name=name, params=[], body=None, error=None)
        try:
            self.expect("{")
            self.expect("(")
            while not self.at(")"):
                self.expect("$")
                p = self.ident("macro parameter").val
                self.expect(":")
                frag = self.ident("fragment specifier")
                if frag.val not in ("ty", "tt", "ident"):
                    self.err(f"macro fragment `:{frag.val}` is outside the translated subset (ty, tt, ident)", frag)
                m.params.append((p, frag.val))
                if not self.eat(","):
                    break
            self.expect(")")
            self.expect("=>")
            if not self.at("{"):
                self.err("macro body must be in braces")
            b0 = self.i + 1
            self.skip_braces()
            m.body = self.toks[b0:self.i - 1]
            self.eat(";")
            if not self.at("}"):
                self.err("a macro with several rules is outside the translated subset")
            self.next()
        except TranslateError as e:
            m.error = e
            self.i = open_i
            self.skip_braces()
        self.eat(";")
        self.macros[name] = m

    def expand_invocation(self):
        t = self.ident("macro name")
        self.expect("!")
        if t.val not in self.macros:
            self.err(f"macro `{t.val}!` invoked at item level is not a `macro_rules!` of this file: outside the translated subset", t)
        m = self.macros[t.val]
        if m.error:
            raise m.error
        close = {"(": ")", "[": "]", "{": "}"}.get(self.peek().val)
        if close is None:
            self.err("malformed macro invocation", t)
        self.next()
        args, cur, depth = [], [], 0
        while True:
            x = self.next()
            if x.kind == "eof":
                self.err("unterminated macro invocation", t)
            if x.kind == "punct" and x.val in ("(", "[", "{"):
                depth += 1
            elif x.kind == "punct" and x.val in (")", "]", "}"):
                if depth == 0:
                    break
                depth -= 1
            if x.kind == "punct" and x.val == "," and depth == 0:
                args.append(cur)
                cur = []
            else:
                cur.append(x)
        if cur:
            args.append(cur)
        self.eat(";")
        if len(args) != len(m.params) or any(not a for a in args):
            self.err(f"`{t.val}!` takes {len(m.params)} arguments", t)
        for (p, frag), a in zip(m.params, args):
            if frag in ("tt", "ident") and len(a) != 1:
                self.err(f"argument for `${p}:{frag}` must be a single token", t)
        sub = {p: a for (p, _), a in zip(m.params, args)}
        out, body, k = [], m.body, 0
        while k < len(body):
            x = body[k]
            if x.kind == "punct" and x.val == "$":
                nx = body[k + 1] if k + 1 < len(body) else None
                if nx is None or nx.kind != "ident" or nx.val not in sub:
                    self.err("`$` that is not a parameter of the macro (repetitions are outside the translated subset)", x)
                out += [Tok(a.kind, a.val, x.line, a.pos) for a in sub[nx.val]]
                k += 2
            else:
                out.append(x)
                k += 1
        save_toks, save_i = self.toks, self.i
        self.toks = out + [Tok("eof", "", t.line, 0)]
        self.i = 0
        try:
            self.parse_items()
        finally:
            self.toks, self.i = save_toks, save_i

    # -- types ------------------------------------------------------------------------------------
    def parse_type(self):
        t = self.peek()
        if self.at("&") or self.at("&&"):
            n = 2 if self.next().val == "&&" else 1
            if self.peek().kind == "str":
                self.err("lifetimes are outside the translated subset")
            self.eat("mut")
            ty = self.parse_type()
            for _ in range(n):
                ty = ty if ty == "T" else ("ref", ty)
            return ty
        if self.at("("):
            self.next()
            tys = []
            while not self.at(")"):
                tys.append(self.parse_type())
                if not self.eat(","):
                    break
            self.expect(")")
            if not tys:
                return UNIT
            if len(tys) < 2:
                self.err("one-element tuple types are outside the translated subset")
            return ("tuple", tys)
        if self.eat("Self"):
            if self.cur_struct is None:
                self.err("`Self` outside an impl of the struct", t)
            return ("struct", self.cur_struct)
        segs = [self.ident("type")]
        while self.eat("::"):
            segs.append(self.ident("type"))
        n = segs[-1]
        if len(segs) == 1 and n.val == self.tyvar:
            return "T"
        if len(segs) == 1 and n.val in self.structs:
            self.expect("<")
            a = self.ident("type argument")
            if a.val != self.tyvar:
                self.err(f"`{n.val}<{a.val}>`: only the impl's own type parameter is in the translated subset", a)
            self.expect(">")
            return ("struct", n.val)
        if len(segs) == 1 and n.val == "Option":
            self.expect("<")
            inner = self.parse_type()
            self.expect(">")
            return ("opt", inner)
        if n.val == "Ordering" and [s.val for s in segs[:-1]] in ([], ["cmp"], ["std", "cmp"], ["core", "cmp"]):
            return ORD
        if len(segs) == 1 and n.val == "bool":
            return BOOL
        self.err(f"type `{'::'.join(s.val for s in segs)}` is outside the translated subset", t)

    # -- expressions --------------------------------------------------------------------------------
    def parse_expr(self, allow_assign=False):
        t = self.peek()
        e = self.parse_or()
        p = self.peek()
        if p.kind == "punct" and p.val in ("=", "+=", "-=", "*=", "/=", "%="):
            op = self.next()
            if not allow_assign:
                self.err("assignment inside an expression is outside the translated subset", op)
            rhs = self.parse_or()
            return Node("assign", t.line, op=op.val, target=e, expr=rhs)
        if p.kind == "punct" and p.val in ("^=", "&=", "|=", "..", "..=", "..."):
            self.err(f"operator `{p.val}` is outside the translated subset")
        if self.at("as"):
            self.err("`as` casts are outside the translated subset")
        return e

    def parse_unary(self):
        t = self.peek()
        if self.at("*"):
            self.next()
            return Node("deref", t.line, e=self.parse_unary())
        return super().parse_unary()

    def parse_args(self):
        self.expect("(")
        args = []
        while not self.at(")"):
            args.append(self.parse_expr())
            if not self.eat(","):
                break
        self.expect(")")
        return args

    def parse_postfix(self):
        e = self.parse_primary()
        while True:
            t = self.peek()
            if self.at("?"):
                self.err("`?` is outside the translated subset of rs2lean_generic_struct.py")
            elif self.at("."):
                self.next()
                if self.peek().kind == "int":
                    self.err("tuple field access is outside the translated subset")
                m = self.ident("field or method name")
                if self.at("::"):
                    self.err("turbofish is outside the translated subset")
                if self.at("("):
                    e = Node("mcall", t.line, recv=e, name=m.val, args=self.parse_args())
                else:
                    e = Node("field", t.line, e=e, name=m.val)
            elif self.at("(") or self.at("["):
                self.err("call / index on an expression is outside the translated subset")
            else:
                return e

    def looks_like_struct_literal(self):
        a, b = self.peek(1), self.peek(2)
        return (a.kind == "punct" and a.val == "}") or (a.kind == "ident" and b.kind == "punct" and b.val in (":", ",", "}"))

    def parse_primary(self):
        t = self.peek()
        if self.at("if"):                                                                   # G12 (checked by the emitter)
            s = self.parse_if()
            return Node("ifexpr", t.line, cond=s.cond, then=s.then, els=s.els)
        if t.kind == "ident" and (t.val in ("self", "Self") or t.val not in KEYWORDS):
            self.next()
            path = [t.val]
            while self.at("::"):
                self.next()
                if self.at("<"):
                    self.err("turbofish is outside the translated subset")
                path.append(self.ident("path segment").val)
            return self.finish_path(t, path)
        return super().parse_primary()

    def finish_path(self, t, path):
        if self.at("!") and (self.at("(", 1) or self.at("[", 1) or self.at("{", 1)):
            self.err(f"macro invocation `{'::'.join(path)}!` is outside the translated subset", t)
        if self.at("("):
            args = self.parse_args()
            if path in (["std", "mem", "swap"], ["core", "mem", "swap"], ["mem", "swap"]):
                if len(args) != 2 or any(a.kind != "ref" or not a.mut for a in args):
                    self.err("`swap` must be applied to `&mut p, &mut q`", t)
                return Node("swap2", t.line, pa=args[0].e, pb=args[1].e)
            if len(path) == 1:
                if path[0] == "Some":
                    if len(args) != 1:
                        self.err("`Some` takes one argument", t)
                    return Node("some", t.line, e=args[0])
                return Node("call", t.line, fn=path[0], args=args)
            return Node("pcall", t.line, path=path, args=args)
        if self.at("{") and len(path) == 1 and (path[0] == "Self" or path[0] in self.structs) and self.looks_like_struct_literal():
            self.next()
            fields = []
            while not self.at("}"):
                f = self.ident("field name")
                if self.eat(":"):
                    fields.append((f.val, self.parse_expr()))
                else:
                    fields.append((f.val, Node("var", f.line, name=f.val)))
                if not self.eat(","):
                    break
            self.expect("}")
            return Node("structlit", t.line, name=path[0], fields=fields)
        if len(path) == 2 and path[0] == self.tyvar and path[1] in ("ZERO", "ONE"):
            return Node("const", t.line, value=0 if path[1] == "ZERO" else 1)
        if path == ["None"]:
            return Node("none", t.line)
        if len(path) == 1:
            if path[0] == "Self":
                self.err("`Self` as a value is outside the translated subset", t)
            return Node("var", t.line, name=path[0])
        if path[-2:] in (["Ordering", "Less"], ["Ordering", "Equal"], ["Ordering", "Greater"]):
            return Node("ordconst", t.line, value={"Less": ".lt", "Equal": ".eq", "Greater": ".gt"}[path[-1]])
        self.err(f"path `{'::'.join(path)}` is outside the translated subset", t)


# ------------------------------------------------------------------------------------------------
# emitter
# ------------------------------------------------------------------------------------------------

class Var:
    __slots__ = ("uid", "rust", "val", "mut", "ty")

    def __init__(self, uid, rust, val, mut, ty):
        self.uid, self.rust, self.val, self.mut, self.ty = uid, rust, val, mut, ty

    def with_val(self, val):
        return Var(self.uid, self.rust, val, self.mut, self.ty)


def lookup(env, name):
    for v in reversed(env):
        if v.rust == name:
            return v
    return None


def visible(env):
    seen, out = set(), []
    for v in reversed(env):
        if v.rust not in seen:
            seen.add(v.rust)
            out.append(v)
    return list(reversed(out))


def mentioned(node, acc):
    """identifiers used as variables below `node`, in order of first occurrence in the text (a list without repeats)"""
    if isinstance(node, Node):
        if node.kind == "var" and node.name not in acc:
            acc.append(node.name)
        for k, v in node.__dict__.items():
            if k not in ("impl", "toks"):
                mentioned(v, acc)
    elif isinstance(node, (list, tuple)):
        for x in node:
            mentioned(x, acc)
    return acc


def is_place(e):
    while e.kind in ("deref", "ref"):
        e = e.e
    if e.kind == "var":
        return True
    return e.kind == "field" and is_place(e.e)


class Ctx:
    def __init__(self, kind, on_fall=None, on_value=None):
        self.kind, self.on_fall, self.on_value = kind, on_fall, on_value


class FnEmitter:
    wrap = staticmethod(rs2lean.FnEmitter.wrap)          # preamble steps P1 (guard ⇒ divzero), P2 (bind)

    def __init__(self, tr, fn, body):
        self.tr, self.fn, self.body, self.file = tr, fn, body, tr.file
        self.defs, self.loop_count, self.uid = [], 0, 0
        self.imp = fn.impl
        self.callees = []

    def err(self, line, msg):
        raise TranslateError(self.file, line, msg)

    def new_uid(self):
        self.uid += 1
        return self.uid

    def fresh(self, st):
        v = f"v{st['n']}"
        st["n"] += 1
        return v

    def note_callee(self, name, ctx):
        if ctx.kind == "fn" and name not in self.callees:
            self.callees.append(name)

    # -- types --------------------------------------------------------------------------------------
    def fields_of(self, ty, line):
        ty = strip_ref(ty)
        if not is_struct(ty):
            self.err(line, "a struct value is required here")
        return self.tr.struct(ty[1], line).fields

    def width(self, ty, line):
        ty = strip_ref(ty)
        if ty == "T":
            return 1
        if is_struct(ty):
            return len(self.fields_of(ty, line))
        self.err(line, "a value of this type cannot be a parameter / variable of a translated loop or function")

    def lean_ty(self, ty, line):
        ty = strip_ref(ty)
        if ty == "T":
            return "Int"
        if ty == UNIT:
            return "Unit"
        if ty == ORD:
            return "Ordering"
        if is_struct(ty):
            return " × ".join("Int" for _ in self.fields_of(ty, line))
        if ty[0] == "opt":
            return f"Option ({self.lean_ty(ty[1], line)})"
        if ty[0] == "tuple":
            return " × ".join(f"({self.lean_ty(x, line)})" if strip_ref(x) != "T" else "Int" for x in ty[1])
        self.err(line, f"a value of type `{ty[0]}` is outside the translated subset")

    @staticmethod
    def same(a, b):
        """argument / result type agreement; `None` = unknown (e.g. `None`), accepted"""
        return a is None or b is None or a == b

    # -- expressions --------------------------------------------------------------------------------
    def expr(self, e, env, ctx, st):
        """-> (preamble, value, type); value = Lean term, or the list of field terms for a struct with several fields."""
        k = e.kind
        if k == "var":
            v = lookup(env, e.name)
            if v is None:
                self.err(e.line, f"unknown variable `{e.name}` (constants, statics and function values are outside the translated subset)")
            return [], v.val, v.ty
        if k == "const":
            return [], f"({e.value} : Int)", "T"
        if k == "ordconst":
            return [], f"Ordering{e.value}", ORD
        if k == "ref":                                                                     # G7
            pre, v, ty = self.expr(e.e, env, ctx, st)
            return pre, v, (ty if ty in ("T", None) else ("ref", ty))
        if k == "deref":
            pre, v, ty = self.expr(e.e, env, ctx, st)
            if ty == "T" or ty is None:
                return pre, v, ty
            if ty[0] != "ref":
                self.err(e.line, "`*` applied to a value that is not a reference")
            return pre, v, ty[1]
        if k == "field":                                                                   # G7
            pre, v, ty = self.expr(e.e, env, ctx, st)
            fs = self.fields_of(ty, e.line)
            if e.name not in fs:
                self.err(e.line, f"no field `{e.name}`")
            return pre, flat(v)[fs.index(e.name)], "T"
        if k == "structlit":                                                               # G7
            sname = self.imp.self_name if e.name == "Self" else e.name
            fs = self.tr.struct(sname, e.line).fields
            if sorted(n for n, _ in e.fields) != sorted(fs):
                self.err(e.line, "the struct literal must initialise exactly the fields of the struct")
            pre, got = [], {}
            for n, fe in e.fields:
                p, v, ty = self.expr(fe, env, ctx, st)
                if ty not in ("T", None):
                    self.err(fe.line, f"field `{n}` is initialised with a value that is not an integer")
                pre += p
                got[n] = v
            vals = [got[n] for n in fs]
            return pre, (vals[0] if len(vals) == 1 else vals), ("struct", sname)
        if k == "neg":
            pre, v, ty = self.expr(e.e, env, ctx, st)
            if ty == "T":                                                                  # E5
                return pre, f"(-{v})", "T"
            return self.struct_op(e, "Neg", "neg", [(pre, v, ty)], ctx, st)
        if k == "bin":
            p1, v1, t1 = self.expr(e.l, env, ctx, st)
            p2, v2, t2 = self.expr(e.r, env, ctx, st)
            if t1 == "T":
                if t2 != "T":
                    self.err(e.line, f"`{e.op}` of an integer and a value that is not an integer")
                if e.op in ("+", "-", "*"):                                                # E6
                    return p1 + p2, f"({v1} {e.op} {v2})", "T"
                f = "Int.tdiv" if e.op == "/" else "Int.tmod"                              # E7
                return p1 + p2 + [("guard", f"{v2} = 0")], f"({f} {v1} {v2})", "T"
            tr_, fn_ = BINOP_TRAIT[e.op]
            return self.struct_op(e, tr_, fn_, [(p1, v1, t1), (p2, v2, t2)], ctx, st)      # G9
        if k == "mcall":
            return self.method_call(e, env, ctx, st)
        if k == "call":
            return self.free_call(e, env, ctx, st)
        if k == "pcall":
            return self.path_call(e, env, ctx, st)
        if k == "some":
            pre, v, ty = self.expr(e.e, env, ctx, st)
            return pre, f"(some {tup(flat(v))})", (("opt", ty) if ty else None)
        if k == "none":
            return [], "none", None
        if k == "tuple":
            pre, ts, tys = [], [], []
            for a in e.es:
                p, v, ty = self.expr(a, env, ctx, st)
                pre += p
                ts.append(tup(flat(v)))
                tys.append(ty)
            return pre, "(" + ", ".join(ts) + ")", (("tuple", tys) if all(tys) else None)
        if k == "ifexpr":                                                                  # G12
            if e.els is None or e.then.stmts or e.els.stmts or e.then.tail is None or e.els.tail is None:
                self.err(e.line, "`if` in expression position needs two branches that consist of one expression each")
            pc, c = self.cond(e.cond, env, ctx, st)
            pa, va, ta = self.expr(e.then.tail, env, ctx, st)
            pb, vb, tb = self.expr(e.els.tail, env, ctx, st)
            if pa or pb:
                self.err(e.line, "a branch of an `if` in expression position can panic or calls a function: outside the translated subset")
            if not self.same(ta, tb):
                self.err(e.line, "the branches of `if` have different types")
            ty = ta or tb
            if is_struct(strip_ref(ty)) and len(flat(va)) > 1:
                return pc, [f"(if {c} then {x} else {y})" for x, y in zip(flat(va), flat(vb))], ty
            return pc, f"(if {c} then {va} else {vb})", ty
        if k in ("cmp", "and", "or", "not"):
            self.err(e.line, "boolean values outside `if` / `while` conditions are outside the translated subset")
        if k in ("assign", "swap2"):
            self.err(e.line, "assignment / swap in expression position")
        self.err(e.line, f"expression `{k}` has no translation rule")

    def struct_op(self, e, trait, fname, operands, ctx, st):                                # G9
        t0 = operands[0][2]
        if not is_struct(t0):
            if is_struct(strip_ref(t0)):
                self.err(e.line, f"operator on a *reference* to the struct: an `impl {trait} for &S` is outside the translated subset")
            self.err(e.line, "operator applied to a value that is neither an integer nor the struct of this file")
        argtys = [t for _, _, t in operands[1:]]
        fn = self.tr.resolve(t0[1], fname, argtys, e.line, trait=trait)
        pre, val, ty, new_self = self.call_fn(fn, operands[0], operands[1:], e.line, ctx, st)
        if new_self is not None:
            self.err(e.line, f"`{fname}` takes `&mut self`")
        return pre, val, ty

    def call_fn(self, fn, recv, args, line, ctx, st):
        """Common part of G8/G9: `recv`, `args` are translated (preamble, value, type) triples.
        -> (pre, value, type, new receiver value or None)"""
        callee = self.tr.request(fn, line, self.fn)
        self.note_callee(callee, ctx)
        pre, terms = [], []
        if (fn.recv is None) != (recv is None):
            self.err(line, f"`{fn.name}` is {'not ' if fn.recv is None else ''}a method")
        if recv is not None:
            pre += recv[0]
            terms += flat(recv[1])
        if len(args) != len(fn.params):
            self.err(line, f"`{fn.name}` takes {len(fn.params)} arguments, {len(args)} given")
        for (p, v, ty), (_, _, pty) in zip(args, fn.params):
            if not self.same(ty, pty):
                self.err(line, f"an argument of `{fn.name}` does not have the declared type")
            pre += p
            terms += flat(v)
        call = " ".join([callee, "fuel"] + terms)
        rty = fn.ret
        self_n = len(self.tr.struct(fn.impl.self_name, line).fields) if fn.recv == "refmut" else 0
        if rty == UNIT:
            ret_n = 0
        elif is_struct(strip_ref(rty)):
            ret_n = len(self.fields_of(rty, line))
        else:
            self.lean_ty(rty, line)
            ret_n = 1
        names = [self.fresh(st) for _ in range(self_n + ret_n)]
        pre.append(("bind", call, tup(names) if names else "_"))
        new_self = (names[0] if self_n == 1 else names[:self_n]) if self_n else None
        rv = names[self_n:]
        val = "()" if ret_n == 0 else rv[0] if ret_n == 1 else rv
        return pre, val, rty, new_self

    def method_call(self, e, env, ctx, st):
        p1, v1, t1 = self.expr(e.recv, env, ctx, st)
        base = strip_ref(t1)
        if base == "T":                                                                    # E3, E4, G11
            if e.name == "clone" and not e.args:
                return p1, v1, "T"
            if e.name in ("abs", "into_abs") and not e.args:
                return p1, f"(Int.natAbs {v1} : Int)", "T"
            if e.name == "cmp" and len(e.args) == 1:
                p2, v2, t2 = self.expr(e.args[0], env, ctx, st)
                if t2 != "T":
                    self.err(e.line, "`.cmp` of an integer with a value that is not an integer")
                return p1 + p2, f"(compare {v1} {v2})", ORD
            self.err(e.line, f"method `.{e.name}()` on an integer is outside the translated subset (clone, abs, into_abs, cmp)")
        if not is_struct(base):
            self.err(e.line, f"method `.{e.name}()` on a value that is neither an integer nor the struct of this file")
        args = [self.expr(a, env, ctx, st) for a in e.args]
        if e.name == "clone" and not args and not self.tr.has_fn(base[1], "clone"):         # G7
            if "Clone" not in self.tr.struct(base[1], e.line).derives:
                self.err(e.line, "`.clone()` on a struct without `#[derive(Clone)]` is outside the translated subset")
            return p1, v1, base
        fn = self.tr.resolve(base[1], e.name, [t for _, _, t in args], e.line)
        pre, val, ty, new_self = self.call_fn(fn, (p1, v1, t1), args, e.line, ctx, st)
        if new_self is not None:
            self.err(e.line, "a `&mut self` method call is only translated as a statement `x.m(…);` on a variable")
        return pre, val, ty

    def path_call(self, e, env, ctx, st):                                                  # G8
        if len(e.path) == 2 and e.path[0] in ("Self", self.imp.self_name):
            args = [self.expr(a, env, ctx, st) for a in e.args]
            fn = self.tr.resolve(self.imp.self_name, e.path[1], [t for _, _, t in args], e.line, assoc=True)
            pre, val, ty, _ = self.call_fn(fn, None, args, e.line, ctx, st)
            return pre, val, ty
        self.err(e.line, f"call of `{'::'.join(e.path)}` is outside the translated subset")

    def free_call(self, e, env, ctx, st):                                                  # G10
        lean_name, nparams, rty = self.tr.extern_fn(e.fn, e.line)
        if len(e.args) != nparams:
            self.err(e.line, f"`{e.fn}` takes {nparams} arguments, {len(e.args)} given")
        pre, ts = [], []
        for a in e.args:
            p, v, ty = self.expr(a, env, ctx, st)
            if ty != "T":
                self.err(a.line, f"an argument of `{e.fn}` is not an integer")
            pre += p
            ts.append(v)
        self.note_callee(lean_name, ctx)
        v = self.fresh(st)
        return pre + [("bind", f"{lean_name} fuel " + " ".join(ts), v)], v, rty

    def cond(self, e, env, ctx, st):
        k = e.kind
        if k == "cmp":
            p1, v1, t1 = self.expr(e.l, env, ctx, st)
            p2, v2, t2 = self.expr(e.r, env, ctx, st)
            op = {"==": "=", "!=": "≠", "<": "<", "<=": "≤", ">": ">", ">=": "≥"}[e.op]
            if t1 == "T" and t2 == "T":                                                    # C1
                return p1 + p2, f"{v1} {op} {v2}"
            s1, s2 = strip_ref(t1), strip_ref(t2)
            if not (is_struct(s1) and s1 == s2 and t1 == t2):
                self.err(e.line, "comparison of values that are neither two integers nor two struct values of the same type")
            if e.op not in ("==", "!="):
                self.err(e.line, f"`{e.op}` on structs (through `PartialOrd`) is outside the translated subset; call `.cmp()`")
            if "PartialEq" not in self.tr.struct(s1[1], e.line).derives:                   # C3
                self.err(e.line, "`==` on a struct without `#[derive(PartialEq)]` is outside the translated subset")
            c = " ∧ ".join(f"{a} = {b}" for a, b in zip(flat(v1), flat(v2)))
            return p1 + p2, c if e.op == "==" else f"¬ ({c})"
        if k == "not":
            p, c = self.cond(e.e, env, ctx, st)
            return p, f"¬ ({c})"
        if k in ("and", "or"):
            p1, c1 = self.cond(e.l, env, ctx, st)
            p2, c2 = self.cond(e.r, env, ctx, st)
            if p2:
                self.err(e.line, "the right operand of `&&` / `||` can panic or call a function: short-circuit evaluation is outside the translated subset")
            return p1, f"({c1}) {'∧' if k == 'and' else '∨'} ({c2})"
        self.err(e.line, "a condition must be built from comparisons with `!`, `&&`, `||`")

    # -- statements ---------------------------------------------------------------------------------
    def block(self, blk, env, ctx, st, after, ind):
        outer = env

        def leave(env2):
            by_uid = {v.uid: v for v in env2}
            return [by_uid.get(v.uid, v) for v in outer]
        aft = None if after is None else (lambda env2: after(leave(env2)))
        if after is None:
            octx = ctx
            fall = (lambda env2: octx.on_fall(leave(env2))) if octx.on_fall else None
            ctx = Ctx(octx.kind, fall, octx.on_value)
        return self.stmts(blk.stmts, blk.tail, blk.line, env, ctx, st, aft, ind)

    def bind_names(self, ty, st):
        n = self.width(ty, self.fn.line) if (ty == "T" or is_struct(strip_ref(ty))) else 1
        names = [self.fresh(st) for _ in range(n)]
        return names[0] if n == 1 else names

    @staticmethod
    def lets(names, val, ind):
        return [f"{ind}let {n} := {v}" for n, v in zip(flat(names), flat(val))]

    def assign(self, target, new_val_fn, env, line):
        """-> (lines, env with `target` (x | *x | x.f) rebound); new_val_fn(old value, type) -> (lines, new value)     (G13)"""
        t = target
        while t.kind in ("deref", "ref"):
            t = t.e
        fld = None
        if t.kind == "field":
            fld, t = t.name, t.e
            while t.kind in ("deref", "ref"):
                t = t.e
        if t.kind != "var":
            self.err(line, "only variables, `*self` and fields of variables can be assigned to in the translated subset")
        v0 = lookup(env, t.name)
        if v0 is None:
            self.err(line, f"assignment to unknown variable `{t.name}`")
        if not v0.mut:
            self.err(line, f"assignment to `{t.name}`, which is not mutable")
        if fld is None:
            lines, nv = new_val_fn(v0.val, strip_ref(v0.ty))
        else:
            fs = self.fields_of(v0.ty, line)
            if fld not in fs:
                self.err(line, f"no field `{fld}`")
            old = flat(v0.val)
            i = fs.index(fld)
            lines, one = new_val_fn(old[i], "T")
            old[i] = one
            nv = old[0] if len(old) == 1 else old
        return lines, [x.with_val(nv) if x.uid == v0.uid else x for x in env]

    def stmts(self, stmts, tail, line, env, ctx, st, after, ind):
        if not stmts:
            if tail is not None:
                if after is not None:
                    self.err(tail.line, "the value of a block that is not in tail position is dropped: outside the translated subset")
                if ctx.on_value is None:
                    self.err(tail.line, "a `while` body that ends in a value is outside the translated subset")
                pre, v, ty = self.expr(tail, env, ctx, st)
                return self.wrap(pre, [ind + ctx.on_value(env, v, ty, tail.line)], ind)
            if after is not None:
                return after(env)
            if ctx.on_fall is None:
                self.err(line, "control reaches the end of the function body without a value")
            return [ind + x for x in ctx.on_fall(env)]
        s, rest = stmts[0], stmts[1:]
        k = s.kind

        def go(env2):
            return self.stmts(rest, tail, line, env2, ctx, st, after, ind)

        if k == "scope":                                                                    # first copy of a `loop` body (S7')
            return self.block(s.body, env, ctx, st, go, ind)
        if k in ("break", "continue"):
            self.err(s.line, f"`{k}` other than the single `if c {{ break; }}` at the head or tail of a `loop` is outside the translated subset")
        if k == "for":
            self.err(s.line, "`for` is outside the translated subset (generic integers are not iterable)")
        if k == "let":
            mc = self.mut_call(s.expr, env, ctx, st) if s.expr.kind == "mcall" else None      # `let d = x.m(…)` with `m(&mut self)`
            if mc is not None:
                pre, env, v, ty = mc
            else:
                pre, v, ty = self.expr(s.expr, env, ctx, st)
            if getattr(s, "ann", None) is not None:
                if not self.same(ty, s.ann):
                    self.err(s.line, "the type annotation of `let` is not the type of its initialiser")
                ty = s.ann
            if s.pat.kind == "pwild":
                return self.wrap(pre, go(env), ind)
            if s.pat.kind == "ptuple":                                                      # S2 (integer / opaque components only)
                if not (isinstance(ty, tuple) and ty[0] == "tuple" and len(ty[1]) == len(s.pat.pats)):
                    self.err(s.line, "tuple pattern does not match the (known) shape of the value")
                parts, binds = [], []
                for q, qty in zip(s.pat.pats, ty[1]):
                    if q.kind == "pwild":
                        parts.append("_")
                    elif q.kind == "pvar" and not is_struct(strip_ref(qty)):
                        n = self.fresh(st)
                        parts.append(n)
                        binds.append(Var(self.new_uid(), q.name, n, False, qty))
                    else:
                        self.err(q.line, "nested / struct-valued tuple patterns are outside the translated subset")
                return self.wrap(pre, [f"{ind}match {v} with", f"{ind}| ({', '.join(parts)}) =>"] + go(env + binds), ind)
            if ty is None:
                self.err(s.line, "the type of this `let` is not known to the translator (annotate it)")
            if not (ty == "T" or is_struct(strip_ref(ty)) or ty == ORD or ty[0] == "opt"):
                self.err(s.line, "a local of this type is outside the translated subset")
            names = self.bind_names(ty, st)
            env2 = env + [Var(self.new_uid(), s.pat.name, names, s.mut, ty)]
            return self.wrap(pre, self.lets(names, v, ind) + go(env2), ind)
        if k == "expr" and s.expr.kind == "assign":
            a = s.expr
            box = {}

            def new_val(old, ty):
                if ty == "T":
                    rhs = a.expr if a.op == "=" else Node("bin", a.line, op=a.op[0], l=Node("rawval", a.line, val=old), r=a.expr)
                    pre, v, t2 = self.expr_raw(rhs, env, ctx, st)
                    if t2 != "T":
                        self.err(a.line, "assignment of a value that is not an integer to an integer")
                    n = self.fresh(st)
                    box["pre"] = pre
                    return self.lets(n, v, ind), n
                if not is_struct(ty):
                    self.err(a.line, "assignment to a variable of this type is outside the translated subset")
                if a.op == "=":
                    pre, v, t2 = self.expr(a.expr, env, ctx, st)
                    if t2 != ty:
                        self.err(a.line, "assignment of a value of another type (a reference where a value is needed?)")
                    names = self.bind_names(ty, st)
                    box["pre"] = pre
                    return self.lets(names, v, ind), names
                tr_, fn_ = ASSIGN_TRAIT[a.op]                                               # G9: `x op= e` on a struct
                arg = self.expr(a.expr, env, ctx, st)
                fn = self.tr.resolve(ty[1], fn_, [arg[2]], a.line, trait=tr_)
                pre, _, _, new_self = self.call_fn(fn, ([], old, ty), [arg], a.line, ctx, st)
                if new_self is None:
                    self.err(a.line, f"`{fn_}` does not take `&mut self`")
                box["pre"] = pre
                return [], new_self
            lines, env2 = self.assign(a.target, new_val, env, a.line)
            return self.wrap(box["pre"], lines + go(env2), ind)
        if k == "expr" and s.expr.kind == "swap2":                                          # G14
            pa, va, ta = self.expr(s.expr.pa, env, ctx, st)
            pb, vb, tb = self.expr(s.expr.pb, env, ctx, st)
            if pa or pb or not is_place(s.expr.pa) or not is_place(s.expr.pb):
                self.err(s.line, "`swap` must be applied to variables or fields of variables")
            if strip_ref(ta) != strip_ref(tb):
                self.err(s.line, "`swap` of two places of different types")
            va, vb = (list(va) if isinstance(va, list) else va), (list(vb) if isinstance(vb, list) else vb)
            _, env1 = self.assign(s.expr.pa, lambda old, ty: ([], vb), env, s.line)
            _, env2 = self.assign(s.expr.pb, lambda old, ty: ([], va), env1, s.line)
            return go(env2)
        if k == "expr" and s.expr.kind == "mcall":                                          # G8: maybe a `&mut self` method on a place
            mc = self.mut_call(s.expr, env, ctx, st)
            if mc is not None:
                pre, env2, _, _ = mc
                return self.wrap(pre, go(env2), ind)
        if k == "expr":
            pre, _, _ = self.expr(s.expr, env, ctx, st)
            return self.wrap(pre, go(env), ind)
        if k == "return":
            if s.expr is None:                                                              # G15
                if ctx.kind != "fn" or ctx.on_fall is None:
                    self.err(s.line, "`return;` is only translated in a function that returns `()`, outside loops")
                return [ind + x for x in self.fn_fall(env)]
            if ctx.on_value is None:
                self.err(s.line, "`return` inside a `while` body is outside the translated subset")
            pre, v, ty = self.expr(s.expr, env, ctx, st)
            return self.wrap(pre, [ind + ctx.on_value(env, v, ty, s.line)], ind)
        if k == "if":
            pre, c = self.cond(s.cond, env, ctx, st)
            if not rest and tail is None:
                cont = after
            else:
                def cont(env2):
                    return self.stmts(rest, tail, line, env2, ctx, st, after, ind + "  ")
            a_lines = self.block(s.then, env, ctx, st, cont, ind + "  ")
            if s.els is not None:
                b_lines = self.block(s.els, env, ctx, st, cont, ind + "  ")
            elif cont is not None:
                b_lines = cont(env)
            elif ctx.on_fall is not None:
                b_lines = [ind + "  " + x for x in ctx.on_fall(env)]
            else:
                self.err(s.line, "`if` without `else` at the end of the function body: the function could end without a value")
            return self.wrap(pre, [f"{ind}if {c} then ("] + a_lines + [f"{ind}) else ("] + b_lines + [f"{ind})"], ind)
        if k == "while":
            return self.while_loop(s, env, ctx, st, go, ind)
        self.err(s.line, f"statement `{k}` has no translation rule")

    def mut_call(self, m, env, ctx, st):
        """`x.m(args)` where `x` is a place and `m` takes `&mut self`: -> (preamble, env with x rebound, result value, result type);
        None when this is not such a call (then the general rules apply)."""
        if not is_place(m.recv):
            return None
        _, _, rt = self.expr(m.recv, env, ctx, st)
        base = strip_ref(rt)
        if not is_struct(base) or (m.name == "clone" and not m.args):
            return None
        mark = st["n"]
        args = [self.expr(x, env, ctx, st) for x in m.args]
        fn = self.tr.resolve(base[1], m.name, [t for _, _, t in args], m.line)
        if fn.recv != "refmut":
            st["n"] = mark
            return None
        box = {}

        def new_self_val(old, ty):
            pre, val, rty, new_self = self.call_fn(fn, ([], old, ty), args, m.line, ctx, st)
            box.update(pre=pre, val=val, ty=rty)
            return [], new_self
        _, env2 = self.assign(m.recv, new_self_val, env, m.line)
        return box["pre"], env2, box["val"], box["ty"]

    def expr_raw(self, e, env, ctx, st):
        """`expr` for the desugared `x op= e` (left operand = the old value of the place)"""
        if e.kind == "bin" and e.l.kind == "rawval":
            p2, v2, t2 = self.expr(e.r, env, ctx, st)
            if t2 != "T":
                return p2, v2, t2
            v1 = e.l.val
            if e.op in ("+", "-", "*"):
                return p2, f"({v1} {e.op} {v2})", "T"
            f = "Int.tdiv" if e.op == "/" else "Int.tmod"
            return p2 + [("guard", f"{v2} = 0")], f"({f} {v1} {v2})", "T"
        return self.expr(e, env, ctx, st)

    def while_loop(self, s, env, ctx, st, go, ind):                                         # S7 (parameter order of rs2lean_typed.py)
        names = mentioned(s.body, mentioned(s.cond, []))
        vis = {v.rust: v for v in visible(env)}
        vars_ = [vis[n] for n in names if n in vis]
        for v in vars_:
            self.width(v.ty, s.line)
        state = [v for v in vars_ if v.mut]
        name = f"{self.fn.lean_name}_loop{self.loop_count}"
        self.loop_count += 1
        self.note_callee(name, ctx)
        k, lenv = 0, []
        for v in vars_:
            n = len(flat(v.val))
            ps = [f"p{k + i}" for i in range(n)]
            k += n
            lenv.append(Var(v.uid, v.rust, ps if isinstance(v.val, list) else ps[0], v.mut, v.ty))
        nparams = k
        lst = {"n": 0}

        def vals_of(env2, vs):
            return [t for v in vs for t in flat(next(x.val for x in env2 if x.uid == v.uid))]

        def again(env2):
            return [" ".join([name, "fuel"] + vals_of(env2, vars_))]
        lctx = Ctx("loop", again, None)
        pre, c = self.cond(s.cond, lenv, lctx, lst)
        body = self.block(s.body, lenv, lctx, lst, None, "      ")
        inner = self.wrap(pre, ["    if " + c + " then ("] + body + ["    ) else (", "      .ok " + tup(vals_of(lenv, state)), "    )"], "    ")
        nstate = len(vals_of(lenv, state))
        state_ty = "Unit" if not nstate else " × ".join("Int" for _ in range(nstate))
        sig = " → ".join(["Nat"] + ["Int"] * nparams + [f"Except Panic ({state_ty})"])
        text = [f"def {name} : {sig}",
                "  | " + ", ".join(["0"] + ["_"] * nparams) + " => .error .fuel",
                "  | " + ", ".join(["fuel + 1"] + [f"p{i}" for i in range(nparams)]) + " =>"] + inner
        self.defs.append("\n".join(text))
        fresh, env2 = {}, []
        for x in env:
            if any(x.uid == v.uid for v in state):
                fresh[x.uid] = [self.fresh(st) for _ in x.val] if isinstance(x.val, list) else self.fresh(st)
                env2.append(x.with_val(fresh[x.uid]))
            else:
                env2.append(x)
        outs = [t for v in state for t in flat(fresh[v.uid])]
        call = " ".join([name, "fuel"] + vals_of(env, vars_))
        return [f"{ind}match {call} with", f"{ind}| .error e => .error e", f"{ind}| .ok {tup(outs) if outs else '_'} =>"] + go(env2)

    # -- the function -------------------------------------------------------------------------------
    def emit(self):
        fn = self.fn
        env, k = [], 0
        sty = ("struct", self.imp.self_name)
        if fn.recv is not None:
            n = len(self.fields_of(sty, fn.line))
            ps = [f"p{i}" for i in range(n)]
            k = n
            rty = sty if fn.recv in ("val", "mutval") else ("ref", sty)
            env.append(Var(self.new_uid(), "self", ps[0] if n == 1 else ps, fn.recv in ("refmut", "mutval"), rty))
        seen = set()
        for name, mut, ty in fn.params:
            if name in seen:
                self.err(fn.line, "two parameters with the same name")
            seen.add(name)
            n = self.width(ty, fn.line)
            ps = [f"p{k + i}" for i in range(n)]
            k += n
            env.append(Var(self.new_uid(), name, ps[0] if n == 1 else ps, mut, ty))
        st = {"n": 0}
        rt = fn.ret
        self_uid = env[0].uid if fn.recv == "refmut" else None

        def self_vals(env2):
            return flat(next(x.val for x in env2 if x.uid == self_uid)) if self_uid is not None else []

        def on_value(env2, v, ty, line):
            if rt == UNIT:
                self.err(line, "a value is returned from a function declared without a return type")
            if not self.same(ty, rt):
                self.err(line, "the returned value does not have the declared return type")
            return ".ok " + tup(self_vals(env2) + flat(v))
        self.fn_fall = (lambda env2: [".ok " + tup(self_vals(env2))]) if rt == UNIT else None
        ctx = Ctx("fn", self.fn_fall, on_value)
        lines = self.stmts(self.body.stmts, self.body.tail, self.body.line, env, ctx, st, None, "  ")
        parts = ["Int"] * len(self_vals(env)) if self_uid is not None else []
        if rt != UNIT:
            r = self.lean_ty(rt, fn.line)
            parts.append(r if not parts or strip_ref(rt) == "T" or is_struct(strip_ref(rt)) else f"({r})")
        ret = " × ".join(parts) if parts else "Unit"
        binders = f" ({' '.join(f'p{i}' for i in range(k))} : Int)" if k else ""
        head = [f"def {fn.lean_name} (fuel : Nat){binders} : Except Panic ({ret}) :="]
        aliases = [f"abbrev {fn.lean_name}_callee{i} := @{c}" for i, c in enumerate(self.callees)]
        return self.defs + ["\n".join(head + lines)] + aliases


class Translator:
    def __init__(self, src, file, externs=None):
        """`externs`: {crate: {"src": text of its lib.rs, "file": name shown in errors, "ns": Lean namespace of its regenerated definitions}}"""
        self.file = file
        self.parser = GParser(src, file)
        self.prog = self.parser.parse_program()
        self.done, self.order, self.in_progress = {}, [], []
        self.externs = {}
        for crate, x in (externs or {}).items():
            self.externs[crate] = (rs2lean.Translator(x["src"], x["file"]), x["ns"])
        self.name_fns()

    # -- names (G4) ---------------------------------------------------------------------------------
    def name_fns(self):
        for imp in self.prog.impls:
            for f in imp.fns:
                f.lean_name = None
                if imp.error is not None:
                    f.lean_name = f.name                 # requesting it raises the impl's error (translate_fn)
                else:
                    a = imp.trait_arg
                    if imp.trait is None or a is None or a == ("struct", imp.self_name):
                        f.lean_name = f.name
                    elif a == ("ref", ("struct", imp.self_name)):
                        f.lean_name = f.name + "_ref"

    def all_fns(self):
        return [f for imp in self.prog.impls for f in imp.fns]

    def by_lean_name(self, name, line=1):
        c = [f for f in self.all_fns() if f.lean_name == name]
        if not c:
            raise TranslateError(self.file, line, f"function `{name}` not found in the source (names: rule G4)")
        if len(c) > 1:
            raise TranslateError(self.file, c[1].line, f"two functions of the source translate to the name `{name}`")
        return c[0]

    # -- lookups ------------------------------------------------------------------------------------
    def struct(self, name, line):
        if name not in self.prog.structs:
            raise TranslateError(self.file, line, f"struct `{name}` is not defined in this file")
        return self.prog.structs[name]

    def has_fn(self, sname, fname):
        return any(f.name == fname for f in self.all_fns())

    def resolve(self, sname, fname, argtys, line, trait=None, assoc=False):
        """G8/G9: the function `fname` of an impl of `sname` whose parameter types are `argtys` (inherent impls first)."""
        for f in self.all_fns():
            if f.name == fname and (f.impl.error or f.header_error):
                raise TranslateError(self.file, line, f"`{fname}` is also defined by an impl / with a signature outside the translated subset "
                                                      f"({f.impl.error or f.header_error}): the call cannot be resolved")
        cands = [f for f in self.all_fns() if f.impl.self_name == sname and f.name == fname and (trait is None or f.impl.trait == trait)
                 and len(f.params) == len(argtys) and all(FnEmitter.same(a, p[2]) for a, p in zip(argtys, f.params))
                 and (not assoc or f.recv is None)]
        if any(f.impl.trait is None for f in cands):
            cands = [f for f in cands if f.impl.trait is None]
        if not cands:
            what = f"`impl {trait}<…> for {sname}` with these operand types" if trait else f"a function `{fname}` of `{sname}` with these argument types"
            raise TranslateError(self.file, line, f"{what} is not defined in this file: outside the translated subset")
        if len(cands) > 1:
            raise TranslateError(self.file, line, f"`{fname}` is defined by several impls of `{sname}` with the same argument types: ambiguous")
        return cands[0]

    def visible_crates(self, name):
        out = []
        for u in self.prog.uses:
            if u and u[0] in self.externs and len(u) >= 3 and u[1] == "::":
                rest = u[2:]
                if "as" in rest or "self" in rest:
                    raise TranslateError(self.file, 1, f"`use {''.join(u)}`: renaming imports of a translated crate are outside the translated subset")
                if rest == ["*"] or rest == [name] or (rest[0] == "{" and name in rest) or (rest[0] == "{" and "*" in rest):
                    out.append(u[0])
        return out

    def extern_fn(self, name, line):                                                       # G10
        if name in self.prog.free_fns:
            raise TranslateError(self.file, line, f"call of the free function `{name}` of this file: outside the translated subset (only methods of the struct)")
        crates = [c for c in self.visible_crates(name) if name in self.externs[c][0].fns]
        if len(crates) != 1:
            raise TranslateError(self.file, line, f"call of `{name}`, which is neither defined in this file nor a function of a translated crate "
                                                  f"that is `use`d here ({', '.join(self.externs) or 'none given'}): outside the translated subset")
        tr, ns = self.externs[crates[0]]
        f = tr.fns[name]
        if f.header_error:
            raise f.header_error
        return f"{ns}.{name}", len(f.params), f.ret

    # -- driver -------------------------------------------------------------------------------------
    def request(self, fn, line, caller):
        if fn is caller or fn in self.in_progress:
            raise TranslateError(self.file, line, f"recursion through `{fn.name}` is outside the translated subset")
        self.translate_fn(fn)
        return fn.lean_name

    def translate_fn(self, fn):
        if id(fn) in self.done:
            return
        if fn.impl.error:
            raise fn.impl.error
        if fn.header_error:
            raise fn.header_error
        if fn.lean_name is None:
            raise TranslateError(self.file, fn.line, f"`{fn.name}` belongs to a trait impl whose type argument is neither `Self` nor `&Self`: no name rule (G4)")
        self.by_lean_name(fn.lean_name, fn.line)
        p = self.parser
        p.toks, p.i, p.tyvar, p.cur_struct = fn.toks, fn.body_start, fn.impl.tyvar, fn.impl.self_name
        body = p.parse_block()
        self.in_progress.append(fn)
        defs = FnEmitter(self, fn, body).emit()
        self.in_progress.pop()
        self.done[id(fn)] = defs
        self.order.append(fn)

    def translate(self, wanted):
        for w in wanted:
            self.translate_fn(self.by_lean_name(w))
        return [d for f in self.order for d in self.done[id(f)]]


HEADER = """import RlibModel.Model.Common
import RlibModel.Generated.AttrSrc
{imports}/-!
GENERATED by `tools/rs2lean_generic_struct.py` from the source text of `{rel}` on every run of `./check {pid}`
— do not edit by hand.  Translation scheme: the doc comments at the top of `tools/rs2lean.py` and of that tool.  A value of the
generic integer type is an `Int`; a struct value is the tuple of its fields (as parameters: consecutive `Int`s); `/` and `%` are
`Int.tdiv` / `Int.tmod` behind a zero-divisor guard (`Panic.divzero`); method calls and operators on the struct are calls of the
definitions translated from the impls of the same file (`Add<&Self>::add` is `add_ref`); calls into another crate are calls of the
definitions REGENERATED from that crate's source ({extern_note}); every call passes `fuel` on.  Variables are renamed
(`p*` parameters, `v*` SSA locals): the text depends on the source only up to renaming, comments and layout.
`Lemmas/{stem}.lean` proves that each definition returns what the hand-written model returns.  Every definition carries
`@[src_def]` and every function is followed by `abbrev f_callee<i>` = the i-th distinct function it calls.
-/
set_option linter.unusedVariables false
namespace {ns}
open Rlib

"""


def render(defs, ns, rel, pid, stem, imports, extern_note, failure=None):
    text = HEADER.format(rel=rel, pid=pid, ns=ns, stem=stem, imports="".join(f"import {m}\n" for m in imports),
                         extern_note=extern_note or "none here")
    if failure is not None:
        safe = failure.replace("-/", "- /").replace("/-", "/ -")
        text += f"/- TRANSLATION FAILED — no definitions; everything that refers to them stops compiling.\n   {safe} -/\n\n"
    else:
        text += "\n\n".join(("@[src_def] " + d) if d.startswith("def ") else d for d in defs) + "\n\n"
    return text + f"end {ns}\n"


def run(src_path, out_path, ns, rel, pid, wanted, externs=None, repo=None):
    """Translate `src_path` and (re)write `out_path` when its content changes.  -> (info, problems)
    `externs`: {crate: {"rel": path of its lib.rs below `repo`, "ns": Lean namespace, "import": Lean module}}"""
    stem = os.path.splitext(os.path.basename(out_path))[0]
    externs = externs or {}
    imports = [x["import"] for x in externs.values()]
    note = ", ".join(f"`{x['ns']}` from `{x['rel']}`" for x in externs.values())
    problems, info = [], {"functions": []}
    try:
        ext = {c: {"src": open(os.path.join(repo, x["rel"])).read(), "file": x["rel"], "ns": x["ns"]} for c, x in externs.items()}
        tr = Translator(open(src_path).read(), rel, ext)
        defs = tr.translate(wanted)
        info = {"functions": [f.lean_name for f in tr.order],
                "loops": [m.group(1) for d in defs for m in [re.match(r"def (\w+_loop\d+) ", d)] if m],
                "not_translated": sorted({f.lean_name or f"{f.impl.trait or 'impl'}::{f.name}" for f in tr.all_fns() if id(f) not in tr.done}),
                "skipped_items": tr.prog.skipped,
                "extern_calls": sorted({c for f in tr.order for d in tr.done[id(f)] for c in re.findall(r":= @([\w.]+\.\w+)$", d, re.M)})}
        text = render(defs, ns, rel, pid, stem, imports, note)
    except (OSError, TranslateError) as e:
        problems.append(SUBSET + f"rs2lean_generic_struct: {e}" if isinstance(e, TranslateError) else f"rs2lean_generic_struct: {e}")
        text = render([], ns, rel, pid, stem, imports, note, failure=str(e))
    info["rewritten"] = write_if_changed(out_path, text)
    return info, problems


def main(argv):
    import argparse
    ap = argparse.ArgumentParser()
    ap.add_argument("src")
    ap.add_argument("--out", required=True)
    ap.add_argument("--namespace", required=True)
    ap.add_argument("--fns", required=True)
    ap.add_argument("--rel", default=None)
    ap.add_argument("--pid", default="Cxx")
    ap.add_argument("--repo", default="/repo")
    ap.add_argument("--extern", action="append", default=[], help="crate=rel/path/lib.rs:Lean.Namespace:Lean.Module.To.Import")
    a = ap.parse_args(argv)
    externs = {}
    for x in a.extern:
        crate, _, r = x.partition("=")
        rel, ns, imp = r.split(":")
        externs[crate] = {"rel": rel, "ns": ns, "import": imp}
    info, problems = run(a.src, a.out, a.namespace, a.rel or a.src, a.pid, a.fns.split(","), externs, a.repo)
    print(json.dumps({"info": info, "problems": problems}, indent=1))
    return 1 if problems else 0


if __name__ == "__main__":
    sys.exit(main(sys.argv[1:]))
