#!/usr/bin/env python3
"""
C20 — generator of Rust programs for the `rec_lambda!` differential (DESIGN §6 C20).

A *shape* is (captures pattern, number of arguments, return type?, trailing comma in recursive calls?):
  caps : tuple of bools, declared order, True = `&mut`            (0..4 captures)
  nargs: 1..4,   ret: bool,   tc: bool
  => 31 * 4 * 2 * 2 = 496 shapes (quick tier: the 112 shapes with <= 2 captures).
Every shape is instantiated with 3 body templates; each instance is a pair of functions
  g_<sid>_<t>()  — `rec_lambda!` version,
  e_<sid>_<t>()  — hand-written explicit recursive `fn go(args…, captures in DECLARED order…)`,
both returning a string with: every return value, the final value of every captured variable and a
hash of the trace (arguments of every activation and intermediate reads, in execution order).

Shape descriptor line (also the Lean driver's input): `<caps> <args> <ret> <call>`, e.g. `c0:m,c1:s a0,a1 ret:i64 ntc`.
A case = descriptor + ` body=<t> seed=<n>` + optional ` name=<recursion name>` ` nest=<name of a nested rec_lambda!>`
` live2=<name of a second live closure>` ` env=hostile` (name-resolution / hygiene instances, see `hygiene_instances`),
` soak=<many|deep|multi>/<exit form>/<n>` (long-running instances, body 4, see `soak_instances`), ` profile=<debug|release>`
(the cargo profile the instance failed in; default debug).

CLI (replay of one shape outside ./check):
  python3 tools/c20_gen.py --replay 'c0:m,c1:s a0,a1 ret:i64 ntc body=0 seed=1' [--repo /repo] [--keep]
"""
import itertools
import json
import os
import re
import subprocess
import sys

TEMPLATES = 4
MAX_ARGS = 6
TEMPLATE_NAMES = ["arith-i64", "vec-memo", "mixed-types", "ref-args-effects", "exits-i64"]
SOAK_T = 4          # body template of the long-running instances (not part of the TEMPLATES cross product)


# ------------------------------------------------------------------------------------------------
# shapes
# ------------------------------------------------------------------------------------------------

DEFAULT_NAME = "go"


class Shape:
    """nm    = the identifier given to rec_lambda! as the recursion's name (default `go`);
       nest  = None, or the name of a second rec_lambda! built and used INSIDE the body (nested);
       live2 = None, or the name of a second rec_lambda! closure alive next to the first one and used interleaved;
       hyg   = True for the name-resolution (hygiene) instances: the body gets a prologue using free functions, prelude
               names, a type alias, a module, a const, a static and a tuple struct, and (with a return type, templates
               0 and 3) a recursive call nested inside an argument expression of another recursive call."""
    __slots__ = ("caps", "nargs", "ret", "tc", "sid", "nm", "nest", "live2", "hyg", "env", "soak")

    def __init__(self, caps, nargs, ret, tc, sid=0, nm=DEFAULT_NAME, nest=None, live2=None, hyg=None, env=None, soak=None):
        self.caps, self.nargs, self.ret, self.tc, self.sid = tuple(caps), nargs, ret, tc, sid
        self.nm, self.nest, self.live2 = nm, nest, live2
        # soak = None, or (kind, exit form, n): a LONG-RUNNING instance (body template SOAK_T, see the section "long-running use")
        self.soak = tuple(soak) if soak is not None else None
        self.hyg = bool(hyg) if hyg is not None else (nm != DEFAULT_NAME or nest is not None or live2 is not None)
        # env = "hostile": the macro is invoked by its absolute path (`::rlib_lambda::rec_lambda!`) in a scope where the names of
        # the prelude / of std / of the crate's own macros are shadowed by unrelated definitions (HOSTILE_ITEMS); body template 0 only
        self.env = env

    def with_sid(self, sid):
        return Shape(self.caps, self.nargs, self.ret, self.tc, sid, self.nm, self.nest, self.live2, self.hyg, self.env, self.soak)

    def with_n(self, n):
        """the same long-running instance with another length (shrinking)"""
        return Shape(self.caps, self.nargs, self.ret, self.tc, self.sid, self.nm, self.nest, self.live2, self.hyg, self.env,
                     (self.soak[0], self.soak[1], n))

    def shared(self):
        return [i for i, m in enumerate(self.caps) if not m]

    def muts(self):
        return [i for i, m in enumerate(self.caps) if m]

    def ret_ty(self, t):
        if self.soak is not None:
            return soak_ret_ty(self)
        return RET_TY[t] if self.ret else None

    def descriptor(self, t=0):
        caps = ",".join(f"c{i}:{'m' if m else 's'}" for i, m in enumerate(self.caps)) or "-"
        args = ",".join(f"a{k}" for k in range(self.nargs))
        ret = ("ret:" + self.ret_ty(t).replace(" ", "")) if self.ret else "noret"
        return f"{caps} {args} {ret} {'tc' if self.tc else 'ntc'}"

    def case(self, t, seed=1):
        extra = ""
        if self.nm != DEFAULT_NAME or self.hyg:
            extra += f" name={self.nm}"
        if self.nest is not None:
            extra += f" nest={self.nest}"
        if self.live2 is not None:
            extra += f" live2={self.live2}"
        if self.env is not None:
            extra += f" env={self.env}"
        if self.soak is not None:
            extra += " soak=%s/%s/%d" % self.soak
        return f"{self.descriptor(t)} body={t} seed={seed}{extra}"


def parse_case(line):
    """Inverse of Shape.case / Shape.descriptor: returns (Shape, template or None, seed)."""
    toks = line.split()
    if len(toks) < 4:
        raise ValueError("bad shape descriptor: " + line)
    caps = [] if toks[0] == "-" else [p.split(":")[1] == "m" for p in toks[0].split(",")]
    nargs = 0 if toks[1] == "-" else len(toks[1].split(","))
    ret = toks[2] != "noret"
    tc = toks[3] == "tc"
    t, seed = None, 1
    nm, nest, live2, hyg, env, soak = DEFAULT_NAME, None, None, False, None, None
    for x in toks[4:]:
        if x.startswith("soak="):
            kind, form, n = x[5:].split("/")
            soak = (kind, form, int(n))
        if x.startswith("body="):
            t = int(x[5:])
        if x.startswith("seed="):
            seed = int(x[5:])
        if x.startswith("name="):
            nm, hyg = x[5:], True
        if x.startswith("nest="):
            nest = x[5:]
        if x.startswith("live2="):
            live2 = x[6:]
        if x.startswith("env="):
            env = x[4:]
    return Shape(caps, nargs, ret, tc, 0, nm, nest, live2, (False if env is not None else (hyg or None)), env, soak), t, seed


def all_shapes(max_caps):
    out = []
    sid = 0
    for ncap in range(0, max_caps + 1):
        for caps in itertools.product([False, True], repeat=ncap):
            for nargs in range(1, 5):
                for ret in (True, False):
                    for tc in (False, True):
                        out.append(Shape(caps, nargs, ret, tc, sid))
                        sid += 1
    return out


def shapes_for_tier(tier):
    return all_shapes(4 if tier == "thorough" else 2)


def quick_wide_shapes(first_sid):
    """Quick tier only: every &/&mut pattern and order of 3 and of 4 captures (8 + 16 = 24 patterns) with a reduced
    cross product: one argument count per pattern (cycling 1..4), both call syntaxes, {ret, none} alternating;
    one body template per shape (sid % TEMPLATES, so the two call syntaxes of a pattern get two different bodies)."""
    out = []
    sid = first_sid
    k = 0
    for ncap in (3, 4):
        for caps in itertools.product([False, True], repeat=ncap):
            for tc in (False, True):
                out.append(Shape(caps, 1 + k % 4, (k + int(tc)) % 2 == 0, tc, sid))
                sid += 1
            k += 1
    return out


def beyond_shapes(first_sid):
    """Sample beyond the property's stated bound (thorough tier only; the theorems are unbounded): every &/&mut
    pattern of 5 and of 6 captures with 2 and with 6 arguments, with/without return type; the call syntax
    alternates. One body template per shape (sid % TEMPLATES)."""
    out = []
    sid = first_sid
    for ncap in (5, 6):
        for caps in itertools.product([False, True], repeat=ncap):
            for nargs in (2, 6):
                for ret in (True, False):
                    out.append(Shape(caps, nargs, ret, sid % 2 == 0, sid))
                    sid += 1
    return out


# ------------------------------------------------------------------------------------------------
# name-resolution (hygiene) instances
# ------------------------------------------------------------------------------------------------
# The identifier given to rec_lambda! names a MACRO (`name!(..)`); it must not disturb anything the program calls `name` in
# the value or type namespace. Every name below is also USED by the generated program under its ordinary meaning (see
# `hyg_prologue` and PRELUDE): free functions of the program (`tr`, `mix1`), an imported std function (`min`), prelude
# functions / constructors / types / traits, a type alias, a module, a const, a static, a tuple-struct constructor,
# std macros used around the closure (`format`, `vec`), the macro `rec_lambda` itself, method names, locals of the
# enclosing function (`f`, `out`) and of the body (`sh`, `x`, `a0v`), a raw identifier.
GENERIC_NAMES = ["tr", "mix1", "min", "drop", "Some", "Ok", "Box", "Vec", "String", "Default", "Into", "Clone", "Acc", "md",
                 "LIM", "Wrap", "STAT", "format", "vec", "rec_lambda", "wrapping_add", "len", "f", "out", "sh", "x", "a0v", "r#loop"]
_POS_CAPS = [(False,), (True,), (False, True), (True, False), (True, False, True), (False, False, True, True)]


def _sig_shape(name, k):
    """The shape whose inner fn has exactly the signature of the like-named free function (no captures, i64 arguments),
    so that a mis-resolved call still type-checks and shows as a difference in behaviour (body template 0)."""
    return (), (2 if name == "min" else 1), name not in ("tr", "drop"), k % 2 == 1


def hygiene_instances(first_sid, tier):
    """[(Shape, template)]: recursion name equal to another name of the program (free fn, prelude name, type, module, const,
    capture, argument, local, ...), nested rec_lambda!, two live closures used interleaved."""
    out = []
    sid = [first_sid]

    def add(caps, nargs, ret, tc, t, **kw):
        kw.setdefault("hyg", True)
        out.append((Shape(caps, nargs, ret, tc, sid[0], **kw), t))
        sid[0] += 1

    thorough = tier == "thorough"
    pats2 = [c for n in range(3) for c in itertools.product([False, True], repeat=n)]
    # -- generic names
    for k, name in enumerate(GENERIC_NAMES):
        caps, nargs, ret, tc = _sig_shape(name, k)
        add(caps, nargs, ret, tc, 0, nm=name)
        if thorough:
            for j, caps in enumerate(pats2):
                for t in range(TEMPLATES):
                    add(caps, 1 + (j + k + t) % 4, (j + t) % 2 == 0, (j + k) % 2 == 0, t, nm=name)
        else:
            add([(False, True), (True, False, True)][k % 2], 2 + k % 2, k % 4 < 2, k % 2 == 0, 1 + k % 3, nm=name)
    # -- the recursion is called like one of its own captures / arguments
    k = 0
    pos_caps = [c for n in range(1, 4) for c in itertools.product([False, True], repeat=n)] + [_POS_CAPS[-1]] if thorough else _POS_CAPS
    for caps in pos_caps:
        for j in range(len(caps)):
            for t in (range(TEMPLATES) if thorough else [k % TEMPLATES]):
                add(caps, 1 + (j + k) % 3, k % 2 == 0, k % 3 == 0, t, nm=f"c{j}")
            k += 1
    for caps in [(), (True, False)] + ([(False,), (True, True, False)] if thorough else []):
        for nargs in (1, 2, 4):
            for j in sorted({0, nargs - 1}):
                for t in (range(TEMPLATES) if thorough else [k % TEMPLATES]):
                    add(caps, nargs, k % 2 == 1, k % 3 == 1, t, nm=f"a{j}")
                k += 1
    # -- nested: a second rec_lambda! built and used inside the body, under the same / another / a clashing name;
    #    the third shape gives the outer and the inner hidden fn the same signature (body template 0)
    nest_names = ("=", "inner", "c0", "a0", "nw", "b0", "tr", "mix1")
    for si, (caps, nargs, ret) in enumerate([((), 1, True), ((False, True), 2, False), ((True,), 2, True), ((True, False, True), 3, True)]):
        for nest in (nest_names if thorough or si == 2 else nest_names[:4]):
            for t in (range(TEMPLATES) if thorough else [0 if si == 2 else k % TEMPLATES]):
                nm = [DEFAULT_NAME, "c0", "tr", "a0"][k % 4] if nest != "=" else [DEFAULT_NAME, "mix1"][k % 2]
                if nm == "c0" and not caps:
                    nm = DEFAULT_NAME
                add(caps, nargs, ret, k % 2 == 0, t, nm=nm, nest=nm if nest == "=" else nest)
            k += 1
    # -- two live closures, used interleaved, sharing the shared captures, under the same / different names
    for caps, nargs in [((False,), 1), ((False, True), 2), ((True, False, False), 1), ((), 2)]:
        for l2 in ("=", "other", "c0", "tr"):
            for t in (range(TEMPLATES) if thorough else [k % TEMPLATES]):
                nm = [DEFAULT_NAME, "mix1"][k % 2]
                add(caps, nargs, k % 3 != 0, k % 2 == 1, t, nm=nm, live2=nm if l2 == "=" else l2)
            k += 1
    # -- the other direction: names the EXPANSION uses must not be captured by the program's definitions. The macro is invoked by
    #    its absolute path in a scope that shadows the prelude, `std`/`core`, the std macros and the crate's macro names (plain body 0)
    for caps in (pats2 + [(True, False, True)] if thorough else _POS_CAPS + [()]):
        for nargs in ((1, 2, 3, 4) if thorough else (1 + k % 3,)):
            for ret in ((True, False) if thorough else (k % 2 == 0,)):
                add(caps, nargs, ret, k % 2 == 1, 0, hyg=False, env="hostile", nm=[DEFAULT_NAME, "rec_lambda", "drop", "std"][k % 4])
                k += 1
    return out


# ------------------------------------------------------------------------------------------------
# body templates
# ------------------------------------------------------------------------------------------------
# per template: types/initial values of captures (by declared position), types of arguments (by position),
# return type, how to read a capture as i64, how to update a mutable capture with an i64 expression.

RET_TY = ["i64", "i64", "(i64, u8)", "i64"]

_CAP_TY2 = ["i64", "Vec<u8>", "(i64, bool)", "[u32; 3]"]
_CAP_INIT2 = ["7", "vec![1u8, 2, 3]", "(5, true)", "[10u32, 20, 30]"]
_ARG_TY2 = ["i64", "u8", "(i64, i64)", "bool"]
# template 3 ("ref-args-effects"): arguments of REFERENCE type (an output buffer `&mut Vec<i64>`, a slice `&[i64]`, a `&i64`),
# the closure is called three times from the outside with fresh borrows taken in separate scopes and the buffer is read
# between the calls; captures alternate `i64` / `Vec<i64>`; the argument expressions of the recursive calls MUTATE a
# mutable capture (bump a captured counter through a helper fn / pop a captured stack) resp. READ one.
_ARG_TY3 = ["i64", "&mut Vec<i64>", "&[i64]", "&i64"]


def cap_ty(t, i):
    """type of the capture written at position i (any i; template 2 cycles through four different types)"""
    return ["i64", "Vec<i64>", _CAP_TY2[i % 4], ["i64", "Vec<i64>"][i % 2]][t]


def cap_init(t, i):
    if t == 0:
        return str([11, -22, 333, -4444, 55555, -666666, 7777777, -88888888][i % 8] + (i // 8))
    if t == 1:
        return ["vec![3, 1, 4]", "vec![-1, 5]", "vec![9, 2, 6, 5]", "vec![35]", "vec![8, 9, 7]", "vec![-3, 2, 3]"][i % 6]
    if t == 3:
        return [str(5 + 3 * i), f"vec![{i + 1}, {2 * i + 7}, {i + 4}]"][i % 2]
    if i < 4:
        return _CAP_INIT2[i]
    return {"i64": str(7 + i), "Vec<u8>": f"vec![{i}u8, 2]", "(i64, bool)": f"({i}, false)", "[u32; 3]": f"[{i}u32, 1, 2]"}[_CAP_TY2[i % 4]]


def arg_ty(t, k):
    if t == 0:
        return "i64"
    if t == 1:
        return "usize" if k == 0 else "i64"
    if t == 3:
        return _ARG_TY3[k % 4]
    return "i64" if k == 0 else _ARG_TY2[k % 4] if k % 4 else "i64"


def call_inputs(t, seed, sh):
    """Three successive calls of the closure (state carried over): literal arguments by position.
    Argument 0 drives the recursion: first call a0 = 0 (no recursive call), then 1..5, then 4..8."""
    import random
    import zlib
    rng = random.Random((seed & 0xFFFFFFFF) * 1000003 + zlib.crc32(sh.descriptor(t).encode()))   # depends on the shape, not on its number
    out = []
    for lo, hi in ((0, 0), (1, 5), (4, 8)):
        row = []
        for k in range(MAX_ARGS):
            ty = arg_ty(t, k)
            if k == 0:
                row.append(str(rng.randint(lo, hi)))
            elif ty == "i64":
                row.append(str(rng.randint(-9, 9)))
            elif ty == "u8":
                row.append(str(rng.choice([0, 1, 17, 200, 254, 255])))
            elif ty == "(i64, i64)":
                row.append(f"({rng.randint(-5, 5)}, {rng.randint(-5, 5)})")
            elif ty == "bool":
                row.append(rng.choice(["true", "false"]))
            elif ty == "&mut Vec<i64>":
                row.append("")                        # the outer output buffer ob<k>
            elif ty == "&[i64]":
                row.append("vec![" + ", ".join(str(rng.randint(-9, 9)) for _ in range(rng.randint(1, 4))) + "]")
            elif ty == "&i64":
                row.append(str(rng.randint(-9, 9)))
            else:
                raise ValueError(ty)
        out.append(row)
    return out


def cap_read(t, i):
    """i64-valued expression reading capture i (works through `&T`, `&mut T` and on the variable itself)."""
    c = f"c{i}"
    if t == 0:
        return f"(*{c})"
    if t == 1:
        return f"{c}[(a0 + {i}) % {c}.len()]"
    if t == 3:
        return [f"(*{c})", f"({c}.len() as i64).wrapping_add({c}.last().copied().unwrap_or(0))"][i % 2]
    ty = cap_ty(2, i)
    return {"i64": f"(*{c})", "Vec<u8>": f"({c}.len() as i64 + {c}[0] as i64)",
            "(i64, bool)": f"({c}.0.wrapping_add({c}.1 as i64))", "[u32; 3]": f"({c}[1] as i64)"}[ty]


def cap_write(t, i, v, salt):
    """statements updating mutable capture i (a `&mut T` parameter named c<i>) with the i64 expression v."""
    c = f"c{i}"
    if t == 0:
        return [f"*{c} = {c}.wrapping_mul(31).wrapping_add({v}).wrapping_add({salt});"]
    if t == 1:
        return [f"{c}.push(({v}).wrapping_add({salt}));"]
    if t == 3:
        return [[f"*{c} = {c}.wrapping_mul(31).wrapping_add({v}).wrapping_add({salt});"], [f"{c}.push(({v}).wrapping_add({salt}));"]][i % 2]
    ty = cap_ty(2, i)
    return {
        "i64": [f"*{c} = {c}.wrapping_mul(31).wrapping_add({v}).wrapping_add({salt});"],
        "Vec<u8>": [f"{c}.push((({v}).wrapping_add({salt})) as u8);"],
        "(i64, bool)": [f"{c}.0 = {c}.0.wrapping_mul(3).wrapping_add({v}).wrapping_add({salt});", f"{c}.1 = !{c}.1;"],
        "[u32; 3]": [f"{c}[((({v}) as u64) % 3) as usize] = {c}[{salt % 3}].wrapping_add(({v}) as u32);"],
    }[ty]


def arg_i64(t, k):
    a = f"a{k}"
    ty = arg_ty(t, k)
    return {"i64": a, "usize": f"({a} as i64)", "u8": f"({a} as i64)", "(i64, i64)": f"({a}.0 ^ {a}.1)", "bool": f"({a} as i64)",
            "&mut Vec<i64>": f"({a}.len() as i64)", "&[i64]": f"{a}[(a0 as usize) % {a}.len()]", "&i64": f"(*{a})"}[ty]


def arg_next(t, k, variant):
    """argument expression k of the recursive call number `variant` (1 or 2); argument 0 drives the recursion."""
    a = f"a{k}"
    ty = arg_ty(t, k)
    if k == 0:
        if ty == "usize":
            return "a0 - 1" if variant == 1 else "a0 / 2"
        return "a0 - 1" if variant == 1 else "a0 - 2"
    if ty == "i64":
        return f"{a}.wrapping_add({k})" if variant == 1 else f"{a}.wrapping_mul(3) ^ {k}"
    if ty == "u8":
        return f"{a}.wrapping_add(1)" if variant == 1 else f"{a} / 2"
    if ty == "(i64, i64)":
        return f"({a}.1, {a}.0 + 1)" if variant == 1 else f"({a}.0 - 1, {a}.1)"
    if ty == "bool":
        return f"!{a}" if variant == 1 else f"{a} ^ true"
    if ty in ("&mut Vec<i64>", "&i64"):
        return a                                   # re-borrowed / copied reference
    if ty == "&[i64]":
        return a if variant == 1 else f"&{a}[..]"
    raise ValueError(ty)


def hyg_prologue(sh, t):
    """Statements (the same in the rec_lambda! and in the explicit version) that use, under their ordinary meaning, every name
    of GENERIC_NAMES that has one inside the body: free functions, an imported function, prelude functions, constructors
    (also as patterns), types, traits, a type alias, a module, a const, a static, a tuple-struct constructor."""
    label = [f"'{sh.nm}: loop {{ tr(7); break '{sh.nm}; }}"] if re.fullmatch(r"[A-Za-z_]\w*", sh.nm) else []   # a label called like the recursion
    return label + [
        f"let a0v: i64 = {arg_i64(t, 0)};",
        "if a0v > 0 { tr(mix1(a0v - 1)); }",
        "tr(min(a0v, 3));",
        "let pz = Some(a0v); if let Some(q) = pz { tr(q); }",
        "let rz: Result<i64, ()> = Ok(a0v ^ 1); if let Ok(q) = rz { tr(q); }",
        "let bz: Box<i64> = Box::new(a0v); let vz: Vec<i64> = Vec::new(); let sz = String::new();",
        "tr(*bz + vz.len() as i64 + sz.len() as i64);",
        "drop(bz);",
        "let dz: i64 = Default::default(); let iz: i64 = Into::into(a0v); tr(dz ^ Clone::clone(&iz));",
        "let qz: Acc = md::idv(a0v).wrapping_add(LIM); let wz = Wrap(qz); tr(wz.0 + STAT);",
    ]


def nested_lines(sh, t, explicit):
    """A second recursive closure built, used twice (the first result is fed back) and dropped INSIDE the body, before the
    outer recursive calls; it captures a local of the outer body mutably. It never calls the outer recursion."""
    n = sh.nest
    L = [f"let mut nw: i64 = {arg_i64(t, 0)};", "let n0 = nw & 3;", "let nz = {"]
    inner = ["tr(b0);", "*nw = nw.wrapping_mul(5).wrapping_add(b1);"]
    if explicit:
        L.append("    fn ngo(b0: i64, b1: i64, nw: &mut i64) -> i64 {")
        L += ["        " + x for x in inner]
        L.append("        if b0 <= 0 { b1 } else { ngo(b0 - 1, b1.wrapping_add(*nw), nw) }")
        L.append("    }")
        L.append("    let n1 = ngo(n0, 1, &mut nw);")
        L.append("    ngo(n1 & 1, n1, &mut nw)")
    else:
        L.append(f"    let mut nh = rec_lambda!({n}, |nw: &mut i64| {{")
        L.append("        |b0: i64, b1: i64| -> i64 {")
        L += ["            " + x for x in inner]
        L.append(f"            if b0 <= 0 {{ b1 }} else {{ {n}!(b0 - 1, b1.wrapping_add(*nw)) }}")
        L.append("        }")
        L.append("    });")
        L.append("    let n1 = nh(n0, 1);")
        L.append("    nh(n1 & 1, n1)")
    L.append("};")
    L += ["tr(nz);", "tr(nw);"]
    return L


def rec_call_sites(sh, t):
    """Number of recursive call sites of the body that are not nested in the argument list of another one (what the reader of
    the expansion counts): three, plus - hygiene instances of body 0 with a return type - the nested call moved into a `let`."""
    return 4 if (sh.hyg and sh.ret and t == 0) else 3


def value_names(sh, t):
    """(locals, uses): the `let`s of the body and the identifiers the body uses as VALUES (input of the driver's `names` line)."""
    locals_ = ["sh", "x", "y"] + (["z0", "kf", "z"] if rec_call_sites(sh, t) == 4 else [])
    uses = ["tr"] + [f"c{i}" for i in range(len(sh.caps))] + [f"a{k}" for k in range(sh.nargs)]
    if t == 3 and sh.muts() and sh.muts()[0] % 2 == 0:
        uses.append("bump")
    if sh.hyg:
        locals_ += ["a0v", "pz", "rz", "bz", "vz", "sz", "dz", "iz", "qz", "wz", "q"]
        uses += ["mix1", "min", "Some", "Ok", "drop", "LIM", "STAT", "Wrap"]
    if sh.nest is not None:
        locals_ += ["nw", "n0", "nz"]
    return locals_, uses + locals_


def body_lines(sh, t, call, explicit=False):
    """The body of the recursive closure; `call(list of exprs)` renders one recursive call."""
    L = []
    for k in range(sh.nargs):
        L.append(f"tr({arg_i64(t, k)});")
    sh_expr = "1i64" + "".join(f".wrapping_add({cap_read(t, i)}.wrapping_mul({2 * i + 3}))" for i in sh.shared())
    L.append(f"let sh: i64 = {sh_expr};")
    L.append("tr(sh);")
    for i in sh.muts():                      # mutable captures are read, then updated
        L.append(f"tr({cap_read(t, i)});")
        L += cap_write(t, i, f"({arg_i64(t, 0)} ^ sh)", i + 1)
    if sh.hyg:
        L += hyg_prologue(sh, t)
    if sh.nest is not None:
        L += nested_lines(sh, t, explicit)
    ex1 = [arg_next(t, k, 1) for k in range(sh.nargs)]
    ex2 = [arg_next(t, k, 2) for k in range(sh.nargs)]
    if t == 3:
        for k in range(sh.nargs):
            if arg_ty(t, k) == "&mut Vec<i64>":
                L.append(f"a{k}.push(a0.wrapping_add(sh));")
        if sh.muts():
            # argument expressions with side effects on / reads of a mutable capture, evaluated BEFORE the callee runs:
            # call 1 mutates the first mutable capture (bump a counter via a helper fn / pop a stack), call 2 reads the last one
            m1, m2 = sh.muts()[0], sh.muts()[-1]
            mut_expr = [f"bump(c{m1})", f"c{m1}.pop().unwrap_or(3)"][m1 % 2]
            ex1[0] = f"a0 - 1 - ({mut_expr} & 0)"
            ex2[0] = f"a0 - 2 + ({cap_read(t, m2)} & 0)"
    if sh.hyg and sh.ret and t in (0, 3):
        # a recursive call nested inside an argument expression of another recursive call
        inner = list(ex1)
        inner[0] = "a0 - 2"
        ex2[0] = f"{ex2[0]} + ({call(inner)} & 0)"
    rec1 = call(ex1)
    rec2 = call(ex2)
    if sh.hyg and sh.ret and t == 0:
        # a call site inside an ordinary closure of the body (which captures the inner fn's parameters the call appends)
        rec2 = f"{{ let z0 = {ex2[0]}; let mut kf = |z: i64| {call(['z'] + ex2[1:])}; kf(z0) }}"
    last = arg_i64(t, sh.nargs - 1)

    def after(v):
        out = []
        for i in sh.muts():
            out += cap_write(t, i, v, 10 + i)
            out.append(f"tr({cap_read(t, i)});")
        return out

    zero = "a0 == 0" if arg_ty(t, 0) == "usize" else "a0 <= 0"
    one = "a0 % 2 == 1" if t == 1 else "a0 % 3 == 0"
    if sh.ret:
        if t == 2:
            val = lambda e: f"(({e}), ({last}) as u8)"          # noqa: E731
            get = lambda x: f"{x}.0.wrapping_add({x}.1 as i64)"  # noqa: E731
        else:
            val = lambda e: f"{e}"                                # noqa: E731
            get = lambda x: x                                     # noqa: E731
        L.append(f"if {zero} {{")
        L.append("    " + val(f"sh.wrapping_add({last})"))
        L.append(f"}} else if {one} {{")
        L.append(f"    let x = {rec1};")
        L += ["    " + s for s in after(get("x"))]
        L.append("    " + val(f"{get('x')}.wrapping_add(1)"))
        L.append("} else {")
        L.append(f"    let x = {rec1};")
        L.append(f"    let y = {rec2};")
        L += ["    " + s for s in after(f"({get('x')} ^ {get('y')})")]
        L.append("    " + val(f"{get('x')}.wrapping_mul(7).wrapping_add({get('y')})"))
        L.append("}")
    else:
        L.append(f"if {zero} {{")
        L.append("    tr(-1);")
        L.append(f"}} else if {one} {{")
        L.append(f"    {rec1};")
        L += ["    " + s for s in after(f"({arg_i64(t, 0)})")]
        L.append("} else {")
        L.append(f"    {rec1};")
        L += ["    " + s for s in after(f"({arg_i64(t, 0)} + 1)")]
        L.append(f"    {rec2};")
        L.append("}")
    return L


def live2_parts(sh, t):
    """The second closure of a `live2` instance: alive next to the first one, called after each of its calls; it shares the
    SHARED captures of the shape with the first closure and has one mutable capture `e0` of its own.
    Returns (lines building it with rec_lambda!, lines of the explicit fn `go2`, explicit call as a function of the literal)."""
    n2 = sh.live2
    sh_caps = sh.shared()
    a_ty = arg_ty(t, 0)
    a0 = arg_i64(t, 0)
    zero = "a0 == 0" if a_ty == "usize" else "a0 <= 0"
    reads = "0i64" + "".join(f".wrapping_add({cap_read(t, i)})" for i in sh_caps)

    def body(call):
        return ["tr(" + a0 + ");", f"*e0 = e0.wrapping_mul(3).wrapping_add({reads});",
                f"if {zero} {{ *e0 }} else {{ {call('a0 - 1')} ^ {a0} }}"]

    cap_list = ", ".join([f"c{i}: &{cap_ty(t, i)}" for i in sh_caps] + ["e0: &mut i64"])
    g = [f"let mut h2 = rec_lambda!({n2}, |{cap_list}| {{", f"    |a0: {a_ty}| -> i64 {{"]
    g += ["        " + x for x in body(lambda x: f"{n2}!({x}{',' if not sh.tc else ''})")]     # the other call syntax
    g += ["    }", "});"]
    e = ["fn go2(" + ", ".join([f"a0: {a_ty}"] + [f"c{i}: &{cap_ty(t, i)}" for i in sh_caps] + ["e0: &mut i64"]) + ") -> i64 {"]
    e += ["    " + x for x in body(lambda x: "go2(" + ", ".join([x] + [f"c{i}" for i in sh_caps] + ["e0"]) + ")")]
    e.append("}")
    e_call = lambda lit: "go2(" + ", ".join([lit] + [f"&c{i}" for i in sh_caps] + ["&mut e0"]) + ")"   # noqa: E731
    return g, e, e_call


def gen_pair(sh, t, seed=1):
    """Source text of g_<sid>_<t> and e_<sid>_<t>."""
    if sh.soak is not None:
        if t != SOAK_T:
            raise ValueError("a long-running instance has body template %d" % SOAK_T)
        return gen_soak_pair(sh, seed)
    caps = list(enumerate(sh.caps))
    n = sh.nargs
    rn = sh.nm
    hostile = sh.env == "hostile"
    if hostile and (t != 0 or sh.hyg or sh.live2 is not None or sh.nest is not None):
        raise ValueError("env=hostile is for the plain body template 0 only")
    macro_path = "::rlib_lambda::rec_lambda" if hostile else "rec_lambda"
    blk_open = (["    let (r0, r1, r2) = {"] + ["        " + x for x in HOSTILE_ITEMS.strip().split("\n")]) if hostile else ["    {"]
    blk_close = ["    };", '    out += &format!("{:?};{:?};{:?};", r0, r1, r2);'] if hostile else ["    }"]
    args_decl = ", ".join(f"a{k}: {arg_ty(t, k)}" for k in range(n))
    ret = f" -> {RET_TY[t]}" if sh.ret else ""
    decl = []
    for i, m in caps:
        decl.append(f"    let {'mut ' if m else ''}c{i}: {cap_ty(t, i)} = {cap_init(t, i)};")
    final = "".join(f'    out += &format!("c{i}={{:?}};", c{i});\n' for i, _ in caps)

    bufs = [k for k in range(n) if arg_ty(t, k) == "&mut Vec<i64>"]
    for k in bufs:
        decl.append(f"    let mut ob{k}: Vec<i64> = Vec::new();")
    if sh.live2 is not None:
        decl.append("    let mut e0: i64 = 1;")
        final += '    out += &format!("e0={:?};", e0);\n'
        l2_g, l2_e, l2_ecall = live2_parts(sh, t)

    def calls(fn_call, h_call=None):
        """fn_call(call number, actual arguments) renders one call of the closure / of the explicit fn; h_call(literal) one call
        of the second live closure (after each call of the first)."""
        s = ""
        for ci, inp in enumerate(call_inputs(t, seed, sh)):
            if hostile:
                s += f'        let r{ci} = {fn_call(ci, inp[:n])};\n'
            elif t != 3:
                s += f'        let r = {fn_call(ci, inp[:n])};\n        out += &format!("{{:?}};", r);\n'
            else:
                # every call in a scope of its own with fresh referents for the `&` arguments and a fresh `&mut` borrow of the buffers
                s += "        {\n"
                actual = []
                for k in range(n):
                    ty = arg_ty(t, k)
                    if ty == "&mut Vec<i64>":
                        actual.append(f"&mut ob{k}")
                    elif ty == "&[i64]":
                        s += f"            let d{k}: Vec<i64> = {inp[k]};\n"
                        actual.append(f"&d{k}[..]")
                    elif ty == "&i64":
                        s += f"            let s{k}: i64 = {inp[k]};\n"
                        actual.append(f"&s{k}")
                    else:
                        actual.append(inp[k])
                s += f'            let r = {fn_call(ci, actual)};\n            out += &format!("{{:?}};", r);\n        }}\n'
                for k in bufs:          # the buffer is read between two uses of the closure
                    s += f'        out += &format!("ob{k}={{:?}};", ob{k});\n'
            if h_call is not None:
                s += f'        let q = {h_call(["2", "1", "3"][ci % 3])};\n        out += &format!("h{{:?}};", q);\n'
        if hostile:
            s += "        (r0, r1, r2)\n"
        return s

    # ---- generated version
    # without a mutable capture the closure is bound immutably (it must be `Fn`), copied (it must be `Copy`: both copies are
    # used afterwards) and its second call goes through a shared reference; with one it is `FnMut`: second call through `&mut f`
    has_mut = bool(sh.muts())
    cap_list = ", ".join(f"c{i}: &{'mut ' if m else ''}{cap_ty(t, i)}" for i, m in caps)
    g_call = lambda ex: f"{rn}!(" + ", ".join(ex) + ("," if sh.tc else "") + ")"   # noqa: E731
    gb = body_lines(sh, t, g_call)
    g = [f"pub fn g_{sh.sid}_{t}() -> String {{", "    let mut out = String::new();", "    tr_reset();"] + decl
    g += blk_open
    g.append(f"        let {'mut ' if has_mut else ''}f = {macro_path}!({rn}, |{cap_list}| {{")
    g.append(f"            |{args_decl}|{ret} {{")
    g += ["                " + s for s in gb]
    g.append("            }")
    g.append("        });")
    if not has_mut:
        g.append("        let f2 = f;")
    if sh.live2 is not None:
        g += ["        " + x for x in l2_g]

    def g_fn_call(ci, inp):
        callee = "f" if ci != 1 else ("(&mut f)" if has_mut else "(&f2)")
        return callee + "(" + ", ".join(inp) + ")"

    g.append(calls(g_fn_call, (lambda lit: f"h2({lit})") if sh.live2 is not None else None).rstrip("\n"))
    g += blk_close
    g.append(final.rstrip("\n")) if final else None
    g.append('    out += &format!("t={}", tr_get());')
    g.append("    out")
    g.append("}")
    # ---- explicit version: captures passed in DECLARED order
    e_params = ", ".join([f"a{k}: {arg_ty(t, k)}" for k in range(n)] + [f"c{i}: &{'mut ' if m else ''}{cap_ty(t, i)}" for i, m in caps])
    e_call = lambda ex: "go(" + ", ".join(list(ex) + [f"c{i}" for i, _ in caps]) + ")"   # noqa: E731
    eb = body_lines(sh, t, e_call, explicit=True)
    e = [f"pub fn e_{sh.sid}_{t}() -> String {{", "    let mut out = String::new();", "    tr_reset();"] + decl
    e_fn = [f"    fn go({e_params}){ret} {{"] + ["        " + s for s in eb] + ["    }"]
    if hostile:                     # the explicit fn lives in the same hostile scope
        e += blk_open + ["    " + x for x in e_fn]
    else:
        e += e_fn
        if sh.live2 is not None:
            e += ["    " + x for x in l2_e]
        e += blk_open
    e.append(calls(lambda ci, inp: "go(" + ", ".join(list(inp) + [f"&{'mut ' if m else ''}c{i}" for i, m in caps]) + ")",
                   l2_ecall if sh.live2 is not None else None).rstrip("\n"))
    e += blk_close
    e.append(final.rstrip("\n")) if final else None
    e.append('    out += &format!("t={}", tr_get());')
    e.append("    out")
    e.append("}")
    return "\n".join(x for x in g if x is not None), "\n".join(x for x in e if x is not None)


# ------------------------------------------------------------------------------------------------
# long-running use (body template SOAK_T = "exits-i64")
# ------------------------------------------------------------------------------------------------
# Classes (E)/(B) of the fourth/fifth round of seeded changes (C20_m11: a debug-only thread-local depth counter that is not
# released on an early `return` / `?`): a closure whose body LEAVES EARLY in every syntactic way Rust has, used for a long time
# on one thread. One instance = one fresh thread with a big stack (so that an instance fails or passes on its own) running
#   many : one closure called n times in a row (recursion depth <= 4), checkpoints of an accumulator at every power of two;
#   deep : one closure called three times with recursion depth n, 2, n/2 + 1 (non-tail recursion, one early exit per level);
#   multi: THREE closures alive at once, each over captured variables of its own (nothing shared), three different exit forms,
#          called round-robin n times in total (the state a leak could accumulate in is per thread, not per closure);
# against the hand-written explicit recursion written with the same body. Exit forms of the body:
#   ret  explicit `return v;` in the base case and after the first recursive call;      tail  no early exit (control);
#   opt  `?` on an `Option` (return type `Option<i64>`), in the base case and data-dependent after a recursive call;
#   res  the same with `Result<i64, i64>`;
#   brk  `break 'fin v` out of a labelled block, also from inside a nested `loop`;       lop  `break v` / `continue` in a `loop`;
#   unw  unwinding: the base case panics (`panic_any`) for a quarter of the inputs, the caller catches it and keeps using the closure.
SOAK_KINDS = ["many", "deep", "multi"]
SOAK_FORMS = ["ret", "opt", "res", "brk", "lop", "tail", "unw"]
_SOAK_RET = {"opt": "Option<i64>", "res": "Result<i64, i64>"}
_SOAK_ROT = {True: ["ret", "opt", "res", "brk", "lop", "tail"], False: ["ret", "brk", "lop", "tail"]}
SOAK_I64_FORMS = ("ret", "brk", "lop", "tail")        # same VALUE semantics: the Lean semantic model is run on these (driver line `hist`)
SOAK_LEAN_N = 64                                      # length of the prefix of a `many` history that the Lean model is run on


def soak_ret_ty(sh, form=None):
    form = form or sh.soak[1]
    return _SOAK_RET.get(form, "i64") if sh.ret else None


def soak_forms(sh):
    """exit forms of the closures of an instance: one, or (multi) three different ones starting at the instance's form"""
    kind, form, _ = sh.soak
    if kind != "multi":
        return [form]
    rot = _SOAK_ROT[bool(sh.ret)]
    k = rot.index(form)
    return [rot[(k + j) % len(rot)] for j in range(3)]


def soak_body(sh, form, call, cp="c"):
    """Body of the closure (all values i64): cheap, recursion depth = a0 for a0 > 3 (one call per level), <= 4 activations below."""
    n = sh.nargs
    last = f"a{n - 1}"
    muts, shared = sh.muts(), sh.shared()
    L = [f"tr(a0.wrapping_mul(5) ^ {last});"]
    L.append("let sh: i64 = 1i64" + "".join(f".wrapping_add((*{cp}{i}).wrapping_mul({2 * i + 3}))" for i in shared) + ";")
    for i in muts:
        L.append(f"*{cp}{i} = {cp}{i}.wrapping_mul(31).wrapping_add(a0 ^ sh).wrapping_add({i + 1});")
    L.append("let mu: i64 = 0i64" + "".join(f".wrapping_add(*{cp}{i})" for i in muts) + ";")
    rec1 = call(["a0 - 1"] + [f"a{k}.wrapping_add({k})" for k in range(1, n)])
    rec2 = call(["a0 - 2"] + [f"a{k}.wrapping_mul(3) ^ {k}" for k in range(1, n)])
    B = f"sh.wrapping_add({last}).wrapping_add(mu)"
    lin = "a0 > 3 || a0 & 1 == 1"
    boom = f"if (sh ^ {last}) & 3 == 0 {{ std::panic::panic_any({B}); }}"

    def after(v):
        return " ".join(f"*{cp}{i} = {cp}{i}.wrapping_mul(31).wrapping_add({v}).wrapping_add({10 + i});" for i in muts)

    if not sh.ret:
        if form in ("opt", "res"):
            raise ValueError("exit forms opt/res need a return type")
        b0, b1, b2 = "tr(-1);", f"{rec1}; {after('a0')}", f"{rec1}; {after('a0 + 1')} {rec2};"
        if form == "ret":
            L += [f"if a0 <= 0 {{ {b0} return; }}", f"if {lin} {{ {b1} return; }}", b2]
        elif form == "tail":
            L += [f"if a0 <= 0 {{ {b0} }} else if {lin} {{ {b1} }} else {{ {b2} }}"]
        elif form == "unw":
            L += [f"if a0 <= 0 {{ {boom} {b0} }} else if {lin} {{ {b1} }} else {{ {b2} }}"]
        elif form == "brk":
            L += ["'fin: {", f"    if a0 <= 0 {{ {b0} break 'fin; }}", f"    if {lin} {{ {b1} loop {{ break 'fin; }} }}", "    " + b2, "}"]
        elif form == "lop":
            L += ["let mut pass = 0;", "loop {", "    pass += 1;", "    if pass == 1 { continue; }", f"    if a0 <= 0 {{ {b0} break; }}",
                  f"    if {lin} {{ {b1} break; }}", "    " + b2, "    break;", "}"]
        else:
            raise ValueError(form)
        return L
    two = f"let x = {rec1}; let y = {rec2}; {after('(x ^ y)')}"
    v1, v2 = "x.wrapping_add(1)", "x.wrapping_mul(7).wrapping_add(y)"
    if form == "ret":
        L += [f"if a0 <= 0 {{ return {B}; }}", f"if {lin} {{ let x = {rec1}; {after('x')} return {v1}; }}", two, v2]
    elif form == "tail":
        L += [f"if a0 <= 0 {{ {B} }} else if {lin} {{ let x = {rec1}; {after('x')} {v1} }} else {{ {two} {v2} }}"]
    elif form == "unw":
        L += [f"if a0 <= 0 {{ {boom} {B} }} else if {lin} {{ let x = {rec1}; {after('x')} {v1} }} else {{ {two} {v2} }}"]
    elif form == "brk":
        L += ["let r: i64 = 'fin: {", f"    if a0 <= 0 {{ break 'fin {B}; }}",
              f"    if {lin} {{ let x = {rec1}; {after('x')} loop {{ break 'fin {v1}; }} }}", "    " + two, "    " + v2, "};", "r"]
    elif form == "lop":
        L += ["let mut pass = 0;", "let r: i64 = loop {", "    pass += 1;", "    if pass == 1 { continue; }", f"    if a0 <= 0 {{ break {B}; }}",
              f"    if {lin} {{ let x = {rec1}; {after('x')} break {v1}; }}", "    " + two, f"    break {v2};", "};", "r"]
    elif form == "opt":
        L += ["let q: i64 = pos(a0)?;",
              f"if {lin} {{ let x = {rec1}.unwrap_or({B}); {after('x')} let z = pos(x & 3)?; Some(x.wrapping_add(z)) }}",
              f"else {{ let x = {rec1}.unwrap_or({B}); let y = {rec2}.unwrap_or(q); {after('(x ^ y)')} Some({v2}) }}"]
    elif form == "res":
        L += ["let q: i64 = posr(a0)?;",
              f"if {lin} {{ let x = {rec1}.unwrap_or_else(|e| {B}.wrapping_add(e)); {after('x')} let z = posr(x & 3)?; Ok(x.wrapping_add(z)) }}",
              f"else {{ let x = {rec1}.unwrap_or_else(|e| {B}.wrapping_add(e)); let y = {rec2}.unwrap_or(q); {after('(x ^ y)')} Ok({v2}) }}"]
    else:
        raise ValueError(form)
    return L


def soak_args(nargs, e="j"):
    """actual arguments of outer call number `e` (an i64 expression): a0 in 0..3, the others small and of both signs"""
    return [f"{e} & 3", f"({e} % 7) - 3", f"({e} % 5) * 2 - 4", f"({e} & 15) - 8"][:nargs]


def _soak_val(sh, form, r):
    if not sh.ret:
        return "0"
    return {"opt": f"{r}.unwrap_or(-7)", "res": f"{r}.unwrap_or_else(|e| e ^ 85)"}.get(form, r)


def gen_soak_pair(sh, seed=1):
    """Source text of g_<sid>_4 and e_<sid>_4 for a long-running instance."""
    kind, form0, n = sh.soak
    if kind not in SOAK_KINDS or form0 not in SOAK_FORMS or sh.hyg or sh.nest is not None or sh.live2 is not None or sh.env is not None:
        raise ValueError("bad long-running instance: " + sh.case(SOAK_T, seed))
    forms = soak_forms(sh)
    nl = len(forms)
    caps = list(enumerate(sh.caps))
    has_mut = bool(sh.muts())
    prefixes = ["c", "d", "e"][:nl]
    names = ([sh.nm] if nl == 1 else [sh.nm, sh.nm, "gq"])          # two of the three closures use the SAME recursion name
    enames = ["go"] if nl == 1 else ["goa", "gob", "goc"]
    args_decl = ", ".join(f"a{k}: i64" for k in range(sh.nargs))
    decl, final = [], []
    for j, cp in enumerate(prefixes):
        for i, m in caps:
            decl.append(f"        let {'mut ' if m else ''}{cp}{i}: i64 = {int(cap_init(0, i)) + 1000 * j};")
            final.append(f'        out += &format!("{cp}{i}={{:?}};", {cp}{i});')

    def driver(fn_call):
        """fn_call(closure number, copy?, actual arguments) -> expression"""
        L = []

        def one(j, copy, actual):
            c = fn_call(j, copy, actual)
            if forms[j] == "unw":        # the caller catches the unwinding and goes on using the closure
                ok = _soak_val(sh, forms[j], "v") if sh.ret else "{ let _u: () = v; 0 }"
                return (f"match std::panic::catch_unwind(std::panic::AssertUnwindSafe(|| {c})) "
                        f"{{ Ok(v) => {ok}, Err(p) => p.downcast_ref::<i64>().copied().unwrap_or(-99) ^ 1 }}")
            return _soak_val(sh, forms[j], c) if sh.ret else f"{{ {c}; 0 }}"

        if kind == "deep":
            for ci, d in enumerate([n, 2, n // 2 + 1]):
                L.append(f"PROG.store({ci}, Ordering::Relaxed);")
                L.append(f"let v: i64 = {one(0, ci == 1, ([str(d), '1', '-2', '3'])[:sh.nargs])};")
                L.append('out += &format!("{:?};", v);')
            return L
        L += ["let mut acc: i64 = 0;", "let mut ck = String::new();", "let mut next: u64 = 1;", "let mut i: u64 = 0;", f"while i < {n} {{",
              "    PROG.store(i, Ordering::Relaxed);", "    let j = i as i64;"]
        if nl == 1:
            if has_mut:
                L.append(f"    let v: i64 = {one(0, False, soak_args(sh.nargs))};")
            else:
                L.append(f"    let v: i64 = if i & 1 == 0 {{ {one(0, False, soak_args(sh.nargs))} }} else {{ {one(0, True, soak_args(sh.nargs))} }};")
        else:
            L.append("    let v: i64 = match i % 3 {")
            for j in range(3):
                L.append(f"        {j if j < 2 else '_'} => {one(j, False, soak_args(sh.nargs, '(j / 3)'))},")
            L.append("    };")
        L += ["    acc = acc.wrapping_mul(1000003).wrapping_add(v);", "    i += 1;",
              '    if i == next { ck += &format!("{}:{};", next, acc); next *= 2; }', "}",
              "out += &ck;", 'out += &format!("acc={};", acc);']
        return L

    head = lambda k: [f"pub fn {k}_{sh.sid}_{SOAK_T}() -> String {{", "    on_big_stack(|| {", "        let mut out = String::new();",   # noqa: E731
                      "        tr_reset();"] + decl
    tail = ['        out += &format!("t={}", tr_get());', "        out", "    })", "}"]
    # ---- generated version
    g = head("g") + ["        {"]
    for j, cp in enumerate(prefixes):
        cap_list = ", ".join(f"{cp}{i}: &{'mut ' if m else ''}i64" for i, m in caps)
        ret = f" -> {soak_ret_ty(sh, forms[j])}" if sh.ret else ""
        nm = names[j]
        g_call = lambda ex, nm=nm: f"{nm}!(" + ", ".join(ex) + ("," if sh.tc else "") + ")"   # noqa: E731
        g.append(f"            let {'mut ' if has_mut else ''}f{j} = rec_lambda!({nm}, |{cap_list}| {{")
        g.append(f"                |{args_decl}|{ret} {{")
        g += ["                    " + x for x in soak_body(sh, forms[j], g_call, cp)]
        g += ["                }", "            });"]
        if not has_mut:
            g.append(f"            let f{j}c = f{j};")
    g += ["            " + x for x in driver(lambda j, copy, actual: (f"(&f{j}c)" if copy and not has_mut else f"(&mut f{j})" if copy else f"f{j}")
                                         + "(" + ", ".join(actual) + ")")]
    g += ["        }"] + final + tail
    # ---- explicit version: captures passed in DECLARED order
    e = head("e")
    for j, cp in enumerate(prefixes):
        params = ", ".join([f"a{k}: i64" for k in range(sh.nargs)] + [f"{cp}{i}: &{'mut ' if m else ''}i64" for i, m in caps])
        ret = f" -> {soak_ret_ty(sh, forms[j])}" if sh.ret else ""
        en = enames[j]
        e_call = lambda ex, en=en, cp=cp: f"{en}(" + ", ".join(list(ex) + [f"{cp}{i}" for i, _ in caps]) + ")"   # noqa: E731
        e.append(f"        fn {en}({params}){ret} {{")
        e += ["            " + x for x in soak_body(sh, forms[j], e_call, cp)]
        e.append("        }")
    e.append("        {")
    e += ["            " + x for x in driver(lambda j, copy, actual: f"{enames[j]}(" + ", ".join(
        list(actual) + [f"&{'mut ' if m else ''}{prefixes[j]}{i}" for i, m in caps]) + ")")]
    e += ["        }"] + final + tail
    return "\n".join(g), "\n".join(e)


def soak_instances(first_sid, tier):
    """[(Shape, SOAK_T)]: the long-running instances of a tier; shapes (captures, arguments, return type, call syntax) cycle."""
    thorough = tier == "thorough"
    n_many = (1 << 24) if thorough else (1 << 21) + (1 << 18)
    n_unw = 3400000 if thorough else 2000      # a panic costs ~17 us; 3.4M calls unwind through > 2^20 activations
    n_deep = 100000
    pats = [(), (True,), (False, True), (True, False), (False,), (True, True), (False, False, True), (True, False, True, False)]
    out = []
    k = [0]

    def add(kind, form, n, ret=None):
        i = k[0]
        if ret is None:
            ret = True if form in ("opt", "res") else i % 3 != 2
        out.append((Shape(pats[i % len(pats)], 1 + (i * 3 + 1) % 4, ret, i % 2 == 0, first_sid + i, soak=(kind, form, n)), SOAK_T))
        k[0] += 1

    for form in SOAK_FORMS:
        add("many", form, n_unw if form == "unw" else n_many)
    add("many", "ret", n_many, ret=False)                     # `return;` in a closure without return type
    for form in SOAK_FORMS:
        add("deep", form, n_deep)
    for form in ("ret", "brk"):
        add("multi", form, n_many)
    add("multi", "ret", n_many, ret=False)
    if thorough:
        for form in ("brk", "lop", "tail"):
            add("many", form, n_many, ret=False)
        for form in ("ret", "tail"):                          # deeper than 2^20 nested activations (1 GiB stack)
            add("deep", form, (1 << 20) + (1 << 17))
        for form in ("opt", "lop"):
            add("multi", form, n_many)
    return out


PRELUDE = """#![allow(unused, unused_mut, unused_parens, non_snake_case, non_camel_case_types, non_upper_case_globals, clippy::all)]
// GENERATED by /verif/tools/c20_gen.py — do not edit.
use rlib_lambda::rec_lambda;
use std::cell::Cell;
thread_local! { static TR: Cell<u64> = Cell::new(0); }
#[inline(never)]
fn tr(x: i64) { TR.with(|t| t.set((t.get() ^ (x as u64)).wrapping_mul(0x100000001b3).rotate_left(5))); }
fn tr_reset() { TR.with(|t| t.set(0xcbf29ce484222325)); }
fn tr_get() -> u64 { TR.with(|t| t.get()) }
fn bump(c: &mut i64) -> i64 { *c = c.wrapping_mul(3).wrapping_add(1); *c }
// names used by the name-resolution (hygiene) instances under their ordinary meaning
use std::cmp::min;
fn mix1(x: i64) -> i64 { x.wrapping_mul(x) % 7 + 1 }
type Acc = i64;
mod md { pub fn idv(x: i64) -> i64 { x ^ 5 } }
const LIM: i64 = 3;
static STAT: i64 = 2;
struct Wrap(i64);
// used by the long-running instances (tools/c20_gen.py gen_soak_pair)
use std::sync::atomic::{AtomicU64, Ordering};
static PROG: AtomicU64 = AtomicU64::new(0);
fn pos(x: i64) -> Option<i64> { if x > 0 { Some(x) } else { None } }
fn posr(x: i64) -> Result<i64, i64> { if x > 0 { Ok(x) } else { Err(x - 1) } }
/// runs `f` on a fresh thread with a 1 GiB stack; a panic that escapes is reported with the number of the outer call it happened in
fn on_big_stack(f: impl FnOnce() -> String + Send + 'static) -> String {
    PROG.store(0, Ordering::Relaxed);
    match std::thread::Builder::new().stack_size(1 << 30).spawn(f).expect("spawn").join() {
        Ok(s) => s,
        Err(p) => {
            let m = if let Some(s) = p.downcast_ref::<String>() { s.clone() } else if let Some(s) = p.downcast_ref::<&str>() { s.to_string() }
                    else { "(payload that is not a string)".to_string() };
            format!("panic at outer call #{}: {}", PROG.load(Ordering::Relaxed), m)
        }
    }
}
"""


# Definitions that shadow, inside one block, what an expansion might be tempted to refer to by a plain name: prelude types,
# constructors, functions and traits, the crates `std`/`core`/`alloc`/`rlib_lambda`, std macros, and the macros of rlib_lambda.
_HOSTILE_MACROS = ["vec", "format", "panic", "assert", "assert_eq", "assert_ne", "debug_assert", "debug_assert_eq", "unreachable",
                   "unimplemented", "todo", "println", "eprintln", "print", "write", "writeln", "matches", "stringify", "concat",
                   "line", "column", "file", "module_path", "dbg", "rec_lambda", "_rec_lambda_0_", "_rec_lambda_1_", "_rec_lambda_2_"]
HOSTILE_ITEMS = """struct Some; struct None; struct Ok; struct Err; struct Option; struct Result; struct Box; struct Vec; struct String;
struct Rc; struct Cell; struct RefCell; struct PhantomData;
fn drop(x: i64) -> i64 { x } fn swap(x: i64) -> i64 { x } fn take(x: i64) -> i64 { x } fn replace(x: i64) -> i64 { x }
trait Fn {} trait FnMut {} trait FnOnce {} trait Clone {} trait Copy {} trait Default {} trait Into {} trait From {} trait Iterator {}
trait IntoIterator {} trait Sized {} trait Send {} trait Sync {} trait Drop {} trait AsRef {} trait ToOwned {} trait ToString {}
mod std {} mod core {} mod alloc {} mod rlib_lambda {}
""" + "".join(f'macro_rules! {m} {{ ($($t:tt)*) => {{ compile_error!("`{m}!` is shadowed in this scope") }} }}\n' for m in _HOSTILE_MACROS)


RUNNER_MAIN_HEAD = """// GENERATED by /verif/tools/c20_gen.py
// usage: runner [from [to]] - runs the instances number from <= k < to;
// prints, per instance k:  `B e k sid t` / `E sid t <result>` / `B g k sid t` / `G sid t <result>`;
// the begin markers identify the instance that took the process down (stack overflow cannot be caught).
fn catch(f: impl FnOnce() -> String + std::panic::UnwindSafe) -> String {
    std::panic::catch_unwind(f).unwrap_or_else(|_| "panic".to_string())
}
fn one(k: &mut usize, from: usize, to: usize, id: (u32, u32), e: impl FnOnce() -> String + std::panic::UnwindSafe,
       g: impl FnOnce() -> String + std::panic::UnwindSafe) {
    if *k >= from && *k < to {
        println!("B e {} {} {}", *k, id.0, id.1);
        println!("E {} {} {}", id.0, id.1, catch(e));
        println!("B g {} {} {}", *k, id.0, id.1);
        println!("G {} {} {}", id.0, id.1, catch(g));
    }
    *k += 1;
}
fn main() {
    std::panic::set_hook(Box::new(|_| {}));
    let from: usize = std::env::args().nth(1).and_then(|s| s.parse().ok()).unwrap_or(0);
    let to: usize = std::env::args().nth(2).and_then(|s| s.parse().ok()).unwrap_or(usize::MAX);
    let mut k = 0usize;
"""


def write_if_changed(path, text):
    if os.path.exists(path) and open(path).read() == text:
        return
    os.makedirs(os.path.dirname(path), exist_ok=True)
    with open(path, "w") as f:
        f.write(text)


def write_workspace(root, repo, instances, nparts, seed=1):
    """instances: list of (Shape, template). Writes a cargo workspace with `nparts` library crates
    (so that rustc front ends run in parallel) and one binary printing `G sid t …` / `E sid t …` lines.
    Returns line maps: {part index: [(first_line, last_line, sid, t, 'g'|'e')]}."""
    lambda_path = os.path.join(os.path.abspath(repo), "rlib", "lambda")
    members = [f"part{p}" for p in range(nparts)] + ["runner"]
    write_if_changed(os.path.join(root, "Cargo.toml"),
                     "[workspace]\nresolver = \"2\"\nmembers = [" + ", ".join(f'"{m}"' for m in members) + "]\n\n"
                     "[profile.dev]\ndebug = false\nincremental = false\nopt-level = 0\noverflow-checks = true\n\n"
                     # `--release`: cargo's release profile as it is (debug-assertions and overflow-checks off, opt-level 3)
                     "[profile.release]\ndebug = false\nincremental = false\n")
    write_if_changed(os.path.join(root, ".cargo", "config.toml"), "[net]\noffline = true\n")
    linemaps = {}
    for p in range(nparts):
        mine = instances[p::nparts]
        src = PRELUDE
        lm = []
        names = []
        for sh, t in mine:
            g, e = gen_pair(sh, t, seed)
            for kind, text in (("g", g), ("e", e)):
                first = src.count("\n") + 1
                src += text + "\n\n"
                lm.append((first, src.count("\n") - 1, sh.sid, t, kind))
            names.append((sh.sid, t))
        src += f"pub const COUNT: usize = {len(names)};\n"
        src += "pub fn id(i: usize) -> (u32, u32) {\n    match i {\n"
        for i, (sid, t) in enumerate(names):
            src += f"        {i} => ({sid}, {t}),\n"
        src += "        _ => unreachable!(),\n    }\n}\n"
        for kind in ("g", "e"):
            src += f"pub fn run_{kind}(i: usize) -> String {{\n    match i {{\n"
            for i, (sid, t) in enumerate(names):
                src += f"        {i} => {kind}_{sid}_{t}(),\n"
            src += "        _ => unreachable!(),\n    }\n}\n"
        write_if_changed(os.path.join(root, f"part{p}", "src", "lib.rs"), src)
        write_if_changed(os.path.join(root, f"part{p}", "Cargo.toml"),
                         f"[package]\nname = \"part{p}\"\nversion = \"0.0.0\"\nedition = \"2021\"\n\n[lib]\ndoctest = false\n\n"
                         f"[dependencies]\nrlib_lambda = {{ path = \"{lambda_path}\" }}\n")
        linemaps[p] = lm
    deps = "".join(f"part{p} = {{ path = \"../part{p}\" }}\n" for p in range(nparts))
    write_if_changed(os.path.join(root, "runner", "Cargo.toml"),
                     "[package]\nname = \"runner\"\nversion = \"0.0.0\"\nedition = \"2021\"\n\n[dependencies]\n" + deps)
    main = RUNNER_MAIN_HEAD
    for p in range(nparts):
        main += f"    for i in 0..part{p}::COUNT {{ one(&mut k, from, to, part{p}::id(i), || part{p}::run_e(i), || part{p}::run_g(i)); }}\n"
    main += "}\n"
    write_if_changed(os.path.join(root, "runner", "src", "main.rs"), main)
    return linemaps


# ------------------------------------------------------------------------------------------------
# building, running, reading compiler diagnostics
# ------------------------------------------------------------------------------------------------

def run(cmd, cwd, timeout=3600):
    env = dict(os.environ)
    env["CARGO_NET_OFFLINE"] = "true"
    env.pop("RUSTFLAGS", None)
    return subprocess.run(cmd, cwd=cwd, env=env, timeout=timeout, stdout=subprocess.PIPE, stderr=subprocess.PIPE, text=True)


def cargo_build(root, jobs=4, release=False):
    """Returns (ok, errors) where errors = [(part index or None, line or None, rendered message, package name,
    touches_lambda)]; touches_lambda = the error is reported while compiling rlib_lambda itself or one of its spans
    (incl. the macro backtrace) lies in the rlib/lambda sources."""
    r = run(["cargo", "build", "--offline", "-j", str(jobs), "--message-format=json"] + (["--release"] if release else []), root)
    errs = []
    for line in r.stdout.split("\n"):
        if not line.startswith("{"):
            continue
        try:
            m = json.loads(line)
        except ValueError:
            continue
        if m.get("reason") != "compiler-message":
            continue
        msg = m["message"]
        if msg.get("level") not in ("error", "error: internal compiler error"):
            continue
        pkg = m.get("target", {}).get("name", "")
        part = int(pkg[4:]) if re.fullmatch(r"part\d+", pkg) else None
        lines = []
        in_lambda = pkg == "rlib_lambda"
        for sp in msg.get("spans", []):
            # walk out of macro expansions to the call site inside the generated file
            cur = sp
            found = False
            while cur is not None:
                fn = cur.get("file_name", "")
                if "rlib/lambda/" in fn.replace("\\", "/"):
                    in_lambda = True
                if not found and fn.endswith("src/lib.rs") and re.search(r"part\d+/src/lib\.rs$", fn):
                    lines.append((0 if sp.get("is_primary") else 1, cur["line_start"]))
                    found = True
                exp = cur.get("expansion")
                cur = exp["span"] if exp else None
        lines.sort()
        errs.append((part, lines[0][1] if lines else None, (msg.get("rendered") or msg.get("message") or "")[:1500], pkg, in_lambda))
    if r.returncode != 0 and not errs:
        errs.append((None, None, (r.stderr or "")[-1500:], "", False))
    return r.returncode == 0, errs


def locate(linemaps, part, line):
    if part is None or line is None:
        return None
    for first, last, sid, t, kind in linemaps.get(part, []):
        if first <= line <= last:
            return sid, t, kind
    return None


def run_runner(root, max_crashes=12, release=False, lo=0, hi=None, timeout=900):
    """Runs the generated binary (instances number lo <= k < hi); returns (problem or None, results) with
    results[(sid, t)] = {"G": …, "E": …}. An instance that takes the process down (stack overflow, abort, timeout) gets the
    result `crash(...)` and the run is resumed after it."""
    exe = os.path.join(root, "target", "release" if release else "debug", "runner")
    res = {}
    start, crashes = lo, 0
    while True:
        try:
            r = run([exe, str(start)] + ([str(hi)] if hi is not None else []), root, timeout=timeout)
            rc, out, err = r.returncode, r.stdout, r.stderr
        except subprocess.TimeoutExpired as e:
            rc, out, err = -999, (e.stdout or b"").decode() if isinstance(e.stdout, bytes) else (e.stdout or ""), "timeout"
        last = None
        for line in out.split("\n"):
            m = re.match(r"([GE]) (\d+) (\d+) (.*)$", line)
            if m:
                res.setdefault((int(m.group(2)), int(m.group(3))), {})[m.group(1)] = m.group(4)
                last = None
                continue
            m = re.match(r"B ([ge]) (\d+) (\d+) (\d+)$", line)
            if m:
                last = (m.group(1), int(m.group(2)), int(m.group(3)), int(m.group(4)))
        if rc == 0:
            return None, res
        if last is None:
            return f"runner exited rc={rc} outside any instance: {err[-400:]}", res
        kind, k, sid, t = last
        why = " ".join((err or "").split())[-160:]
        res.setdefault((sid, t), {})["G" if kind == "g" else "E"] = f"crash(rc={rc}: {why})"
        if kind == "e":
            return f"the explicit version of instance sid={sid} body={t} crashed: {why}", res
        crashes += 1
        if crashes >= max_crashes:
            return None, res      # the remaining instances are simply not compared
        start = k + 1


# ------------------------------------------------------------------------------------------------
# -Zunpretty=expanded: reading the wiring out of the real expansion
# ------------------------------------------------------------------------------------------------

def split_top(s):
    """Split at commas that are not nested in () [] {} <>."""
    out, depth, cur, i = [], 0, "", 0
    while i < len(s):
        ch = s[i]
        if ch in "([{<":
            depth += 1
        elif ch in ")]}":
            depth -= 1
        elif ch == ">" and not (i > 0 and s[i - 1] in "-="):
            depth -= 1
        if ch == "," and depth == 0:
            out.append(cur.strip())
            cur = ""
        else:
            cur += ch
        i += 1
    if cur.strip():
        out.append(cur.strip())
    return out


def balanced(s, start):
    """s[start] == '(' -> index of the matching ')'."""
    depth = 0
    for i in range(start, len(s)):
        if s[i] == "(":
            depth += 1
        elif s[i] == ")":
            depth -= 1
            if depth == 0:
                return i
    return -1


def expanded_source(root, part, toolchain="+nightly"):
    r = run(["cargo", toolchain, "rustc", "--offline", "-p", f"part{part}", "--lib", "--target-dir", os.path.join(root, f"target-expand-{part}"),
             "--", "-Zunpretty=expanded"], root)
    return r.returncode, r.stdout, r.stderr


def split_expanded(text):
    """{(kind, sid, t): text of fn <kind>_<sid>_<t>} for the generated functions of an expanded part."""
    ms = list(re.finditer(r"^(?:pub )?fn ([ge])_(\d+)_(\d+)\(\)", text, flags=re.M))
    out = {}
    for i, m in enumerate(ms):
        end = ms[i + 1].start() if i + 1 < len(ms) else len(text)
        out[(m.group(1), int(m.group(2)), int(m.group(3)))] = text[m.end():end]
    return out


def wiring_of_expansion(blocks, sid, t):
    """Extract from the expanded text of fn g_<sid>_<t> (blocks = split_expanded(text)) the wiring string in the
    Lean driver's format (without the steps/call part; `rec(%s)` left open), the distinct tails of the recursive
    calls found, and the argument count of every recursive call."""
    if isinstance(blocks, str):
        blocks = split_expanded(blocks)
    blk = blocks.get(("g", sid, t))
    if blk is None:
        return None, f"function g_{sid}_{t} not found in the expansion"
    # drop the (unexpanded) definition of the local macro; it is printed inside the inner fn
    blk = re.sub(r"macro_rules!\s*(?:r#)?\w+\s*\{.*?\n\s*\}\n", "\n", blk, count=1, flags=re.S) if "macro_rules!" in blk else blk
    # the inner fn is found structurally (the first fn item nested in g_<sid>_<t>), whatever the macro calls it
    d = re.search(r"\bfn\s+([A-Za-z_]\w*)\s*\(", blk)
    if not d:
        return None, "no inner fn in the expansion"
    inner = d.group(1)
    close = balanced(blk, d.end() - 1)
    params = split_top(re.sub(r"\s+", " ", blk[d.end():close]))
    rest = blk[close + 1:]
    rm = re.match(r"\s*->\s*(.*?)\s*\{", rest, flags=re.S)
    ret = re.sub(r"\s+", "", rm.group(1)) if rm else "()"
    plist = []
    for p in params:
        name, _, ty = p.partition(":")
        name, ty = name.strip(), ty.strip()
        if re.fullmatch(r"a\d+", name):
            plist.append(name)                      # one of the closure's own arguments (may itself be of reference type)
        elif re.match(r"&\s*mut\b", ty):
            plist.append("&mut " + name)
        elif ty.startswith("&"):
            plist.append("&" + name)
        else:
            plist.append(name)
    # every call of the inner fn after its definition: recursive calls (inside the fn) and the closure's call
    calls = []
    pos = close
    while True:
        c = re.search(r"\b" + re.escape(inner) + r"\s*\(", blk[pos:])
        if not c:
            break
        s0 = pos + c.end() - 1
        e0 = balanced(blk, s0)
        calls.append((s0, [re.sub(r"\s+", " ", a) for a in split_top(blk[s0 + 1:e0])]))
        pos = e0
    if not calls:
        return None, f"no call of the inner fn `{inner}` in the expansion"
    # the closure is the last call: `|a0: T, …| { _lambda_name_(a0, …, &c, &mut c) }`
    clo_pos, clo_args = calls[-1]
    before = blk[:clo_pos]
    bars = [x.start() for x in re.finditer(r"\|", before)]
    cparams = []
    if len(bars) >= 2:
        cparams = [p.partition(":")[0].strip() for p in split_top(re.sub(r"\s+", " ", before[bars[-2] + 1: bars[-1]]))]
    ncap = sum(1 for p in plist if p.startswith("&"))
    # closure call: the leading run of plain argument names, then the rest (the borrowed captures) in the order written
    nargs = 0
    while nargs < len(clo_args) and re.fullmatch(r"a\d+", clo_args[nargs]):
        nargs += 1
    cargs = clo_args[:nargs]
    ctail = [re.sub(r"&\s*mut\s+", "&mut ", a).replace("& ", "&") for a in clo_args[nargs:]]
    rec_tails = sorted({",".join(a[len(a) - ncap:] if ncap else []) for _, a in calls[:-1]})
    wiring = f"fn({','.join(plist)})->{ret} rec(%s) clo({','.join(cparams)};{','.join(cargs)};{','.join(ctail)})"
    return (wiring, rec_tails, [len(a) for _, a in calls[:-1]], inner), None


def expansion_items(blocks, sid, t):
    """Items (keyword, name) the expanded text of fn g_<sid>_<t> declares, the local macro's definition aside. For a plain
    instance (the generator writes no item into g_*) these are the items the EXPANSION introduces into the user's block: the
    model says exactly one, the hidden fn - every further item with a fixed name can capture a like-named name of the user."""
    blk = blocks.get(("g", sid, t))
    if blk is None:
        return None
    blk = re.sub(r"macro_rules!\s*(?:r#)?\w+\s*\{.*?\n\s*\}\n", "\n", blk, flags=re.S)
    return [(m.group(1), m.group(2)) for m in re.finditer(
        r"^\s*(?:pub(?:\([a-z]+\))?\s+)?(?:unsafe\s+)?(fn|struct|enum|union|type|const|static|mod|trait|impl|use|extern)\b\s*([A-Za-z_]\w*)?", blk, flags=re.M)]


# ------------------------------------------------------------------------------------------------
# CLI: replay one shape
# ------------------------------------------------------------------------------------------------

def replay(case, repo, keep=False, out=sys.stdout):
    import tempfile
    import shutil
    sh, t, seed = parse_case(case)
    release = "profile=release" in case.split()
    ts = [t] if t is not None else ([SOAK_T] if sh.soak is not None else list(range(TEMPLATES)))
    root = tempfile.mkdtemp(prefix="c20-replay-")
    try:
        lm = write_workspace(root, repo, [(sh, x) for x in ts], 1, seed)
        ok, errs = cargo_build(root, release=release)
        print(f"shape: {case}\ncrate: {root}\nprofile: {'release' if release else 'debug'}\ncompiles: {ok}", file=out)
        for part, line, msg, _pkg, _il in errs:
            print(f"error at {locate(lm, part, line)}:\n{msg}", file=out)
        if ok:
            problem, res = run_runner(root, release=release)
            if problem:
                print("runner: " + problem, file=out)
            for (sid, x), d in sorted(res.items()):
                print(f"body={x} generated: {d.get('G')}\nbody={x} explicit : {d.get('E')}\nbody={x} equal: {d.get('G') == d.get('E')}", file=out)
        rc, text, err = expanded_source(root, 0) if sh.soak is None else (1, "", "")
        if rc == 0:
            for x in ts:
                print(f"body={x} expansion wiring: {wiring_of_expansion(text, sh.sid, x)}", file=out)
        drv = os.path.join(os.path.dirname(os.path.dirname(os.path.abspath(__file__))), "lean", ".lake", "build", "bin", "drv_lambda")
        if os.path.exists(drv):
            r = subprocess.run([drv], input=sh.descriptor(ts[0]) + "\n", stdout=subprocess.PIPE, text=True)
            print("model: " + r.stdout.strip(), file=out)
        return ok
    finally:
        if keep:
            print(f"kept {root}", file=out)
        else:
            shutil.rmtree(root, ignore_errors=True)


if __name__ == "__main__":
    import argparse
    ap = argparse.ArgumentParser()
    ap.add_argument("--replay", required=True, help="shape descriptor, e.g. 'c0:m,c1:s a0,a1 ret:i64 ntc body=0'")
    ap.add_argument("--repo", default="/repo")
    ap.add_argument("--keep", action="store_true")
    a = ap.parse_args()
    replay(a.replay, a.repo, a.keep)
