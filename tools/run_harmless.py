#!/usr/bin/env python3
"""
Behaviour-preserving refactorings (harmless/<name>/patch.diff + meta.json) must NOT turn a check red.

  tools/run_harmless.py --import Cxx /tmp/dir/h1 [checks…]   confirm (applies to HEAD, whole upstream suite green) and keep
  tools/run_harmless.py [name…]                              run the listed checks of each kept refactoring (scratch worktree)

Results: harmless/RESULTS.json. Expected verdict is exit 0; `no-failing-input-found` is tolerated by the task's rules
(a harmless rewrite may break the correspondence) but recorded; a VIOLATION with an input is a false alarm to repair.
"""
import json, os, shutil, subprocess, sys, time
VERIF = os.path.dirname(os.path.dirname(os.path.abspath(__file__)))
HD = os.path.join(VERIF, "harmless")


def sh(cmd, cwd=None, timeout=7200):
    return subprocess.run(cmd, cwd=cwd, shell=True, stdout=subprocess.PIPE, stderr=subprocess.STDOUT, text=True, timeout=timeout)


def fresh_wt(path):
    sh(f"git -C /repo worktree remove --force {path}")
    sh(f"rm -rf {path}")
    r = sh(f"git -C /repo worktree add --detach {path} HEAD")
    assert r.returncode == 0, r.stdout


def do_import(pid, src, checks):
    k = os.path.basename(src.rstrip("/"))
    name = f"{pid}_{k}"
    wt = os.environ.get("HARM_WT", "/tmp/harm_wt")
    fresh_wt(wt)
    try:
        r = sh(f"git apply {src}/patch.diff", cwd=wt)
        if r.returncode != 0:
            print(f"{name}: patch does not apply: {r.stdout[-300:]}")
            return 1
        r = sh("cargo test --workspace --no-fail-fast --offline", cwd=wt)
        if r.returncode != 0:
            print(f"{name}: upstream suite fails with the patch")
            print("\n".join(l for l in r.stdout.split("\n") if "FAILED" in l or "error" in l)[:1500])
            return 1
    finally:
        sh(f"git -C /repo worktree remove --force {wt}")
    out = os.path.join(HD, name)
    os.makedirs(out, exist_ok=True)
    for fn in ("patch.diff", "notes.md"):
        if os.path.exists(os.path.join(src, fn)):
            shutil.copy(os.path.join(src, fn), os.path.join(out, fn))
    notes = open(os.path.join(out, "notes.md")).read() if os.path.exists(os.path.join(out, "notes.md")) else ""
    meta = {"name": name, "property": pid, "checks": checks or [pid], "kind": "behaviour-preserving refactoring",
            "summary": notes.strip().split("\n\n")[0][:600],
            "confirmed_by_coordinator": {"repo_head": sh("git -C /repo rev-parse HEAD").stdout.strip(), "patch_applies": True,
                                         "existing_suite_passes_with_patch": True}}
    json.dump(meta, open(os.path.join(out, "meta.json"), "w"), indent=1)
    print(f"{name}: kept")
    return 0


def run(names):
    res_path = os.path.join(HD, "RESULTS.json")
    results = json.load(open(res_path)) if os.path.exists(res_path) else {}
    for name in names:
        d = os.path.join(HD, name)
        meta = json.load(open(os.path.join(d, "meta.json")))
        wt = f"/tmp/harmrun_{name}"
        fresh_wt(wt)
        try:
            r = sh(["git apply " + os.path.join(d, "patch.diff")][0], cwd=wt)
            if r.returncode != 0:
                results[name] = {"status": "patch-does-not-apply"}
                print(f"{name}: patch does not apply")
                continue
            out = {}
            for pid in meta["checks"]:
                t0 = time.time()
                r = sh(f"{VERIF}/check {pid} --tier quick --repo {wt}", cwd=VERIF)
                lines = [l for l in r.stdout.split("\n") if l.startswith(("VIOLATION", "KNOWN-FINDING", "MACHINERY", "INTERNAL", "SECOND-TIE"))]
                viol = [l for l in lines if l.startswith("VIOLATION")]
                if r.returncode == 0:
                    st = "green (second tie unavailable)" if any(l.startswith("SECOND-TIE-UNAVAILABLE") for l in lines) else "green"
                elif viol and all("no-failing-input-found" in l for l in viol):
                    st = "broken-correspondence (no-failing-input-found)"
                else:
                    st = "FALSE ALARM with input"
                detail = None
                for l in viol:
                    rp = l.split("replay=")[1].split()[0]
                    try:
                        detail = json.load(open(os.path.join(VERIF, rp)))
                    except Exception:
                        detail = rp
                out[pid] = {"status": st, "rc": r.returncode, "lines": [l[:300] for l in lines], "replay": detail, "wall_s": round(time.time() - t0, 1)}
                print(f"{name}: {pid} {st} ({out[pid]['wall_s']}s)")
            results[name] = out
            meta["runs"] = {pid: v["status"] for pid, v in out.items()}
            json.dump(meta, open(os.path.join(d, "meta.json"), "w"), indent=1)
        finally:
            sh(f"git -C /repo worktree remove --force {wt}")
            sh(f"rm -rf {wt}")
    json.dump(results, open(res_path, "w"), indent=1, sort_keys=True)


if __name__ == "__main__":
    if len(sys.argv) > 1 and sys.argv[1] == "--import":
        sys.exit(do_import(sys.argv[2], sys.argv[3], sys.argv[4:]))
    names = sys.argv[1:] or sorted(n for n in os.listdir(HD) if os.path.isdir(os.path.join(HD, n)))
    run(names)
