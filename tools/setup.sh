#!/bin/bash
# Build the whole framework offline from files on disk: Lean theorems + native drivers, Rust harnesses.
set -u
cd "$(dirname "$0")/.."
export CARGO_NET_OFFLINE=true
rc=0
exes=$(grep -A1 '^\[\[lean_exe\]\]' lean/lakefile.toml | grep '^name' | sed 's/name = "\(.*\)"/\1/')
(cd lean && lake build RlibModel Driver $exes) || rc=1
for d in harness/e_*/; do
  [ -f "$d/Cargo.toml" ] || continue
  (cd "$d" && cargo build --offline --release 2>&1 | tail -2) || rc=1
  if [ -f "$d/.build_debug_too" ]; then
    (cd "$d" && cargo build --offline 2>&1 | tail -2) || rc=1
  fi
done
exit $rc
