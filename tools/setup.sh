#!/bin/bash
# Build the whole framework offline from files on disk: the Lean theorem modules and native model drivers of every
# property that has a check definition (checks/Cxx.py), and the Rust harness crates they use.
set -u
set -o pipefail
cd "$(dirname "$0")/.."
export CARGO_NET_OFFLINE=true
rc=0
targets=$(python3 - <<'PY'
import glob, importlib.util, os
seen = []
ready = set(open("checks/READY").read().split()) if os.path.exists("checks/READY") else None
for p in sorted(glob.glob("checks/C*.py")):
    if ready is not None and os.path.basename(p)[:-3] not in ready:
        continue
    spec = importlib.util.spec_from_file_location("m", p); m = importlib.util.module_from_spec(spec); spec.loader.exec_module(m)
    for t in [getattr(m, "PROPS", None), getattr(m, "PROPS_SRC", None), getattr(m, "DRIVER", None)] + list(getattr(m, "EXTRA_LAKE_TARGETS", [])):
        if t and t not in seen:
            seen.append(t)
print(" ".join(seen))
PY
)
crates=$(python3 - <<'PY'
import glob, importlib.util, os
seen = {}
ready = set(open("checks/READY").read().split()) if os.path.exists("checks/READY") else None
for p in sorted(glob.glob("checks/C*.py")):
    if ready is not None and os.path.basename(p)[:-3] not in ready:
        continue
    spec = importlib.util.spec_from_file_location("m", p); m = importlib.util.module_from_spec(spec); spec.loader.exec_module(m)
    c = getattr(m, "CRATE", None)
    if c:
        seen.setdefault(c, set()).update(getattr(m, "PROFILES", ["release"]))
    for c2 in getattr(m, "EXTRA_CRATES", []):
        seen.setdefault(c2, set()).add("release")
for c, ps in sorted(seen.items()):
    print(c + ":" + ",".join(sorted(ps)))
PY
)
# Generated/*.lean must describe /repo before anything is compiled
python3 - <<'PY' || rc=1
import glob, importlib.util, os
ready = set(open("checks/READY").read().split()) if os.path.exists("checks/READY") else None
for p in sorted(glob.glob("checks/C*.py")):
    if ready is not None and os.path.basename(p)[:-3] not in ready:
        continue
    spec = importlib.util.spec_from_file_location("m", p); m = importlib.util.module_from_spec(spec); spec.loader.exec_module(m)
    if hasattr(m, "extract"):
        params, problems = m.extract("/repo")
        for q in problems:
            print(f"[setup] {os.path.basename(p)}: extraction problem: {q}")
PY
[ -n "$targets" ] || { echo "[setup] no lake targets found"; exit 1; }
echo "[setup] lake build $targets"
(cd lean && lake build $targets) || rc=1
for item in $crates; do
  c=${item%%:*}; ps=${item##*:}
  d=harness/$c
  [ -f "$d/Cargo.toml" ] || { echo "[setup] missing $d"; rc=1; continue; }
  for p in ${ps//,/ }; do
    echo "[setup] cargo build $c ($p)"
    if [ "$p" = "release" ]; then (cd "$d" && cargo build --offline --release 2>&1 | tail -2) || rc=1
    else (cd "$d" && cargo build --offline 2>&1 | tail -2) || rc=1; fi
  done
done
exit $rc
