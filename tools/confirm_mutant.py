#!/usr/bin/env python3
"""
Confirm a mutant delivered by a mutation sub-agent and, if confirmed, keep it under /verif/seeded/<id>_<k>/.

Confirmed means (all checked here, in a scratch worktree of /repo's HEAD, never in /repo itself):
  * the patch applies to the current HEAD,
  * the demonstration passes WITHOUT the patch and fails WITH it,
  * the whole existing suite (`cargo test --workspace --offline`) still passes WITH the patch.

usage: tools/confirm_mutant.py C05 /tmp/mut_C05_out/m1 [m1]
"""
import json
import os
import re
import shutil
import subprocess
import sys

VERIF = os.path.dirname(os.path.dirname(os.path.abspath(__file__)))
WT = os.environ.get("CONFIRM_WT", "/tmp/confirm_wt")


def sh(cmd, cwd=None, timeout=3600):
    return subprocess.run(cmd, cwd=cwd, shell=True, stdout=subprocess.PIPE, stderr=subprocess.STDOUT, text=True, timeout=timeout)


def main():
    pid, src = sys.argv[1], sys.argv[2].rstrip("/")
    k = sys.argv[3] if len(sys.argv) > 3 and not sys.argv[3].startswith("-") else os.path.basename(src)
    extra_flags = " ".join(a for a in sys.argv[3:] if a.startswith("-"))
    name = f"{pid}_{k}"
    head = sh("git -C /repo rev-parse HEAD").stdout.strip()
    if not os.path.isdir(WT):
        r = sh(f"git -C /repo worktree add --detach {WT} {head}")
        assert r.returncode == 0, r.stdout
    sh("git checkout -q -- . && git clean -fdq -e target", cwd=WT)
    sh(f"git checkout -q --detach {head}", cwd=WT)
    run_md = open(os.path.join(src, "RUN.md")).read()
    log = {"property": pid, "name": name, "repo_head": head}
    demo_src = None
    for fn in os.listdir(src):
        if fn.startswith("demo") and fn.endswith(".rs"):
            demo_src = os.path.join(src, fn)
    m = re.search(r"cp\s+\S*demo\S*\.rs\s+(rlib/(\w+)/tests/(\w+)\.rs)", run_md)
    if not (demo_src and m):
        print(f"{name}: cannot find demo placement in RUN.md; handle manually")
        print(run_md[:1500])
        sys.exit(3)
    dest, crate_dir, test_name = m.group(1), m.group(2), m.group(3)
    pkg = None
    for line in open(os.path.join(WT, "rlib", crate_dir, "Cargo.toml")):
        mm = re.match(r'name\s*=\s*"([^"]+)"', line)
        if mm:
            pkg = mm.group(1)
            break
    demo_cmd = f"cargo test -p {pkg} --offline --test {test_name} {extra_flags}".strip()
    shutil.copy(demo_src, os.path.join(WT, dest))
    r0 = sh(demo_cmd, cwd=WT)
    log["demo_without_patch_rc"] = r0.returncode
    r = sh(f"git apply {src}/patch.diff", cwd=WT)
    log["patch_applies"] = r.returncode == 0
    if r.returncode != 0:
        print(f"{name}: patch does not apply to HEAD: {r.stdout[-400:]}")
        sys.exit(1)
    r1 = sh(demo_cmd, cwd=WT, timeout=1800)
    log["demo_with_patch_rc"] = r1.returncode
    log["demo_with_patch_tail"] = r1.stdout[-1200:]
    os.remove(os.path.join(WT, dest))
    r2 = sh("cargo test --workspace --no-fail-fast --offline", cwd=WT, timeout=3600)
    log["suite_with_patch_rc"] = r2.returncode
    fails = [l for l in r2.stdout.split("\n") if "FAILED" in l or "failed" in l][:6]
    log["suite_with_patch_failures"] = fails
    sh("git checkout -q -- . && git clean -fdq -e target", cwd=WT)
    ok = r0.returncode == 0 and r1.returncode != 0 and r2.returncode == 0
    log["confirmed"] = ok
    print(json.dumps({k2: v for k2, v in log.items() if k2 != "demo_with_patch_tail"}, indent=1))
    if not ok:
        print(r1.stdout[-800:] if r1.returncode == 0 else "")
        sys.exit(1)
    out = os.path.join(VERIF, "seeded", name)
    os.makedirs(out, exist_ok=True)
    for fn in os.listdir(src):
        if os.path.isfile(os.path.join(src, fn)):
            if os.path.abspath(os.path.join(src, fn)) != os.path.abspath(os.path.join(out, fn)):
                shutil.copy(os.path.join(src, fn), os.path.join(out, fn))
    notes = open(os.path.join(src, "notes.md")).read() if os.path.exists(os.path.join(src, "notes.md")) else ""
    meta = {
        "property": pid,
        "name": name,
        "breaks": notes.strip().split("\n\n")[0][:1500],
        "needs_to_manifest": "see notes.md",
        "demo": {"copy_to": dest, "command": demo_cmd},
        "confirmed_by_coordinator": {
            "repo_head": head,
            "patch_applies": True,
            "demo_passes_without_patch": True,
            "demo_fails_with_patch": True,
            "existing_suite_passes_with_patch": "cargo test --workspace --no-fail-fast --offline -> rc 0",
        },
    }
    with open(os.path.join(out, "meta.json"), "w") as f:
        json.dump(meta, f, indent=1)
        f.write("\n")
    print(f"{name}: confirmed and kept in seeded/{name}")


if __name__ == "__main__":
    main()
