#!/usr/bin/env python3
"""
rs2lean_float — the translator of the second tie of C10: the `f64` formula code of `rlib/geometry/src/{point,line,circle,util}.rs`
into Lean 4 definitions over the abstract arithmetic record `Rlib.Geometry.Geo K` of `lean/RlibModel/Model/Geometry.lean`
(`lean/RlibModel/Generated/GeometrySrc.lean`).

    python3 tools/rs2lean_float.py --repo /repo --out lean/RlibModel/Generated/GeometrySrc.lean

Same discipline as tools/rs2lean.py and its siblings: tokenizer -> recursive-descent parser -> AST -> syntax-directed TYPED emitter, ONE
RULE PER CONSTRUCT, no optimisation, no re-association, no reordering; anything without a rule is an error `file:line: …` (a
translator-subset problem, never skipped silently).  Imported read-only from rs2lean.py: `tokenize` (through `Parser`), the `Parser`
helpers (`peek/at/next/eat/expect/ident/err/skip_braces`), `Node`, `TranslateError`, `KEYWORDS`, `write_if_changed`, `SUBSET`.  The
expression ladder is the usual one (`||` < `&&` < comparison < `+ -` < `* /` < unary `- ! & *` < postfix), re-typed here for floats.

Every Rust float EXPRESSION becomes the corresponding TERM over an abstract `G : Geo K`; the code is pure (no panics, no loops), so a
function is a plain Lean `def f {K : Type} (G : Geo K) (params) : R` — no `Except`, no fuel.  Both the generated text and the
hand-written model are terms over the same record, so `Lemmas/GeometrySrc.lean` proves them equal for EVERY `G` (IEEE doubles bit for
bit, and the reals).  A source change that re-associates or reorders float operations changes the term and breaks the proof even
when it is equivalent over the reals — intended.

TRANSLATION SCHEME
==================
Types
  T1  `f64`                               `K`
  T2  `bool`                              `Bool`
  T3  `struct S { pub f: T, … }`          the MODEL's structure `Rlib.Geometry.<S> K` (table `ADT` below: Point, Line, Circle).  The generated
                                          file contains `def S_mk (f… ) : S K := { f := f, … }` written from the SOURCE's field list: it elaborates
                                          only if the model's structure has exactly these fields with these types.  Struct literals and field
                                          accesses use the source's field names (a renamed field no longer elaborates: fields are public API).
  T4  `enum E { V, V(T, …), … }`          the MODEL's inductive (table `ADT`: PointPosition -> Position, CircleLineIntersection -> CL,
                                          CircleIntersection -> CC), variant `Name` -> constructor `name` (first letter lowered).  The generated
                                          file contains `def E_variants : E K → Nat` with one arm per SOURCE variant (payload arity and types as in
                                          the source): it elaborates only if these are exactly the constructors of the model's inductive.
  T5  `Option<T>`, `(T1, T2, …)`          `Option T'`, `(T1' × T2' × …)`
  T6  `&T`, `&'a T`, `&mut T`             `T'` — values are `Copy`; the reference survives in the STATIC type only (to pick the operator impl O1)
  T7  `Self`, `Self::Output`              the impl's type, its `type Output = …`
Items (all four files are read as ONE crate: struct / enum / function names are global; `use` lines are ignored)
  I1  `pub const EPS: f64 = …;`           the identifier `EPS` is `G.eps` (its VALUE is read by the anchored regex of checks/C10.py and handed to
                                          the driver; here only name and type are checked).  Any other constant: error when used.
  I2  `impl S { fn f(…) }`                `def S_f {K} (G : Geo K) (params…) : R`; `&self` / `self` is the first parameter.  `&mut self`: error.
  I3  `fn f(…)` at top level              `def f …` (private helpers included: the closure of the requested functions, callees first)
  I4  `impl Tr<Rhs> for S|&S { fn m(self, rhs: …) }`, Tr ∈ Add Sub Mul Div Neg     `def S_m_<s><r>`, s / r = `v` (by value) or `r` (by
                                          reference) for the receiver / the right operand: `impl Sub<&Point> for Point` is `Point_sub_vr`
  I5  `macro_rules! m { ($a:ident, …) => { items } }` + `m!(X, y);` at item level      expanded by token substitution (one rule, fragments
                                          `ident` / `ty` / `tt`, no repetitions) and parsed as items.  An invocation of a macro that is not
                                          defined in the file (`show_struct!`) is skipped and listed.
  I6  other impls (`From`, `Debug`, `Show`, `IntoIterator`), `#[…]` attributes, `type X = …;`      NOT translated (listed in `not_translated`);
                                          a function that is never requested or called is never parsed beyond its header.
Names
  N1  parameters `p0 p1 …`, locals `v0 v1 …` in order of binding.  Function, struct, field and variant names survive; renaming variables,
      comments and layout give byte-identical text.
Expressions
  E1  `x`, `e.f`, `e.0`                   the Lean name; `⟦e⟧.f`; `⟦e⟧.1` / `.2` …
  E2  float literal `n.0`, `n.`, `n.0f64`, `nf64` with an integral value      `(G.ofInt n)`;  `-n.0` (minus applied directly to a literal, n ≠ 0)
                                          `(G.ofInt (-n))`.  `-0.0` (not an `ofInt`), fractional / exponent literals: error.
  E3  `a + b`, `a - b`, `a * b`, `a / b` on `f64`; `-a`      `(G.add ⟦a⟧ ⟦b⟧)` … `(G.neg ⟦a⟧)` — association exactly as parsed by Rust's precedence
  E4  `a.sqrt()`, `a.abs()`, `a.max(b)`, `a.powi(2)`; `a.add(b)` `.sub` `.mul` `.div` `.neg()` on `f64`      `(G.sqrt ⟦a⟧)`, `(G.abs ⟦a⟧)`,
                                          `(G.max ⟦a⟧ ⟦b⟧)`, `(G.mul ⟦a⟧ ⟦a⟧)` (what LLVM emits for the constant exponent 2); `(G.add ⟦a⟧ ⟦b⟧)` …
                                          `min`, `powi(k ≠ 2)`, `powf`, `hypot`, `mul_add`, … : error (the record has no such operation)
  E5  `a < b`, `a > b`, `a != b`, `a == b` on `f64`      `(G.lt ⟦a⟧ ⟦b⟧)`, `(G.lt ⟦b⟧ ⟦a⟧)`, `(G.ne ⟦a⟧ ⟦b⟧)`, `(!(G.ne ⟦a⟧ ⟦b⟧))` — exact for IEEE (`==` is the
                                          negation of `!=`, `>` is `<` flipped).  `<=`, `>=`: error (NOT the negation of `>` / `<` on NaN, and the
                                          record has no `le`)
  E6  `!c`, `c && d`, `c || d`, `true`, `false`      `(!⟦c⟧)`, `(⟦c⟧ && ⟦d⟧)`, `(⟦c⟧ || ⟦d⟧)` on `Bool` (pure: short-circuiting is unobservable)
  E7  `EPS`                               `G.eps`
  E8  `S { f: e, … }`, `Self { f, … }`    `({ f := ⟦e⟧, … } : S K)`, fields in the order of the struct's declaration
  E9  `E::V`, `E::V(e, …)`, `Some(e)`, `None`, `(e1, e2)`      `(E'.v ⟦e⟧ …)`, `(some ⟦e⟧)`, `none`, `(⟦e1⟧, ⟦e2⟧)`
  E10 `f(e…)`, `S::f(e…)`, `Self::f(e…)`, `e.m(a…)`      `(f G ⟦e⟧…)`, `(S_f G ⟦e⟧…)`, `(S_m G ⟦e⟧ ⟦a⟧…)` — the method of the inherent impl of the static type of `e`
  E11 `a + b`, `a - b`, `a * k`, `a / k`, `-a` on a struct      O1: the `def` of I4 of the impl whose receiver / operand types are exactly the static
                                          types of `a`, `b` (by value or by reference); no such impl: error
  E12 `&e`, `&mut e`, `*e`, `(e)`, `e.clone()`      ⟦e⟧ (the static type records the reference)
  E13 `if c { A } else { B }` as a value (also in tail position, also `else if`)      `(if ⟦c⟧ then ⟦A⟧ else ⟦B⟧)`, blocks with their own `let`s
Statements
  S1  `let [mut] x [: T] = e;`            `let vN := ⟦e⟧` (an annotation must be the initialiser's type); `let (a, b) = e;` is
                                          `let vN := ⟦e⟧`, `a ↦ vN.1`, `b ↦ vN.2` (no `match`)
  S2  `x = e;`, `x op= e;`                `let vN := …`, x ↦ vN
  S3  `std::mem::swap(&mut x, &mut y);`   no code: the two environment entries are exchanged
  S4  `if c { A } [else { B }]` as a statement, NO `return` inside      φ-form: for the variables W assigned in A or B (in order of first
                                          assignment) `let vN := if ⟦c⟧ then (⟦A⟧; w) else (⟦B⟧; w)`, w ↦ vN; for several variables a tuple and its projections
  S5  `if c { A } [else { B }]` followed by `rest`, a `return` inside      `if ⟦c⟧ then ⟦A; rest⟧ else ⟦B; rest⟧` — the continuation is duplicated; a
                                          branch that ends in `return` drops it
  S6  `return e;` / tail expression       ⟦e⟧
Anything else — loops, `match`, closures, `as`, indexing, integer arithmetic, `&mut self`, macros in expressions, string literals,
generic functions (lifetime parameters are dropped), `<=` / `>=`, other `f64` methods — is an error with `file:line`.

TRUSTED: the rules above; that `f64`'s `+ - * / sqrt abs max < !=` are the operations the record is instantiated with (std / IEEE); that
`Copy` values can be read any number of times; `#[derive(Copy, Clone, PartialEq, Default, Debug)]` taken at face value.
"""
import json
import os
import re
import sys

sys.path.insert(0, os.path.dirname(os.path.abspath(__file__)))
from rs2lean import TranslateError, Parser, Node, KEYWORDS, Tok, write_if_changed, SUBSET  # noqa: E402,F401

F64, BOOL, UNIT, INT = ("f64",), ("bool",), ("unit",), ("int",)
OP_TRAITS = {"Add": "add", "Sub": "sub", "Mul": "mul", "Div": "div", "Neg": "neg"}
BINOP_TRAIT = {"+": "Add", "-": "Sub", "*": "Mul", "/": "Div"}
GEO_BIN = {"+": "add", "-": "sub", "*": "mul", "/": "div"}

# the model's algebraic data types a Rust struct / enum of the crate is read as (T3, T4)
ADT = {"Point": "Point", "Line": "Line", "Circle": "Circle",
       "PointPosition": "Position", "CircleLineIntersection": "CL", "CircleIntersection": "CC"}
MODEL_NS = "Rlib.Geometry"

FILES = ["rlib/geometry/src/point.rs", "rlib/geometry/src/line.rs", "rlib/geometry/src/circle.rs", "rlib/geometry/src/util.rs"]
WANTED = ["Point::new", "Point::slen", "Point::len", "Point::dp", "Point::cp",
          "Point::add:vv", "Point::add:vr", "Point::add:rr", "Point::add:rv",
          "Point::sub:vv", "Point::sub:vr", "Point::sub:rr", "Point::sub:rv", "Point::mul:vv", "Point::div:vv",
          "Line::new", "Line::between", "Line::dist", "Line::contains", "Line::ort",
          "Circle::new", "Circle::position",
          "dist", "parallel", "intersect_ll", "intersect_cl", "intersect_cc"]


def deref(t):
    while t[0] == "ref":
        t = t[1]
    return t


def show_type(t):
    if t[0] == "ref":
        return "&" + show_type(t[1])
    if t[0] == "adt":
        return t[1]
    if t[0] == "option":
        return f"Option<{show_type(t[1])}>"
    if t[0] == "tuple":
        return "(" + ", ".join(show_type(x) for x in t[1]) + ")"
    return t[0]


# ------------------------------------------------------------------------------------------------
# parser
# ------------------------------------------------------------------------------------------------

class FParser(Parser):
    def __init__(self, src, file):
        super().__init__(src, file, allow_strings=True)
        self.self_ty = None
        self.output_ty = None

    @classmethod
    def from_tokens(cls, toks, file):
        p = cls.__new__(cls)
        p.file, p.toks, p.i, p.tyvar, p.self_ty, p.output_ty = file, toks, 0, None, None, None
        return p

    def is_lifetime(self, k=0):
        t = self.peek(k)
        return t.kind == "str" and re.fullmatch(r"'[A-Za-z_][A-Za-z0-9_]*", t.val) is not None

    def skip_balanced(self, open_, close):
        o = self.expect(open_)
        depth = 1
        while depth:
            t = self.next()
            if t.kind == "eof":
                self.err(f"unbalanced `{open_}`", o)
            if t.kind == "punct" and t.val == open_:
                depth += 1
            elif t.kind == "punct" and t.val == close:
                depth -= 1

    def skip_lifetime_generics(self, what):
        """`<'a, 'b>` — lifetimes only; a type / const parameter is an error"""
        if self.at("<"):
            self.next()
            while not self.at(">"):
                if not self.is_lifetime():
                    self.err(f"generic {what} (type or const parameters) is outside the translated subset")
                self.next()
                self.eat(",")
            self.next()

    # -- types
    def parse_type(self):
        if self.at("&") or self.at("&&"):
            two = self.at("&&")
            self.next()
            if self.is_lifetime():
                self.next()
            self.eat("mut")
            t = ("ref", self.parse_type())
            return ("ref", t) if two else t
        if self.at("("):
            self.next()
            items = []
            while not self.at(")"):
                items.append(self.parse_type())
                if not self.eat(","):
                    break
            self.expect(")")
            if not items:
                return UNIT
            return items[0] if len(items) == 1 else ("tuple", tuple(items))
        t = self.next() if self.at("Self") else self.ident("type")
        name = t.val
        if name == "Self" and self.at("::"):
            self.next()
            a = self.ident("associated type")
            if a.val != "Output" or self.output_ty is None:
                self.err(f"associated type `Self::{a.val}` is outside the translated subset", a)
            return self.output_ty
        if self.at("::"):
            self.err("a path type (`a::B`) is outside the translated subset", t)
        if name == "Self":
            if self.self_ty is None:
                self.err("`Self` outside an impl", t)
            return self.self_ty
        if name == "f64":
            return F64
        if name == "bool":
            return BOOL
        if name == "Option":
            self.expect("<")
            inner = self.parse_type()
            self.expect(">")
            return ("option", inner)
        if self.at("<"):
            if self.is_lifetime(1):
                self.skip_lifetime_generics("arguments")
            else:
                self.err(f"generic type `{name}<…>` is outside the translated subset", t)
        if name in ("f32", "i8", "i16", "i32", "i64", "i128", "isize", "u8", "u16", "u32", "u64", "u128", "usize", "char", "str", "String"):
            self.err(f"type `{name}` has no rule (the float translator knows `f64`, `bool`, the crate's structs / enums, `Option`, tuples)", t)
        return ("adt", name)

    # -- items
    def parse_items(self, crate, in_macro=False):
        while self.peek().kind != "eof":
            t = self.peek()
            if self.at("#"):
                self.next()
                self.eat("!")
                self.skip_balanced("[", "]")
            elif self.at("use") or self.at("type") or (self.at("pub") and (self.at("use", 1) or self.at("type", 1) or self.at("mod", 1))) or self.at("mod"):
                kw = self.peek(1).val if self.at("pub") else t.val
                while not self.at(";"):
                    if self.peek().kind == "eof" or (self.at("{") and kw == "mod"):
                        self.err(f"`{kw}` item without `;` is outside the translated subset", t)
                    self.next()
                self.next()
                if kw == "type":
                    crate.skipped.append(f"{self.file}:{t.line}: type alias")
            elif self.at("const") or (self.at("pub") and self.at("const", 1)):
                self.eat("pub")
                self.next()
                name = self.ident("constant name")
                self.expect(":")
                ty = self.parse_type()
                self.expect("=")
                while not self.at(";"):
                    if self.peek().kind == "eof":
                        self.err("unterminated `const`", t)
                    self.next()
                self.next()
                crate.consts[name.val] = (ty, self.file, name.line)
            elif self.at("struct") or (self.at("pub") and self.at("struct", 1)):
                self.eat("pub")
                self.next()
                self.parse_struct(crate)
            elif self.at("enum") or (self.at("pub") and self.at("enum", 1)):
                self.eat("pub")
                self.next()
                self.parse_enum(crate)
            elif self.at("impl"):
                self.parse_impl(crate)
            elif self.at("fn") or (self.at("pub") and self.at("fn", 1)):
                fn = self.parse_fn_item(None)
                if fn.name in crate.free:
                    self.err(f"two functions named `{fn.name}` in the crate", t)
                crate.free[fn.name] = fn
            elif self.at("macro_rules") and self.at("!", 1):
                self.parse_macro_def(crate)
            elif t.kind == "ident" and self.at("!", 1):
                self.parse_macro_call(crate)
            else:
                self.err(f"top-level item starting with `{t.val}` is outside the translated subset")

    def parse_struct(self, crate):
        name = self.ident("struct name")
        start = self.i
        try:
            self.skip_lifetime_generics("struct")
            self.expect("{")
            fields = []
            while not self.at("}"):
                while self.at("#"):
                    self.next()
                    self.skip_balanced("[", "]")
                self.eat("pub")
                if self.at("("):
                    self.skip_balanced("(", ")")
                f = self.ident("field name")
                self.expect(":")
                fields.append((f.val, self.parse_type()))
                if not self.eat(","):
                    break
            self.expect("}")
            crate.structs[name.val] = fields
        except TranslateError as e:
            # a struct outside the subset is an error only if a translated function uses it
            crate.bad_adts[name.val] = e
            self.i = start
            while not (self.at("{") or self.at(";") or self.at("(")):
                self.next()
            if self.at("{"):
                self.skip_braces()
            elif self.at("("):
                self.skip_balanced("(", ")")
                self.eat(";")
            else:
                self.next()
        crate.adt_line[name.val] = (self.file, name.line)

    def parse_enum(self, crate):
        name = self.ident("enum name")
        self.skip_lifetime_generics("enum")
        self.expect("{")
        variants = []
        while not self.at("}"):
            while self.at("#"):
                self.next()
                self.skip_balanced("[", "]")
            v = self.ident("variant name")
            payload = []
            if self.at("("):
                self.next()
                while not self.at(")"):
                    payload.append(self.parse_type())
                    if not self.eat(","):
                        break
                self.expect(")")
            elif self.at("{") or self.at("="):
                self.err("struct-like variants / explicit discriminants are outside the translated subset", v)
            variants.append((v.val, payload))
            if not self.eat(","):
                break
        self.expect("}")
        crate.enums[name.val] = variants
        crate.adt_line[name.val] = (self.file, name.line)

    def parse_impl(self, crate):
        kw = self.expect("impl")
        start = self.i
        try:
            self.skip_lifetime_generics("impl")
            trait, trait_arg = None, None
            first = self.parse_impl_type()
            if self.eat("for"):
                trait, trait_arg = first
                if trait_arg == "other":
                    self.err("trait arguments outside the subset", kw)
                self_ty = self.parse_type()
            else:
                if first[1] is not None or not isinstance(first[0], str):
                    self.err("impl header outside the subset", kw)
                self_ty = ("adt", first[0]) if first[0] not in ("f64", "bool") else (first[0],)
            if self.at("where"):
                self.err("`where` clauses are outside the translated subset")
            if trait is not None and trait not in OP_TRAITS:
                raise TranslateError(self.file, kw.line, f"impl of trait `{trait}` is not translated")
            base = deref(self_ty)
            if base[0] != "adt":
                self.err(f"impl for `{show_type(self_ty)}` is outside the translated subset", kw)
        except TranslateError as e:
            self.i = start
            text = []
            while not self.at("{"):
                if self.peek().kind == "eof":
                    raise e
                text.append(self.next().val)
            crate.skipped.append(f"{self.file}:{kw.line}: impl {' '.join(text)}".replace(" :: ", "::").replace(" < ", "<").replace(" >", ">"))
            self.skip_braces()
            return
        self.expect("{")
        self.self_ty, self.output_ty = (base if trait is None else self_ty), None
        fns = []
        while not self.at("}"):
            t = self.peek()
            if self.at("#"):
                self.next()
                self.skip_balanced("[", "]")
            elif self.at("type"):
                self.next()
                a = self.ident("associated type")
                self.expect("=")
                ty = self.parse_type()
                self.expect(";")
                if a.val == "Output":
                    self.output_ty = ty
            elif self.at("const") or (self.at("pub") and self.at("const", 1)):
                self.err("associated constants are outside the translated subset")
            elif self.at("fn") or (self.at("pub") and self.at("fn", 1)):
                fns.append(self.parse_fn_item(base[1]))
            else:
                self.err(f"impl item starting with `{t.val}` is outside the translated subset")
        self.expect("}")
        st, ot = self.self_ty, self.output_ty
        self.self_ty = self.output_ty = None
        for fn in fns:
            fn.self_ty, fn.output_ty = st, ot
            if trait is None:
                key = (base[1], fn.name)
                if key in crate.methods:
                    raise TranslateError(self.file, fn.line, f"two functions `{base[1]}::{fn.name}`")
                crate.methods[key] = fn
            else:
                if fn.name != OP_TRAITS[trait]:
                    raise TranslateError(self.file, fn.line, f"`{fn.name}` in an impl of `{trait}`")
                rhs = trait_arg if trait_arg is not None else self_ty       # `impl Add for X` = `Add<X> for X`
                if trait == "Neg":
                    rhs = None
                sk = "r" if self_ty[0] == "ref" else "v"
                rk = "" if rhs is None else ("r" if rhs[0] == "ref" else "v")
                fn.op = (trait, self_ty, rhs)
                fn.lean_name = f"{base[1]}_{fn.name}_{sk}{rk}"
                key = (trait, self_ty, rhs)
                if key in crate.ops:
                    raise TranslateError(self.file, fn.line, f"two impls of `{trait}` for the same operand types")
                crate.ops[key] = fn

    def parse_impl_type(self):
        """the path after `impl`: -> (name, generic argument type | None | "other")"""
        if self.at("&"):
            return (self.parse_type(), None)
        name = self.ident("trait or type name").val
        while self.at("::"):
            self.next()
            name = self.ident("path segment").val
        arg = None
        if self.at("<"):
            if self.is_lifetime(1):
                self.skip_lifetime_generics("arguments")
            else:
                save = self.i
                self.next()
                try:
                    arg = self.parse_type()
                    self.expect(">")
                except TranslateError:
                    self.i = save
                    depth = 0
                    while True:
                        t = self.next()
                        if t.val == "<":
                            depth += 1
                        elif t.val == ">":
                            depth -= 1
                            if depth == 0:
                                break
                        elif t.kind == "eof":
                            self.err("unbalanced `<`")
                    arg = "other"
        return (name, arg)

    def parse_fn_item(self, owner):
        self.eat("pub")
        kw = self.expect("fn")
        name = self.ident("function name").val
        fn = Node("fn", kw.line, name=name, owner=owner, header_error=None, params=[], self_kind=None, ret=UNIT, parser=self,
                  body_start=None, op=None, lean_name=None, self_ty=self.self_ty, output_ty=self.output_ty, file=self.file)
        save = self.i
        try:
            self.skip_lifetime_generics(f"function `{name}<…>`")
            self.expect("(")
            while not self.at(")"):
                if self.at("&") and (self.at("self", 1) or (self.is_lifetime(1) and self.at("self", 2))):
                    self.next()
                    if self.is_lifetime():
                        self.next()
                    self.next()
                    fn.self_kind = "ref"
                elif self.at("&") and self.at("mut", 1) and self.at("self", 2):
                    self.err(f"`&mut self` (function `{name}`) is outside the translated subset")
                elif self.at("self") or (self.at("mut") and self.at("self", 1)):
                    self.eat("mut")
                    self.next()
                    fn.self_kind = "val"
                else:
                    mut = bool(self.eat("mut"))
                    p = self.ident("parameter name")
                    self.expect(":")
                    fn.params.append((p.val, self.parse_type(), mut))
                if not self.eat(","):
                    break
            self.expect(")")
            if self.eat("->"):
                fn.ret = self.parse_type()
            if self.at("where"):
                self.err("`where` clauses are outside the translated subset")
        except TranslateError as e:
            fn.header_error = e
            self.i = save
            while not self.at("{"):
                if self.peek().kind == "eof" or self.at(";"):
                    raise e
                self.next()
        if not self.at("{"):
            self.err(f"expected `{{`, found `{self.peek().val}`")
        fn.body_start = self.i
        self.skip_braces()
        return fn

    # -- macros (I5)
    def parse_macro_def(self, crate):
        kw = self.next()
        self.next()
        name = self.ident("macro name").val
        self.expect("{")
        self.expect("(")
        params = []
        while not self.at(")"):
            self.expect("$")
            if self.at("("):
                self.err(f"macro repetitions (`{name}!`) are outside the translated subset")
            if self.peek().kind != "ident":
                self.err("expected macro parameter")
            p = self.next().val
            self.expect(":")
            frag = self.ident("fragment specifier").val
            if frag not in ("ident", "ty", "tt"):
                self.err(f"macro fragment `:{frag}` is outside the translated subset")
            params.append(p)
            if not self.eat(","):
                break
        self.expect(")")
        self.expect("=>")
        b0 = self.i + 1
        self.skip_braces()
        body = self.toks[b0:self.i - 1]
        self.eat(";")
        if not self.at("}"):
            self.err(f"macro `{name}!` with several rules is outside the translated subset")
        self.next()
        crate.macros[name] = (params, body, kw.line)

    def parse_macro_call(self, crate):
        name = self.next()
        self.next()
        o = self.peek()
        close = {"(": ")", "[": "]", "{": "}"}.get(o.val)
        if close is None:
            self.err("malformed macro invocation")
        a0 = self.i + 1
        self.skip_balanced(o.val, close)
        args_toks = self.toks[a0:self.i - 1]
        self.eat(";")
        if name.val not in crate.macros:
            crate.skipped.append(f"{self.file}:{name.line}: invocation of the external macro `{name.val}!`")
            return
        params, body, _ = crate.macros[name.val]
        args, cur, depth = [], [], 0
        for t in args_toks:
            if t.kind == "punct" and t.val in "([{":
                depth += 1
            elif t.kind == "punct" and t.val in ")]}":
                depth -= 1
            if t.kind == "punct" and t.val == "," and depth == 0:
                args.append(cur)
                cur = []
            else:
                cur.append(t)
        if cur:
            args.append(cur)
        if len(args) != len(params):
            self.err(f"`{name.val}!` invoked with {len(args)} arguments, its rule has {len(params)}", name)
        sub = dict(zip(params, args))
        out, k = [], 0
        while k < len(body):
            t = body[k]
            if t.kind == "punct" and t.val == "$" and k + 1 < len(body) and body[k + 1].kind == "ident":
                if body[k + 1].val not in sub:
                    self.err(f"unknown macro variable `${body[k + 1].val}`", t)
                out.extend(Tok(x.kind, x.val, t.line, x.pos) for x in sub[body[k + 1].val])
                k += 2
            else:
                out.append(t)
                k += 1
        out.append(Tok("eof", "", name.line, 0))
        FParser.from_tokens(out, self.file).parse_items(crate, in_macro=True)

    # -- function bodies -----------------------------------------------------------------------------
    def parse_block(self):
        """`{ stmt* [tail] }` -> Node block(stmts, tail)"""
        o = self.expect("{")
        stmts, tail = [], None
        while not self.at("}"):
            t = self.peek()
            if t.kind == "eof":
                self.err("unbalanced `{`", o)
            if self.at(";"):
                self.next()
                continue
            if self.at("let"):
                self.next()
                mut = bool(self.eat("mut"))
                if self.at("("):
                    self.next()
                    names = []
                    while not self.at(")"):
                        m2 = bool(self.eat("mut"))
                        names.append((self.ident("pattern variable").val, m2))
                        if not self.eat(","):
                            break
                    self.expect(")")
                    pat = ("tuple", names)
                else:
                    pat = ("var", self.ident("variable name").val, mut)
                ann = None
                if self.eat(":"):
                    ann = self.parse_type()
                if not self.eat("="):
                    self.err("`let` without an initialiser is outside the translated subset", t)
                e = self.parse_expr()
                if self.at("else"):
                    self.err("`let … else` is outside the translated subset")
                self.expect(";")
                stmts.append(Node("let", t.line, pat=pat, ann=ann, expr=e))
            elif self.at("return"):
                self.next()
                e = None if self.at(";") else self.parse_expr()
                if e is None:
                    self.err("`return;` without a value is outside the translated subset", t)
                self.eat(";")
                stmts.append(Node("return", t.line, expr=e))
            elif self.at("while") or self.at("for") or self.at("loop") or self.at("match") or self.at("break") or self.at("continue") or self.at("unsafe"):
                self.err(f"`{t.val}` is outside the translated subset")
            elif self.at("if"):
                e = self.parse_if()
                if self.at("}"):
                    tail = e
                else:
                    self.eat(";")
                    stmts.append(Node("ifstmt", t.line, expr=e))
            else:
                e = self.parse_expr()
                if self.at("=") or (self.peek().kind == "punct" and self.peek().val in ("+=", "-=", "*=", "/=")):
                    op = self.next().val
                    rhs = self.parse_expr()
                    if not self.at("}"):
                        self.expect(";")
                    stmts.append(Node("assign", t.line, place=e, op=op, expr=rhs))
                elif self.eat(";"):
                    stmts.append(Node("exprstmt", t.line, expr=e))
                elif self.at("}"):
                    tail = e
                else:
                    self.err(f"expected `;` or `}}`, found `{self.peek().val}`")
        self.expect("}")
        return Node("block", o.line, stmts=stmts, tail=tail)

    def parse_if(self):
        kw = self.expect("if")
        if self.at("let"):
            self.err("`if let` is outside the translated subset")
        c = self.parse_expr(no_struct=True)
        a = self.parse_block()
        b = None
        if self.eat("else"):
            b = Node("block", self.peek().line, stmts=[], tail=self.parse_if()) if self.at("if") else self.parse_block()
        return Node("if", kw.line, cond=c, then=a, els=b)

    def parse_expr(self, no_struct=False):
        self.no_struct = getattr(self, "no_struct", False)
        save, self.no_struct = self.no_struct, no_struct
        try:
            return self.parse_or()
        finally:
            self.no_struct = save

    def parse_or(self):
        l = self.parse_and()
        while self.at("||"):
            t = self.next()
            l = Node("binary", t.line, op="||", l=l, r=self.parse_and())
        return l

    def parse_and(self):
        l = self.parse_cmp()
        while self.at("&&"):
            t = self.next()
            l = Node("binary", t.line, op="&&", l=l, r=self.parse_cmp())
        return l

    def parse_cmp(self):
        l = self.parse_add()
        t = self.peek()
        if t.kind == "punct" and t.val in ("==", "!=", "<", ">", "<=", ">="):
            if t.val in ("<", ">") and self.peek(1).kind == "punct" and self.peek(1).val == t.val and self.peek(1).pos == t.pos + 1:
                self.err("shifts are outside the translated subset")
            self.next()
            r = self.parse_add()
            n = self.peek()
            if n.kind == "punct" and n.val in ("==", "!=", "<", ">", "<=", ">="):
                self.err("chained comparison")
            return Node("binary", t.line, op=t.val, l=l, r=r)
        if t.kind == "punct" and t.val in ("|", "^", "..", "..=", "%", "?"):
            self.err(f"`{t.val}` is outside the translated subset")
        if t.kind == "ident" and t.val == "as":
            self.err("`as` casts are outside the translated subset")
        return l

    def parse_add(self):
        l = self.parse_mul()
        while self.peek().kind == "punct" and self.peek().val in ("+", "-"):
            t = self.next()
            l = Node("binary", t.line, op=t.val, l=l, r=self.parse_mul())
        return l

    def parse_mul(self):
        l = self.parse_unary()
        while self.peek().kind == "punct" and self.peek().val in ("*", "/", "%"):
            t = self.next()
            if t.val == "%":
                self.err("`%` is outside the translated subset", t)
            l = Node("binary", t.line, op=t.val, l=l, r=self.parse_unary())
        return l

    def parse_unary(self):
        t = self.peek()
        if t.kind == "punct" and t.val in ("-", "!"):
            self.next()
            return Node("unary", t.line, op=t.val, e=self.parse_unary())
        if t.kind == "punct" and t.val in ("&", "&&"):
            self.next()
            self.eat("mut")
            e = Node("ref", t.line, e=self.parse_unary())
            return Node("ref", t.line, e=e) if t.val == "&&" else e
        if t.kind == "punct" and t.val == "*":
            self.next()
            return Node("deref", t.line, e=self.parse_unary())
        e = self.parse_postfix()
        if self.at("as"):
            self.err("`as` casts are outside the translated subset")
        return e

    def parse_postfix(self):
        e = self.parse_primary()
        while True:
            t = self.peek()
            if self.at("."):
                self.next()
                n = self.peek()
                if n.kind == "int":
                    self.next()
                    if not n.val.isdigit():
                        self.err("malformed tuple index", n)
                    e = Node("tfield", t.line, e=e, idx=int(n.val))
                    continue
                if self.at("await"):
                    self.err("`.await` is outside the translated subset")
                name = self.ident("field or method name").val
                if self.at("::"):
                    self.err("turbofish is outside the translated subset")
                if self.at("("):
                    e = Node("mcall", t.line, recv=e, name=name, args=self.parse_args())
                else:
                    e = Node("field", t.line, e=e, name=name)
            elif self.at("["):
                self.err("indexing is outside the translated subset")
            elif self.at("?"):
                self.err("`?` is outside the translated subset")
            else:
                return e

    def parse_args(self):
        self.expect("(")
        save, self.no_struct = self.no_struct, False
        args = []
        while not self.at(")"):
            args.append(self.parse_or())
            if not self.eat(","):
                break
        self.expect(")")
        self.no_struct = save
        return args

    def parse_primary(self):
        t = self.peek()
        if t.kind == "str":
            self.err("string / char literals are outside the translated subset")
        if t.kind == "int":
            return self.parse_number()
        if self.at("("):
            self.next()
            save, self.no_struct = self.no_struct, False
            items, trailing = [], False
            while not self.at(")"):
                items.append(self.parse_or())
                trailing = False
                if not self.eat(","):
                    break
                trailing = True
            self.expect(")")
            self.no_struct = save
            if len(items) == 1 and not trailing:
                return items[0]
            if not items:
                self.err("the unit value `()` is outside the translated subset", t)
            return Node("tuple", t.line, items=items)
        if self.at("if"):
            return self.parse_if()
        if self.at("{"):
            return self.parse_block()
        if self.at("|") or self.at("||") or self.at("move"):
            self.err("closures are outside the translated subset")
        if self.at("match") or self.at("loop") or self.at("while") or self.at("for") or self.at("unsafe"):
            self.err(f"`{t.val}` is outside the translated subset")
        if self.at("["):
            self.err("array expressions are outside the translated subset")
        if self.at("true") or self.at("false"):
            self.next()
            return Node("bool", t.line, val=t.val)
        if t.kind == "ident" and (t.val not in KEYWORDS or t.val in ("self", "Self", "crate", "super")):
            segs = [self.next().val]
            while self.at("::"):
                self.next()
                if self.at("<"):
                    self.err("turbofish is outside the translated subset")
                segs.append(self.ident("path segment").val)
            if self.at("!"):
                self.err(f"macro `{segs[-1]}!` in an expression is outside the translated subset")
            if self.at("("):
                return Node("call", t.line, path=segs, args=self.parse_args())
            if self.at("{") and not self.no_struct and (segs[-1][0].isupper()):
                self.next()
                fields = []
                while not self.at("}"):
                    if self.at(".."):
                        self.err("struct update syntax is outside the translated subset")
                    f = self.ident("field name")
                    if self.eat(":"):
                        save, self.no_struct = self.no_struct, False
                        v = self.parse_or()
                        self.no_struct = save
                    else:
                        v = Node("path", f.line, path=[f.val])
                    fields.append((f.val, v))
                    if not self.eat(","):
                        break
                self.expect("}")
                return Node("structlit", t.line, path=segs, fields=fields)
            return Node("path", t.line, path=segs)
        self.err(f"expression starting with `{t.val or 'end of file'}` is outside the translated subset")

    def parse_number(self):
        """E2: an `int` token, optionally followed (adjacent) by `.` and another `int` token"""
        t = self.next()
        text = t.val
        d = self.peek()
        if d.kind == "punct" and d.val == "." and d.pos == t.pos + len(t.val):
            n = self.peek(1)
            if n.kind == "int" and n.pos == d.pos + 1:
                self.next()
                self.next()
                text += "." + n.val
            elif not (n.kind == "ident" and n.pos == d.pos + 1):
                self.next()
                text += "."
        return Node("num", t.line, text=text)


# ------------------------------------------------------------------------------------------------
# crate: the items of all files
# ------------------------------------------------------------------------------------------------

ADT_HAS_K = {"Point": True, "Line": True, "Circle": True, "Position": False, "CL": True, "CC": True}


class Var:
    def __init__(self, lean, ty, mut):
        self.lean, self.ty, self.mut = lean, ty, mut


def compat(a, b):
    """equal up to references; `None`'s element type (None) matches everything"""
    a, b = deref(a), deref(b)
    if a is None or b is None:
        return True
    if a[0] != b[0]:
        return False
    if a[0] == "option":
        return a[1] is None or b[1] is None or compat(a[1], b[1])
    if a[0] == "tuple":
        return len(a[1]) == len(b[1]) and all(compat(x, y) for x, y in zip(a[1], b[1]))
    return a == b


def norm_ref(t):
    """static operand type for operator resolution: at most one `&`"""
    return ("ref", deref(t)) if t[0] == "ref" else t


class Crate:
    def __init__(self, sources, adt=None):
        self.structs, self.enums, self.consts, self.methods, self.ops, self.free, self.macros = {}, {}, {}, {}, {}, {}, {}
        self.skipped, self.bad_adts, self.adt_line = [], {}, {}
        self.adt = ADT if adt is None else adt
        self.modules = set()
        for rel, text in sources:
            self.modules.add(os.path.splitext(os.path.basename(rel))[0])
            FParser(text, rel).parse_items(self)
        self.done, self.order, self.stack, self.used_adts = {}, [], [], []

    # -- Lean types
    def lean_type(self, t, file, line, atom=False):
        t = deref(t)
        if t == F64:
            return "K"
        if t == BOOL:
            return "Bool"
        if t[0] == "adt":
            self.use_adt(t[1], file, line)
            m = self.adt[t[1]]
            if not ADT_HAS_K.get(m, True):
                return f"Geometry.{m}"
            s = f"Geometry.{m} K"
            return f"({s})" if atom else s
        if t[0] == "option":
            if t[1] is None:
                raise TranslateError(file, line, "the element type of this `None` cannot be read from its context")
            s = "Option " + self.lean_type(t[1], file, line, True)
            return f"({s})" if atom else s
        if t[0] == "tuple":
            return "(" + " × ".join(self.lean_type(x, file, line, True) for x in t[1]) + ")"
        raise TranslateError(file, line, f"a value of type `{show_type(t)}` has no rule")

    def use_adt(self, name, file, line):
        if name in self.bad_adts:
            raise self.bad_adts[name]
        if name not in self.structs and name not in self.enums:
            raise TranslateError(file, line, f"type `{name}` is not a struct / enum of the translated files")
        if name not in self.adt:
            f, l = self.adt_line[name]
            raise TranslateError(f, l, f"`{name}` has no counterpart in the hand-written model (known: {', '.join(sorted(self.adt))})")
        if name not in self.used_adts:
            self.used_adts.append(name)
            if name in self.structs:
                for _, ft in self.structs[name]:
                    self.lean_type(ft, file, line)
            else:
                for _, pl in self.enums[name]:
                    for pt in pl:
                        self.lean_type(pt, file, line)

    def adt_defs(self):
        """T3 / T4: the shape checks, in the order structs then enums of the source files"""
        out = []
        for name, fields in self.structs.items():
            if name not in self.used_adts:
                continue
            f, l = self.adt_line[name]
            groups = group_binders([(fn_, self.lean_type(ft, f, l)) for fn_, ft in fields])
            out.append(f"def {name}_mk {{K : Type}} {groups} : {self.lean_type(('adt', name), f, l)} :=\n  "
                       + "{ " + ", ".join(f"{fn_} := {fn_}" for fn_, _ in fields) + " }")
        for name, variants in self.enums.items():
            if name not in self.used_adts:
                continue
            f, l = self.adt_line[name]
            arms = []
            for k, (v, payload) in enumerate(variants):
                pats = "".join(f" (_ : {self.lean_type(pt, f, l)})" for pt in payload)
                arms.append(f"  | .{lower_first(v)}{pats} => {k}")
            ty = self.lean_type(('adt', name), f, l)
            out.append(f"def {name}_variants{' {K : Type}' if ty.endswith(' K') else ''} : {ty} → Nat\n" + "\n".join(arms))
        return out

    # -- functions
    def find(self, want):
        parts = want.split("::")
        if len(parts) == 1:
            if want not in self.free:
                raise TranslateError(self.any_file(), 1, f"function `{want}` not found in the source")
            return self.free[want]
        owner, rest = parts
        if ":" in rest:
            name, kinds = rest.split(":")
            lean = f"{owner}_{name}_{kinds}"
            for fn in self.ops.values():
                if fn.lean_name == lean:
                    return fn
            raise TranslateError(self.any_file(), 1, f"operator impl `{want}` ({lean}) not found in the source")
        if (owner, rest) not in self.methods:
            raise TranslateError(self.any_file(), 1, f"function `{want}` not found in the source")
        return self.methods[(owner, rest)]

    def any_file(self):
        return sorted(f for f, _ in self.adt_line.values())[0] if self.adt_line else "?"

    def lean_name(self, fn):
        if fn.op is not None:
            return fn.lean_name
        return f"{fn.owner}_{fn.name}" if fn.owner else fn.name

    def translate(self, wanted):
        for w in wanted:
            self.translate_fn(self.find(w))
        return self.adt_defs() + [self.done[n] for n in self.order]

    def translate_fn(self, fn):
        name = self.lean_name(fn)
        if name in self.done:
            return name
        if fn.header_error is not None:
            raise fn.header_error
        if name in self.stack:
            raise TranslateError(fn.file, fn.line, f"recursion through `{name}` is outside the translated subset")
        if name in LEAN_RESERVED:
            raise TranslateError(fn.file, fn.line, f"a function called `{name}` cannot be emitted verbatim (Lean keyword)")
        self.stack.append(name)
        text = FnEmitter(self, fn).emit(name)
        self.stack.pop()
        self.done[name] = text
        self.order.append(name)
        return name


LEAN_RESERVED = {"open", "end", "prefix", "from", "at", "have", "show", "fun", "do", "then", "else", "if", "let", "in", "with", "match",
                 "def", "theorem", "namespace", "section", "variable", "universe", "import", "instance", "structure", "class", "where"}


def lower_first(s):
    return s[0].lower() + s[1:]


def group_binders(params):
    """[(name, leantype)] -> `(a b : T) (c : U)`"""
    out, k = [], 0
    while k < len(params):
        j = k
        while j + 1 < len(params) and params[j + 1][1] == params[k][1]:
            j += 1
        out.append("(" + " ".join(p for p, _ in params[k:j + 1]) + " : " + params[k][1] + ")")
        k = j + 1
    return " ".join(out)


def has_return(node):
    if node is None:
        return False
    if node.kind == "return":
        return True
    if node.kind == "block":
        return any(has_return(s) for s in node.stmts) or has_return(node.tail)
    if node.kind == "if":
        return has_return(node.then) or has_return(node.els)
    if node.kind == "ifstmt":
        return has_return(node.expr)
    return False


# ------------------------------------------------------------------------------------------------
# emitter
# ------------------------------------------------------------------------------------------------

class FnEmitter:
    def __init__(self, crate, fn):
        self.c, self.fn, self.file, self.n = crate, fn, fn.file, 0

    def err(self, node, msg):
        raise TranslateError(self.file, node.line, msg)

    def fresh(self):
        self.n += 1
        return f"v{self.n - 1}"

    def lt(self, t, node, atom=False):
        return self.c.lean_type(t, self.file, node.line, atom)

    def emit(self, name):
        fn, c = self.fn, self.c
        env, params = {}, []
        if fn.self_kind is not None:
            st = fn.self_ty if fn.op is not None else (("ref", fn.self_ty) if fn.self_kind == "ref" else fn.self_ty)
            if fn.op is not None and fn.self_kind == "ref":
                st = ("ref", st)
            env["self"] = Var("p0", st, False)
            params.append(("p0", self.lt(st, fn)))
        for p, ty, mut in fn.params:
            if p in env:
                self.err(fn, f"two parameters called `{p}`")
            v = f"p{len(params)}"
            env[p] = Var(v, ty, mut)
            params.append((v, self.lt(ty, fn)))
        if fn.ret == UNIT:
            self.err(fn, f"function `{name}` returns `()`: nothing to translate")
        ret = self.lt(fn.ret, fn)
        par = fn.parser
        save = (par.i, par.self_ty, par.output_ty)
        par.i, par.self_ty, par.output_ty = fn.body_start, fn.self_ty if fn.op is None else fn.self_ty, fn.output_ty
        if fn.op is None and fn.self_ty is not None:
            par.self_ty = fn.self_ty
        try:
            block = par.parse_block()
        finally:
            par.i, par.self_ty, par.output_ty = save
        self.self_adt = deref(fn.self_ty) if fn.self_ty is not None else None
        lines, ty = self.seq(list(block.stmts), block.tail, env, 1, True, block)
        if not compat(ty, fn.ret):
            self.err(fn, f"function `{name}` returns a `{show_type(ty)}` where its header says `{show_type(fn.ret)}`")
        binders = group_binders(params)
        return f"def {name} {{K : Type}} (G : Geometry.Geo K){' ' + binders if binders else ''} : {ret} :=\n" + "\n".join(lines)

    # -- statements ------------------------------------------------------------------------------
    def seq(self, stmts, tail, env, ind, fnmode, where):
        """-> (lines, type of the value).  `fnmode`: tail position of the function (S5 / S6 allowed)."""
        pad = "  " * ind
        lines = []
        k = 0
        while k < len(stmts):
            s = stmts[k]
            if s.kind == "let":
                text, ty = self.expr(s.expr, env, ind)
                if s.ann is not None and not compat(s.ann, ty):
                    self.err(s, f"`let` annotation `{show_type(s.ann)}` on a value of type `{show_type(ty)}`")
                if deref(ty)[0] == "option" and deref(ty)[1] is None and s.ann is not None:
                    ty = s.ann
                v = self.fresh()
                lines.append(f"{pad}let {v} := {text}")
                if s.pat[0] == "var":
                    env[s.pat[1]] = Var(v, ty, s.pat[2])
                else:
                    dt = deref(ty)
                    if dt[0] != "tuple" or len(dt[1]) != len(s.pat[1]):
                        self.err(s, f"tuple pattern on a value of type `{show_type(ty)}`")
                    for i, (nm, mut) in enumerate(s.pat[1]):
                        if nm != "_":
                            env[nm] = Var(v + tuple_proj(i, len(dt[1])), dt[1][i], mut)
            elif s.kind == "assign":
                self.assign(s, env, ind, lines)
            elif s.kind == "exprstmt":
                if self.is_swap(s.expr):
                    self.swap(s.expr, env)
                else:
                    self.err(s, "an expression statement whose value is dropped has no effect in pure code: no rule")
            elif s.kind == "return":
                if not fnmode:
                    self.err(s, "`return` inside a value block is outside the translated subset")
                text, ty = self.expr(s.expr, env, ind)
                lines.append(pad + text)
                return lines, ty
            elif s.kind == "ifstmt":
                node = s.expr
                if has_return(node):
                    if not fnmode:
                        self.err(s, "`return` inside a value block is outside the translated subset")
                    rest = stmts[k + 1:]
                    ctext, cty = self.expr(node.cond, env, ind)
                    if deref(cty) != BOOL:
                        self.err(node, f"condition of type `{show_type(cty)}`")
                    la, ta = self.seq(self.as_stmts(node.then) + rest, tail, dict(env), ind + 1, True, where)
                    eb = self.as_stmts(node.els) if node.els is not None else []
                    lb, tb = self.seq(eb + rest, tail, dict(env), ind + 1, True, where)
                    if not compat(ta, tb):
                        self.err(node, f"the two outcomes have types `{show_type(ta)}` and `{show_type(tb)}`")
                    lines.append(f"{pad}if {ctext} then (")
                    lines += la
                    lines.append(f"{pad}) else (")
                    lines += lb
                    lines.append(f"{pad})")
                    return lines, (ta if not (deref(ta)[0] == "option" and deref(ta)[1] is None) else tb)
                self.phi(node, env, ind, lines)
            else:
                self.err(s, f"statement `{s.kind}` has no rule")
            k += 1
        if tail is None:
            self.err(where, "this block has no value (it neither ends in an expression nor returns on every path)")
        if tail.kind == "if" and fnmode:
            node = tail
            if node.els is None:
                self.err(node, "an `if` without `else` in value position")
            ctext, cty = self.expr(node.cond, env, ind)
            if deref(cty) != BOOL:
                self.err(node, f"condition of type `{show_type(cty)}`")
            la, ta = self.seq(list(node.then.stmts), node.then.tail, dict(env), ind + 1, True, node.then)
            lb, tb = self.seq(list(node.els.stmts), node.els.tail, dict(env), ind + 1, True, node.els)
            if not compat(ta, tb):
                self.err(node, f"the two branches have types `{show_type(ta)}` and `{show_type(tb)}`")
            lines.append(f"{pad}if {ctext} then (")
            lines += la
            lines.append(f"{pad}) else (")
            lines += lb
            lines.append(f"{pad})")
            return lines, (ta if not (deref(ta)[0] == "option" and deref(ta)[1] is None) else tb)
        text, ty = self.expr(tail, env, ind)
        lines.append(pad + text)
        return lines, ty

    def as_stmts(self, block):
        """the statements of a branch of an `if` STATEMENT (an `else if` chain is a block whose tail is the next `if`)"""
        out = list(block.stmts)
        if block.tail is not None:
            if block.tail.kind == "if":
                out.append(Node("ifstmt", block.tail.line, expr=block.tail))
            else:
                self.err(block.tail, "a branch of an `if` statement ends in a value that is dropped: no rule")
        return out

    def assigned(self, stmts, local, acc):
        for s in stmts:
            if s.kind == "let":
                for nm in ([s.pat[1]] if s.pat[0] == "var" else [n for n, _ in s.pat[1]]):
                    local.add(nm)
            elif s.kind == "assign":
                if s.place.kind != "path" or len(s.place.path) != 1:
                    self.err(s, "assignment to anything but a local variable is outside the translated subset")
                nm = s.place.path[0]
                if nm not in local and nm not in acc:
                    acc.append(nm)
            elif s.kind == "exprstmt" and self.is_swap(s.expr):
                for a in s.expr.args:
                    nm = a.e.path[0]
                    if nm not in local and nm not in acc:
                        acc.append(nm)
            elif s.kind == "ifstmt":
                self.assigned(self.as_stmts(s.expr.then), set(local), acc)
                if s.expr.els is not None:
                    self.assigned(self.as_stmts(s.expr.els), set(local), acc)

    def phi(self, node, env, ind, lines):
        """S4"""
        pad = "  " * ind
        ctext, cty = self.expr(node.cond, env, ind)
        if deref(cty) != BOOL:
            self.err(node, f"condition of type `{show_type(cty)}`")
        a = self.as_stmts(node.then)
        b = self.as_stmts(node.els) if node.els is not None else []
        w = []
        self.assigned(a, set(), w)
        self.assigned(b, set(), w)
        if not w:
            self.err(node, "an `if` statement that assigns no variable has no effect in pure code: no rule")
        for nm in w:
            if nm not in env:
                self.err(node, f"assignment to the unknown variable `{nm}`")
        out = []
        for br in (a, b):
            e2 = dict(env)
            l2, _ = self.seq(br, Node("phi", node.line, names=w), e2, ind + 1, False, node) if br else ([("  " * (ind + 1)) + self.phi_value(w, env)], None)
            out.append(l2)
        v = self.fresh()
        lines.append(f"{pad}let {v} := if {ctext} then (")
        lines += out[0]
        lines.append(f"{pad}) else (")
        lines += out[1]
        lines.append(f"{pad})")
        for i, nm in enumerate(w):
            env[nm] = Var(v + (tuple_proj(i, len(w)) if len(w) > 1 else ""), env[nm].ty, env[nm].mut)

    def phi_value(self, w, env):
        vals = [env[nm].lean for nm in w]
        return vals[0] if len(vals) == 1 else "(" + ", ".join(vals) + ")"

    def assign(self, s, env, ind, lines):
        pad = "  " * ind
        if s.place.kind != "path" or len(s.place.path) != 1:
            self.err(s, "assignment to anything but a local variable is outside the translated subset")
        nm = s.place.path[0]
        if nm not in env:
            self.err(s, f"assignment to the unknown variable `{nm}`")
        if not env[nm].mut:
            self.err(s, f"assignment to `{nm}`, which is not `mut`")
        rhs = s.expr if s.op == "=" else Node("binary", s.line, op=s.op[0], l=s.place, r=s.expr)
        text, ty = self.expr(rhs, env, ind)
        if not compat(ty, env[nm].ty):
            self.err(s, f"`{nm}` of type `{show_type(env[nm].ty)}` assigned a `{show_type(ty)}`")
        v = self.fresh()
        lines.append(f"{pad}let {v} := {text}")
        env[nm] = Var(v, env[nm].ty, True)

    def is_swap(self, e):
        if e.kind != "call" or e.path not in (["swap"], ["mem", "swap"], ["std", "mem", "swap"]) or (e.path == ["swap"] and "swap" in self.c.free):
            return False
        if len(e.args) != 2 or any(a.kind != "ref" or a.e.kind != "path" or len(a.e.path) != 1 for a in e.args):
            self.err(e, "`swap` is translated for two local variables only (`swap(&mut x, &mut y)`)")
        return True

    def swap(self, e, env):
        x, y = e.args[0].e.path[0], e.args[1].e.path[0]
        for nm in (x, y):
            if nm not in env:
                self.err(e, f"unknown variable `{nm}`")
            if not env[nm].mut:
                self.err(e, f"`swap` of `{nm}`, which is not `mut`")
        if not compat(env[x].ty, env[y].ty) or (env[x].ty[0] == "ref") != (env[y].ty[0] == "ref"):
            self.err(e, "`swap` of variables of different types")
        env[x], env[y] = Var(env[y].lean, env[x].ty, True), Var(env[x].lean, env[y].ty, True)

    # -- expressions -----------------------------------------------------------------------------
    def value_block(self, block, env, ind):
        """a `{ … }` in value position -> (text, type); one line when it has no statements"""
        lines, ty = self.seq(list(block.stmts), block.tail, dict(env), ind + 1, False, block)
        if len(lines) == 1:
            return lines[0].strip(), ty
        return "(\n" + "\n".join(lines) + "\n" + "  " * ind + ")", ty

    def num(self, node, negative=False):
        m = re.fullmatch(r"([0-9][0-9_]*)(\.([0-9][0-9_]*)?)?(_?f64)?", node.text)
        if not m:
            self.err(node, f"literal `{node.text}` is outside the translated subset (E2: integral `f64` literals only)")
        if m.group(2) is None and m.group(4) is None:
            if negative:
                self.err(node, "negative integer literal")
            return node.text.replace("_", ""), INT
        frac = (m.group(3) or "").replace("_", "")
        if frac.strip("0"):
            self.err(node, f"float literal `{node.text}` is not integral: the arithmetic record of the model only has `ofInt` (E2)")
        n = int(m.group(1).replace("_", ""))
        if negative:
            if n == 0:
                self.err(node, "the literal `-0.0` is not an `ofInt` (E2)")
            return f"(G.ofInt (-{n}))", F64
        return f"(G.ofInt {n})", F64

    def expr(self, e, env, ind):
        c = self.c
        k = e.kind
        if k == "num":
            return self.num(e)
        if k == "bool":
            return e.val, BOOL
        if k == "phi":
            return self.phi_value(e.names, env), None
        if k in ("ref",):
            t, ty = self.expr(e.e, env, ind)
            return t, ("ref", ty)
        if k == "deref":
            t, ty = self.expr(e.e, env, ind)
            if ty[0] != "ref":
                self.err(e, f"`*` on a value of type `{show_type(ty)}`")
            return t, ty[1]
        if k == "path":
            return self.path(e, env)
        if k == "unary":
            if e.op == "-" and e.e.kind == "num":
                return self.num(e.e, negative=True)
            t, ty = self.expr(e.e, env, ind)
            d = deref(ty)
            if e.op == "!":
                if d != BOOL:
                    self.err(e, f"`!` on a value of type `{show_type(ty)}` has no rule")
                return f"(!{t})", BOOL
            if d == F64:
                return f"(G.neg {t})", F64
            if d[0] == "adt":
                fn = c.ops.get(("Neg", norm_ref(ty), None))
                if fn is None:
                    self.err(e, f"no `impl Neg for {show_type(norm_ref(ty))}` in the translated files")
                return f"({c.translate_fn(fn)} G {t})", fn.ret
            self.err(e, f"unary `-` on a value of type `{show_type(ty)}` has no rule")
        if k == "binary":
            return self.binary(e, env, ind)
        if k == "field":
            t, ty = self.expr(e.e, env, ind)
            d = deref(ty)
            if d[0] != "adt" or d[1] not in c.structs:
                self.err(e, f"field `.{e.name}` of a value of type `{show_type(ty)}`")
            c.use_adt(d[1], self.file, e.line)
            for f, ft in c.structs[d[1]]:
                if f == e.name:
                    return f"{t}.{f}", ft
            self.err(e, f"struct `{d[1]}` has no field `{e.name}`")
        if k == "tfield":
            t, ty = self.expr(e.e, env, ind)
            d = deref(ty)
            if d[0] != "tuple" or e.idx >= len(d[1]):
                self.err(e, f"`.{e.idx}` of a value of type `{show_type(ty)}`")
            return t + tuple_proj(e.idx, len(d[1])), d[1][e.idx]
        if k == "tuple":
            parts = [self.expr(x, env, ind) for x in e.items]
            return "(" + ", ".join(t for t, _ in parts) + ")", ("tuple", tuple(ty for _, ty in parts))
        if k == "if":
            if e.els is None:
                self.err(e, "an `if` without `else` in value position")
            ct, cty = self.expr(e.cond, env, ind)
            if deref(cty) != BOOL:
                self.err(e, f"condition of type `{show_type(cty)}`")
            a, ta = self.value_block(e.then, env, ind)
            b, tb = self.value_block(e.els, env, ind)
            if not compat(ta, tb):
                self.err(e, f"the two branches have types `{show_type(ta)}` and `{show_type(tb)}`")
            if (ta[0] == "ref") != (tb[0] == "ref"):
                ta = deref(ta)
            return f"(if {ct} then {a} else {b})", (ta if not (deref(ta)[0] == "option" and deref(ta)[1] is None) else tb)
        if k == "block":
            return self.value_block(e, env, ind)
        if k == "structlit":
            return self.structlit(e, env, ind)
        if k == "call":
            return self.call(e, env, ind)
        if k == "mcall":
            return self.mcall(e, env, ind)
        self.err(e, f"expression `{k}` has no rule")

    def path(self, e, env):
        c = self.c
        segs = e.path
        if len(segs) == 1:
            nm = segs[0]
            if nm in env:
                return env[nm].lean, env[nm].ty
            if nm == "None":
                return "none", ("option", None)
            if nm in c.consts:
                return self.const(nm, e)
            self.err(e, f"unknown name `{nm}`")
        segs = self.strip_modules(segs)
        if len(segs) == 1 and segs[0] in c.consts:
            return self.const(segs[0], e)
        if len(segs) == 2:
            owner = self.owner(segs[0], e)
            if owner in c.enums:
                return self.variant(owner, segs[1], [], e)
        self.err(e, f"path `{'::'.join(e.path)}` has no rule")

    def const(self, nm, e):
        ty = self.c.consts[nm][0]
        if nm != "EPS" or ty != F64:
            self.err(e, f"constant `{nm}` has no rule (only `EPS: f64`, read as `G.eps`)")
        return "G.eps", F64

    def strip_modules(self, segs):
        segs = list(segs)
        while len(segs) > 1 and (segs[0] in ("crate", "super", "self") or segs[0] in self.c.modules):
            segs.pop(0)
        return segs

    def owner(self, nm, e):
        if nm == "Self":
            if self.self_adt is None:
                self.err(e, "`Self` outside an impl")
            return self.self_adt[1]
        return nm

    def variant(self, enum, v, args, e):
        c = self.c
        c.use_adt(enum, self.file, e.line)
        for name, payload in c.enums[enum]:
            if name == v:
                if len(payload) != len(args):
                    self.err(e, f"`{enum}::{v}` takes {len(payload)} values, {len(args)} given")
                for (t, ty), pt in zip(args, payload):
                    if not compat(ty, pt):
                        self.err(e, f"`{enum}::{v}` applied to a `{show_type(ty)}`, expected `{show_type(pt)}`")
                ctor = f"Geometry.{c.adt[enum]}.{lower_first(v)}"
                return (f"({ctor} " + " ".join(t for t, _ in args) + ")" if args else ctor), ("adt", enum)
        self.err(e, f"enum `{enum}` has no variant `{v}`")

    def binary(self, e, env, ind):
        c = self.c
        l, lt = self.expr(e.l, env, ind)
        r, rt = self.expr(e.r, env, ind)
        dl, dr = deref(lt), deref(rt)
        op = e.op
        if op in ("&&", "||"):
            if dl != BOOL or dr != BOOL:
                self.err(e, f"`{op}` on values of types `{show_type(lt)}`, `{show_type(rt)}`")
            return f"({l} {op} {r})", BOOL
        if op in ("<", ">", "==", "!=", "<=", ">="):
            if dl != F64 or dr != F64:
                self.err(e, f"`{op}` on values of types `{show_type(lt)}`, `{show_type(rt)}` has no rule (E5: `f64` only)")
            if op == "<":
                return f"(G.lt {l} {r})", BOOL
            if op == ">":
                return f"(G.lt {r} {l})", BOOL
            if op == "!=":
                return f"(G.ne {l} {r})", BOOL
            if op == "==":
                return f"(!(G.ne {l} {r}))", BOOL
            self.err(e, f"`{op}` on `f64` has no rule: on NaN it is not the negation of `{'>' if op == '<=' else '<'}`, and the model's arithmetic record has no `le` (E5)")
        if dl == F64 and dr == F64:
            return f"(G.{GEO_BIN[op]} {l} {r})", F64
        if dl[0] == "adt":
            key = (BINOP_TRAIT[op], norm_ref(lt), norm_ref(rt))
            fn = c.ops.get(key)
            if fn is None:
                self.err(e, f"no `impl {key[0]}<{show_type(key[2])}> for {show_type(key[1])}` in the translated files (O1)")
            return f"({c.translate_fn(fn)} G {l} {r})", fn.ret
        self.err(e, f"`{op}` on values of types `{show_type(lt)}`, `{show_type(rt)}` has no rule")

    def structlit(self, e, env, ind):
        c = self.c
        segs = self.strip_modules(e.path)
        if len(segs) != 1:
            self.err(e, f"struct literal `{'::'.join(e.path)}` has no rule")
        name = self.owner(segs[0], e)
        if name not in c.structs:
            self.err(e, f"`{name}` is not a struct of the translated files")
        c.use_adt(name, self.file, e.line)
        given = {}
        for f, v in e.fields:
            if f in given:
                self.err(e, f"field `{f}` given twice")
            given[f] = self.expr(v, env, ind)
        decl = c.structs[name]
        if set(given) != {f for f, _ in decl}:
            self.err(e, f"struct literal of `{name}` with fields {sorted(given)}; the struct has {[f for f, _ in decl]}")
        for f, ft in decl:
            if not compat(given[f][1], ft):
                self.err(e, f"field `{f}` of type `{show_type(ft)}` given a `{show_type(given[f][1])}`")
        body = ", ".join(f"{f} := {given[f][0]}" for f, _ in decl)
        return f"({{ {body} }} : {self.lt(('adt', name), e)})", ("adt", name)

    def apply(self, fn, args, e, what):
        """a call of a translated function: arity, argument types, then `(name G args)`"""
        want = ([fn.self_ty if fn.op is not None else fn.self_ty] if fn.self_kind is not None else []) + [ty for _, ty, _ in fn.params]
        if fn.header_error is not None:
            raise fn.header_error
        if len(want) != len(args):
            self.err(e, f"{what} takes {len(want)} arguments, {len(args)} given")
        for (t, ty), wt in zip(args, want):
            if not compat(ty, wt):
                self.err(e, f"{what} applied to a `{show_type(ty)}`, expected `{show_type(wt)}`")
        name = self.c.translate_fn(fn)
        return f"({name} G" + "".join(" " + t for t, _ in args) + ")", fn.ret

    def call(self, e, env, ind):
        c = self.c
        args = [self.expr(a, env, ind) for a in e.args]
        segs = self.strip_modules(e.path)
        if segs == ["Some"]:
            if len(args) != 1:
                self.err(e, "`Some` takes one value")
            return f"(some {args[0][0]})", ("option", deref(args[0][1]))
        if self.is_swap(e) if e.path[-1] == "swap" else False:
            self.err(e, "`swap` is translated as a statement only")
        if len(segs) == 1:
            if segs[0] in env:
                self.err(e, "calling a local value (closure / function pointer) is outside the translated subset")
            if segs[0] not in c.free:
                self.err(e, f"function `{segs[0]}` is not defined in the translated files")
            return self.apply(c.free[segs[0]], args, e, f"`{segs[0]}`")
        if len(segs) == 2:
            owner = self.owner(segs[0], e)
            if owner in c.enums and any(v == segs[1] for v, _ in c.enums[owner]):
                return self.variant(owner, segs[1], args, e)
            if (owner, segs[1]) in c.methods:
                return self.apply(c.methods[(owner, segs[1])], args, e, f"`{owner}::{segs[1]}`")
            self.err(e, f"`{owner}::{segs[1]}` is not defined in an inherent impl of the translated files")
        self.err(e, f"call of `{'::'.join(e.path)}` has no rule")

    def mcall(self, e, env, ind):
        c = self.c
        r, rt = self.expr(e.recv, env, ind)
        d = deref(rt)
        args = [self.expr(a, env, ind) for a in e.args]
        m = e.name
        if m == "clone" and not args:
            return r, d
        if d == F64:
            def arity(n):
                if len(args) != n:
                    self.err(e, f"`f64::{m}` takes {n} argument(s)")
                for t, ty in args:
                    if deref(ty) != F64:
                        self.err(e, f"`f64::{m}` applied to a `{show_type(ty)}`")
            if m in ("sqrt", "abs"):
                arity(0)
                return f"(G.{m} {r})", F64
            if m == "neg":
                arity(0)
                return f"(G.neg {r})", F64
            if m in ("max", "add", "sub", "mul", "div"):
                arity(1)
                return f"(G.{m} {r} {args[0][0]})", F64
            if m == "powi":
                if len(args) != 1 or args[0][1] != INT or args[0][0] != "2":
                    self.err(e, "`powi` is translated for the constant exponent 2 only (`x * x`, E4)")
                return f"(G.mul {r} {r})", F64
            self.err(e, f"`f64::{m}` has no rule: the model's arithmetic record has add sub mul div neg sqrt abs max lt ne only (E4)")
        if d[0] == "adt":
            fn = c.methods.get((d[1], m))
            if fn is not None:
                if fn.self_kind is None:
                    self.err(e, f"`{d[1]}::{m}` has no `self` parameter")
                return self.apply(fn, [(r, rt)] + args, e, f"`{d[1]}::{m}`")
            tr = {v: k_ for k_, v in OP_TRAITS.items()}.get(m)
            if tr is not None:
                key = (tr, norm_ref(rt), norm_ref(args[0][1]) if args else None)
                fn = c.ops.get(key)
                if fn is not None:
                    return f"({c.translate_fn(fn)} G {r}" + "".join(" " + t for t, _ in args) + ")", fn.ret
            self.err(e, f"method `{m}` of `{d[1]}` is not defined in an inherent impl of the translated files")
        self.err(e, f"method `{m}` on a value of type `{show_type(rt)}` has no rule")


def tuple_proj(i, n):
    return ".2" * i + (".1" if i < n - 1 else "")


# ------------------------------------------------------------------------------------------------
# output
# ------------------------------------------------------------------------------------------------

HEADER = """import RlibModel.Model.Geometry
import RlibModel.Generated.AttrSrc
/-!
GENERATED by `tools/rs2lean_float.py` from the source text of {rel} on every run of `./check {pid}`
— do not edit by hand.  Translation scheme: the doc comment at the top of the tool.  One definition per Rust function, over
an ABSTRACT arithmetic `G : Geometry.Geo K` (`a + b - c` is `G.sub (G.add a b) c`, `a > b` is `G.lt b a`, `a == b` is `!(G.ne a b)`,
`n.0` is `G.ofInt n`, `EPS` is `G.eps`); the code is pure, so there is no `Except` and no fuel.  Structs and enums are the model's
types; `<S>_mk` / `<E>_variants` are written from the source's declarations and elaborate only if those have exactly these fields /
variants.  Variables are renamed (`p*` parameters, `v*` SSA locals): the text depends on the source only up to renaming, comments
and layout.  `Lemmas/{stem}.lean` proves every definition equal to the hand-written model for EVERY `G`.
-/
set_option linter.unusedVariables false
namespace {ns}
open Rlib

"""


def render(defs, ns, rel, pid, stem, failure=None):
    text = HEADER.format(rel=rel, pid=pid, ns=ns, stem=stem)
    if failure is not None:
        safe = failure.replace("-/", "- /").replace("/-", "/ -")
        text += f"/- TRANSLATION FAILED — no definitions; everything that refers to them stops compiling.\n   {safe} -/\n\n"
    else:
        text += "\n\n".join(("@[src_def] " + d) if d.startswith("def ") else d for d in defs) + "\n\n"
    return text + f"end {ns}\n"


def translate_sources(sources, wanted=None, adt=None):
    """sources: [(rel, text)] -> (definitions, info).  Raises TranslateError."""
    crate = Crate(sources, adt)
    defs = crate.translate(WANTED if wanted is None else wanted)
    all_fns = ([f"{o}::{n}" for (o, n) in crate.methods] + list(crate.free) + [fn.lean_name for fn in crate.ops.values()])
    done = set(crate.order)
    info = {"functions": crate.order, "types": crate.used_adts,
            "not_translated": sorted(crate.skipped) + sorted(f"fn {n}" for n in all_fns if n.replace("::", "_") not in done)}
    return defs, info


def run(repo, out_path, ns="Rlib.GeometrySrc", pid="C10", files=None, wanted=None):
    """Translate <repo>/<files> and (re)write `out_path` when its content changes.  -> (info, problems)"""
    files = FILES if files is None else files
    stem = os.path.splitext(os.path.basename(out_path))[0]
    rel = ", ".join(f"`{f}`" for f in files)
    problems, info = [], {"functions": []}
    try:
        sources = [(f, open(os.path.join(repo, f)).read()) for f in files]
        defs, info = translate_sources(sources, wanted)
        text = render(defs, ns, rel, pid, stem)
    except (OSError, TranslateError) as e:
        problems.append(SUBSET + f"rs2lean_float: {e}" if isinstance(e, TranslateError) else f"rs2lean_float: {e}")
        text = render([], ns, rel, pid, stem, failure=str(e))
    info["rewritten"] = write_if_changed(out_path, text)
    return info, problems


def main(argv):
    import argparse
    ap = argparse.ArgumentParser()
    ap.add_argument("--repo", default="/repo")
    ap.add_argument("--out", required=True)
    ap.add_argument("--namespace", default="Rlib.GeometrySrc")
    ap.add_argument("--pid", default="C10")
    a = ap.parse_args(argv)
    info, problems = run(a.repo, a.out, a.namespace, a.pid)
    print(json.dumps({"info": info, "problems": problems}, indent=1))
    return 1 if problems else 0


if __name__ == "__main__":
    sys.exit(main(sys.argv[1:]))
