#!/usr/bin/env python3
"""Pin the current list of property theorems (checks/required_theorems.json).  A theorem that is later deleted or
renamed in Props/Cxx.lean (or Props/CxxSrc.lean, the second-tie module) is then reported by ./check as a broken obligation
instead of silently shrinking the count.   usage: pin_theorems.py [Cxx ...]   (default: every claimed property)"""
import json, os, sys
sys.path.insert(0, os.path.dirname(os.path.abspath(__file__)))
import veriflib as V
path = os.path.join(V.VERIF, "checks", "required_theorems.json")
out = json.load(open(path)) if os.path.exists(path) else {}
ready = sorted(open(os.path.join(V.VERIF, "checks", "READY")).read().split())
for pid in (sys.argv[1:] or ready):
    cfg = V.load_config(pid)
    new = V.theorems_of(cfg.PROPS) + (V.theorems_of(cfg.PROPS_SRC) if getattr(cfg, "PROPS_SRC", None) else [])
    gone = [t for t in out.get(pid, []) if t not in new]
    if gone:
        print(f"{pid}: WARNING, previously pinned theorems no longer present: {gone}")
    out[pid] = new
json.dump({k: out[k] for k in sorted(out)}, open(path, "w"), indent=1)
open(path, "a").write("\n")
print({k: len(v) for k, v in sorted(out.items())})
