#!/usr/bin/env python3
"""Pin the current list of property theorems (checks/required_theorems.json).  A theorem that is later deleted or
renamed in Props/Cxx.lean is then reported by ./check as a broken obligation instead of silently shrinking the count."""
import json, os, sys
sys.path.insert(0, os.path.dirname(os.path.abspath(__file__)))
import veriflib as V
out = {}
for pid in sorted(open(os.path.join(V.VERIF, "checks", "READY")).read().split()):
    cfg = V.load_config(pid)
    out[pid] = V.theorems_of(cfg.PROPS) + (V.theorems_of(cfg.PROPS_SRC) if getattr(cfg, "PROPS_SRC", None) else [])
json.dump(out, open(os.path.join(V.VERIF, "checks", "required_theorems.json"), "w"), indent=1)
print({k: len(v) for k, v in out.items()})
