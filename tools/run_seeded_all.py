#!/usr/bin/env python3
"""Run the checks against ALL seeded changes, one worker per property (names of one property run sequentially because a
`--repo` run of a second-tie property rewrites that property's Generated/*Src.lean for the duration of the run), N workers at a time.
usage: tools/run_seeded_all.py [-j N] [Cxx ...]      results merged into seeded/RESULTS.json"""
import json, os, subprocess, sys, concurrent.futures as cf
VERIF = os.path.dirname(os.path.dirname(os.path.abspath(__file__)))
args = sys.argv[1:]
j = 6
if "-j" in args:
    k = args.index("-j"); j = int(args[k + 1]); del args[k:k + 2]
sd = os.path.join(VERIF, "seeded")
by = {}
for n in sorted(os.listdir(sd)):
    if os.path.isdir(os.path.join(sd, n)) and "_m" in n:
        by.setdefault(n.split("_")[0], []).append(n)
props = args or sorted(by)
def work(pid):
    out = f"/tmp/seeded_results_{pid}.json"
    if os.path.exists(out):
        os.remove(out)
    r = subprocess.run([sys.executable, os.path.join(VERIF, "tools", "run_seeded.py")] + by[pid], cwd=VERIF, env=dict(os.environ, SEEDED_RESULTS=out),
                       stdout=subprocess.PIPE, stderr=subprocess.STDOUT, text=True)
    open(f"/tmp/seeded_log_{pid}.txt", "w").write(r.stdout)
    return pid, out
with cf.ThreadPoolExecutor(max_workers=j) as ex:
    res = list(ex.map(work, props))
main = os.path.join(sd, "RESULTS.json")
allr = json.load(open(main)) if os.path.exists(main) else {}
for pid, out in res:
    if os.path.exists(out):
        allr.update(json.load(open(out)))
json.dump(allr, open(main, "w"), indent=1, sort_keys=True)
tot = {k: v for k, v in allr.items() if k.split("_")[0] in props}
c = sum(1 for v in tot.values() if v.get("status") == "caught")
w = sum(1 for v in tot.values() if v.get("status") == "caught" and v.get("with_input"))
print(f"{len(tot)} seeded changes: {c} caught ({w} with a failing input), missed: {sorted(k for k, v in tot.items() if v.get('status') != 'caught')}, "
      f"without input: {sorted(k for k, v in tot.items() if v.get('status') == 'caught' and not v.get('with_input'))}")
