#!/usr/bin/env python3
"""
Self-test of tools/rs2lean_generic_struct.py (not part of any check; run by hand after editing the translator):

  1. translates tools/rs2lean_selftest/sample_struct.rs (a `&mut self` method returning a value, a `while` loop over a struct
     variable, `if` in expression position, `return;`, swap of fields, `==` on structs, by-value / by-reference operator dispatch,
     `+=` on a struct, calls of two functions of another crate), elaborates the result with `lake env lean` and compares `#eval`s of
     the generated definitions with values computed by hand;
  2. renaming variables / parameters, comments, layout, reordering items and struct-literal fields of rlib/rational/src/lib.rs give
     byte-identical Lean text;
  3. every construct outside the subset is rejected with file:line (never skipped).
"""
import os
import subprocess
import sys
import tempfile

HERE = os.path.dirname(os.path.abspath(__file__))
sys.path.insert(0, HERE)
import rs2lean  # noqa: E402
import rs2lean_generic_struct as gs  # noqa: E402

GCD_SRC = open("/repo/rlib/gcd/src/lib.rs").read()
EXT = {"rlib_gcd": {"src": GCD_SRC, "file": "rlib/gcd/src/lib.rs", "ns": "Rlib.GcdSrc"}}
SAMPLE_FNS = ["mk", "bump", "walk", "use_walk", "g", "same", "sign", "add_ref", "add", "add_assign", "twice"]
EVALS = [
    ("(mk 0 3 4).toOption", "some (3, 4)"),
    ("(bump 0 3 4 10).toOption", "some (4, 13, -9)"),              # x = 13, swap -> (4, 13), result 4 - 13
    ("(walk 10 0 5 3).toOption", "some (3, 5)"),
    ("(walk 10 9 5 4).toOption", "some (5, 5)"),                    # 9 -> 8 7 6 5
    ("(walk 10 0 5 (-1)).toOption", "some (0, 5)"),                 # early `return;`
    ("(match walk 3 0 5 3 with | .error .fuel => 1 | _ => 0)", "1"),
    ("(use_walk 10 0 5 3).toOption", "some (5, 1)"),                # walk -> (3,5); bump 1 -> self (5,4), d = 1; y = 1
    ("(g 20 4 6).toOption", "some 4"),                              # gcd(4, lcm(4, 6) = 12)
    ("(match g 20 0 0 with | .error .divzero => 1 | _ => 0)", "1"),
    ("(same 0 1 2 1 2).toOption", "some 1"),
    ("(same 0 1 2 2 1).toOption", "some 0"),
    ("(sign 0 1 2).toOption", "some (Ordering.lt)"),
    ("(add 0 1 2 3 4).toOption", "some (4, 6)"),
    ("(twice 0 1 2).toOption", "some (2, 4)"),
]

HEAD = "use rlib_num_traits::*;\npub struct S<T> { pub a: T, pub b: T }\n"
IMPL = HEAD + "impl<T: Integer> S<T> {\n"
REJECT = [  # (source, wanted Lean names, fragment expected in the error message)
    (IMPL + "    pub fn f(&self) -> T { self.a.pow(self.b) }\n}\n", ["f"], ":4: method `.pow()` on an integer"),
    (IMPL + "    pub fn f(&self) -> T { self.c.clone() }\n}\n", ["f"], ":4: no field `c`"),
    (IMPL + "    pub fn f(&self) -> T { helper(self.a.clone()) }\n}\n", ["f"], ":4: call of `helper`"),
    (IMPL + "    pub fn f(&self) -> T { gcd(self.a.clone(), self.b.clone()) }\n}\n", ["f"], ":4: call of `gcd`"),      # crate not `use`d
    (IMPL + "    pub fn f(self, o: Self) -> Self { self + o }\n}\n", ["f"], ":4: `impl Add<…> for S`"),
    (IMPL + "    pub fn f(&self) -> Self { self.clone() }\n}\n", ["f"], ":4: `.clone()` on a struct without"),
    (IMPL + "    pub fn f(&self, o: &Self) -> T { if self == o { T::ONE } else { T::ZERO } }\n}\n", ["f"], "without `#[derive(PartialEq)]`"),
    (IMPL + "    pub fn f(&self) -> T { let v = vec![self.a.clone()]; self.b.clone() }\n}\n", ["f"], ":4: macro invocation `vec!`"),
    (IMPL + "    pub fn f(&self) -> T { match self.a { _ => T::ZERO } }\n}\n", ["f"], "`match`"),
    (IMPL + "    pub fn f(&self) -> T { self.a.clone() + 1 }\n}\n", ["f"], "integer literal"),
    (IMPL + "    pub fn f(&mut self) -> T { self.f() }\n}\n", ["f"], "recursion through `f`"),
    (IMPL + "    pub fn f(&self) -> T { let c = self.a < self.b; T::ZERO }\n}\n", ["f"], "boolean values"),
    (IMPL + "    pub fn f<U>(&self, u: U) -> T { T::ZERO }\n}\n", ["f"], ":4: generic method `f`"),
    (IMPL + "    pub fn f(&self, v: Vec<T>) -> T { T::ZERO }\n}\n", ["f"], ":4: type `Vec`"),
    (IMPL + "    pub fn f(&self) -> T { self.b = T::ZERO; T::ONE }\n}\n", ["f"], "assignment to `self`, which is not mutable"),
    (IMPL + "    pub fn f(&mut self) -> T { for i in self.a { } T::ONE }\n}\n", ["f"], "`for`"),
    (HEAD + "impl<T: Copy> S<T> {\n    pub fn f(&self) -> T { self.a }\n}\n", ["f"], ":3: type parameter `T` is not bounded by `Integer`"),
    (HEAD + "mod m {}\n", [], ":3: top-level item"),
    (HEAD + "#[cfg(test)]\nimpl<T: Integer> S<T> {}\n", [], ":3: attribute `#[cfg"),
    (HEAD + "m!(a);\n", [], ":3: macro `m!` invoked at item level"),
    (HEAD + "macro_rules! m { ($($x:tt)*) => {}; }\nm!(a);\n", [], ":3: expected macro parameter"),
    (IMPL + "    pub fn f(&self) -> T { T::ZERO }\n}\nimpl<T: Integer> S<T> {\n    pub fn f(&self) -> T { T::ONE }\n}\n", ["f"], "two functions of the source translate to the name `f`"),
    (IMPL + "    pub fn f(&self) -> T { self.h() }\n}\nimpl<T: Copy> S<T> {\n    pub fn h(&self) -> T { self.a }\n}\n", ["f"], "`h` is also defined by an impl"),
]

RATIONAL_FNS = ["new", "new_int", "floor", "ceil", "add_ref", "sub_ref", "mul_ref", "div_ref", "neg", "cmp", "partial_cmp", "add", "sub",
                "mul", "div", "add_assign_ref", "sub_assign_ref", "mul_assign_ref", "div_assign_ref", "add_assign", "sub_assign",
                "mul_assign", "div_assign"]


def main():
    bad = 0
    lean_dir = os.path.join(os.path.dirname(HERE), "lean")
    # 1. sample
    src = open(os.path.join(HERE, "rs2lean_selftest", "sample_struct.rs")).read()
    tr = gs.Translator(src, "sample_struct.rs", EXT)
    defs = tr.translate(SAMPLE_FNS)
    text = gs.render(defs, "Rlib.TrStructTest", "sample_struct.rs", "selftest", "SampleStruct", ["RlibModel.Generated.GcdSrc"], "selftest")
    text += "open Rlib.TrStructTest\n" + "".join(f"#eval {e}\n" for e, _ in EVALS)
    with tempfile.TemporaryDirectory() as d:
        p = os.path.join(d, "SampleStruct.lean")
        open(p, "w").write(text)
        r = subprocess.run(["lake", "env", "lean", p], cwd=lean_dir, capture_output=True, text=True)
    got = [l for l in r.stdout.split("\n") if l.strip()]
    want = [w for _, w in EVALS]
    if r.returncode != 0 or got != want:
        bad += 1
        print("FAIL sample_struct:", r.returncode, [(g, w) for g, w in zip(got, want) if g != w], r.stdout[-1500:], r.stderr[-500:])
    else:
        print(f"ok   sample_struct.rs: {len(tr.order)} functions, {len(EVALS)} evaluations as expected")
    # 2. renaming / comments / reordering
    rat = open("/repo/rlib/rational/src/lib.rs").read()
    d0 = gs.Translator(rat, "lib.rs", EXT).translate(RATIONAL_FNS)
    r2 = rat
    for old, new in (("rhs", "other_one"), ("let g = gcd", "let divisor = gcd"), ("&g;", "&divisor; // by the gcd"), ("let mut x", "let mut tmp"),
                     ("&mut x,", "&mut tmp,"), ("-x;", "-tmp;"), ("let mut r = Self { a, b };", "let mut res = Self { b: den, a: num };"),
                     ("r.norm();\n        r\n", "res.norm();\n        /* done /* nested */ */ res\n"), ("new(a: T, b: T)", "new(num: T, den: T)")):
        assert old in r2, old
        r2 = r2.replace(old, new)
    neg = r2[r2.index("impl<T: SignedInteger> Neg for Rational<T> {"):r2.index("macro_rules! impl_copy_op")]
    r2 = r2.replace(neg, "").replace("impl<T: ZeroOne> ZeroOne", neg + "impl<T: ZeroOne> ZeroOne")
    d2 = gs.Translator(r2, "lib.rs", EXT).translate(RATIONAL_FNS)
    if d0 != d2 or r2 == rat:
        bad += 1
        print("FAIL rename invariance")
    else:
        print("ok   rational with variables / parameters renamed, comments, a struct literal reordered, an impl moved: identical text")
    # 3. rejections
    n = 0
    for src, wanted, frag in REJECT:
        try:
            gs.Translator(src, "t.rs", {"rlib_gcd": EXT["rlib_gcd"]}).translate(wanted)
            bad += 1
            print("FAIL not rejected:", repr(src[-80:]))
        except rs2lean.TranslateError as e:
            if frag not in str(e) or not str(e).startswith("t.rs:"):
                bad += 1
                print("FAIL wrong message:", e, "| wanted:", frag)
            else:
                n += 1
    print(f"ok   {n} out-of-subset sources rejected with file:line")
    return 1 if bad else 0


if __name__ == "__main__":
    sys.exit(main())
